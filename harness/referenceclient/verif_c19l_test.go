//go:build verif

package referenceclient

// Check C19, scenario c19-clientlimit: the reference client's receive limit
// is sharp - a response message of exactly the limit is accepted, one byte more
// is rejected with resource_exhausted, measured on the uncompressed size.
//
// One run: the REAL reference server (referenceserver.Run, all protocol stacks)
// and the REAL reference client (run(): stdin decoder, semaphore, invoke,
// connect-go client, stdout encoder) in one synctest bubble on the simulated
// network, talking to the harness over in-memory pipes exactly as they talk to
// the runner. The harness first asks for the RPC without a limit and measures
// the size S_i of every response message it got back (an independent
// proto.Size of the message the server must have sent); then it sends the SAME
// RPC 2-4 more times - concurrently, within the same client process - with
// receive limits drawn around those sizes (S-1, S, S+1, 1, far above).

import (
	"bytes"
	"context"
	"encoding/json"
	"fmt"
	"hash/fnv"
	"io"
	"sort"
	"strings"
	"sync"
	"testing"
	"time"
	_ "unsafe" // go:linkname below

	"connectrpc.com/conformance/internal"
	"connectrpc.com/conformance/internal/app/referenceserver"
	conformancev1 "connectrpc.com/conformance/internal/gen/proto/go/connectrpc/conformance/v1"
	"connectrpc.com/conformance/internal/gen/proto/go/connectrpc/conformance/v1/conformancev1connect"
	"connectrpc.com/conformance/internal/verifsim/simnet"
	"connectrpc.com/conformance/internal/verifsim/simrt"
	"connectrpc.com/conformance/internal/verifsim/simwork"
	"google.golang.org/protobuf/proto"
	"google.golang.org/protobuf/types/known/anypb"
)

func init() { verifScenarios["c19-clientlimit"] = c19lRun }

// golang.org/x/net/http2 keeps a process-wide sync.Pool of channels; a channel
// made in one synctest bubble must not be used in a later one, so the pool is
// re-initialised before every run. No product code is involved.
//
//go:linkname c19lH2ErrChanPool golang.org/x/net/http2.errChanPool
var c19lH2ErrChanPool sync.Pool

type c19lCase struct {
	Protocol    int   `json:"protocol"`     // 1 connect, 2 grpc, 3 grpc-web
	HTTPVersion int   `json:"http_version"` // 1, 2 (h2c)
	Compression int   `json:"compression"`  // enum value 1..6
	Stream      bool  `json:"server_stream"`
	Sizes       []int `json:"response_data_sizes"`
	Random      bool  `json:"incompressible_data"`
	ClientRef   bool  `json:"client_in_reference_mode"`
	NetSeed     int   `json:"net_seed"`
	// follow-up requests: which message the limit refers to and the offset
	Limits []c19lLimit `json:"limits"`
}

type c19lLimit struct {
	Kind   string `json:"kind"`
	Target int    `json:"target_message"`
	Limit  uint32 `json:"limit,omitempty"` // filled in after the measurement
}

type c19lObs struct {
	Limit    uint32 `json:"limit"`
	Sizes    []int  `json:"message_sizes"`
	Payloads int    `json:"payloads_received"`
	Error    string `json:"error,omitempty"`
	Expect   string `json:"expected"`
}

func c19lGen(tape *simrt.Tape) *c19lCase {
	c := &c19lCase{
		Protocol:    1 + tape.Choose(3, "protocol"),
		HTTPVersion: 1 + tape.Choose(2, "http"),
		Compression: 1 + tape.Choose(6, "compression"),
		Stream:      tape.Bool(1, 2, "stream"),
		Random:      tape.Bool(1, 2, "random-data"),
		ClientRef:   tape.Bool(1, 2, "client-refmode"),
		NetSeed:     tape.Choose(1<<20, "netseed"),
	}
	n := 1
	if c.Stream {
		n = 1 + tape.Choose(3, "responses")
	}
	bases := []int{0, 1, 10, 100, 1000, 5000, 20000, 70000}
	for i := 0; i < n; i++ {
		s := bases[tape.Choose(len(bases), "size")]
		if s > 0 {
			s += tape.Choose(8, "size.jitter")
		}
		c.Sizes = append(c.Sizes, s)
	}
	k := 2 + tape.Choose(3, "followups")
	kinds := []string{"exactly", "one-less", "one-more", "two-less", "tiny", "far-above", "double"}
	for i := 0; i < k; i++ {
		c.Limits = append(c.Limits, c19lLimit{Kind: kinds[tape.Choose(len(kinds), "limit.kind")], Target: tape.Choose(n, "limit.target")})
	}
	return c
}

func (c *c19lCase) data(i int) []byte {
	n := c.Sizes[i]
	out := make([]byte, n)
	if c.Random {
		x := uint64(c.NetSeed)*2654435761 + uint64(i) + 1
		for j := range out {
			x ^= x << 13
			x ^= x >> 7
			x ^= x << 17
			out[j] = byte(x)
		}
	} else {
		for j := range out {
			out[j] = "abcdefgh"[j%8]
		}
	}
	return out
}

func (c *c19lCase) request(name string, host string, port uint32, limit uint32) (*conformancev1.ClientCompatRequest, error) {
	req := &conformancev1.ClientCompatRequest{
		TestName:            name,
		HttpVersion:         conformancev1.HTTPVersion(c.HTTPVersion),
		Protocol:            conformancev1.Protocol(c.Protocol),
		Codec:               conformancev1.Codec_CODEC_PROTO,
		Compression:         conformancev1.Compression(c.Compression),
		Host:                host,
		Port:                port,
		Service:             proto.String(conformancev1connect.ConformanceServiceName),
		MessageReceiveLimit: limit,
	}
	var msg proto.Message
	if c.Stream {
		def := &conformancev1.StreamResponseDefinition{}
		for i := range c.Sizes {
			def.ResponseData = append(def.ResponseData, c.data(i))
		}
		req.Method = proto.String("ServerStream")
		req.StreamType = conformancev1.StreamType_STREAM_TYPE_SERVER_STREAM
		msg = &conformancev1.ServerStreamRequest{ResponseDefinition: def}
	} else {
		req.Method = proto.String("Unary")
		req.StreamType = conformancev1.StreamType_STREAM_TYPE_UNARY
		msg = &conformancev1.UnaryRequest{ResponseDefinition: &conformancev1.UnaryResponseDefinition{
			Response: &conformancev1.UnaryResponseDefinition_ResponseData{ResponseData: c.data(0)}}}
	}
	a, err := anypb.New(msg)
	if err != nil {
		return nil, err
	}
	req.RequestMessages = []*anypb.Any{a}
	return req, nil
}

// size of the response message that carried the given payload
func (c *c19lCase) messageSize(p *conformancev1.ConformancePayload) int {
	if c.Stream {
		return proto.Size(&conformancev1.ServerStreamResponse{Payload: p})
	}
	return proto.Size(&conformancev1.UnaryResponse{Payload: p})
}

type c19lDrain struct {
	mu  sync.Mutex
	buf bytes.Buffer
}

func (d *c19lDrain) run(r io.Reader) {
	b := make([]byte, 4096)
	for {
		n, err := r.Read(b)
		d.mu.Lock()
		if d.buf.Len() < 1<<16 {
			d.buf.Write(b[:n])
		}
		d.mu.Unlock()
		if err != nil {
			return
		}
	}
}

func (d *c19lDrain) String() string {
	d.mu.Lock()
	defer d.mu.Unlock()
	return d.buf.String()
}

func c19lRun(t *testing.T, tape *simrt.Tape, o simwork.Opts) *simwork.Result {
	simrt.Bump() // progress mark for the worker watchdog (this scenario does not use the seeded scheduler)
	res := &simwork.Result{Faults: map[string]int{}, Probes: map[string]int{}}
	c := c19lGen(tape)
	var observed []c19lObs
	violate := func(class, format string, args ...any) {
		res.Violations = append(res.Violations, simwork.Violation{Class: class, Detail: fmt.Sprintf(format, args...)})
	}
	netMark := verifNetStart()
	p := simwork.Bubble(t, func(t *testing.T) {
		start := time.Now()
		defer func() { res.SimTime = time.Since(start) }()
		// runs last: switch the machines off, so that no goroutine of the
		// protocol stacks (idle keep-alive connections of transports that a real
		// process would take with it when it exits) outlives the run
		defer simnet.CloseAll()
		simnet.Reset()
		c19lH2ErrChanPool = sync.Pool{New: func() any { return make(chan error, 1) }}
		simnet.Configure(simnet.Config{Seed: uint64(c.NetSeed), MaxSegment: 2048, SmallPermil: 250, MaxLatency: 500 * time.Microsecond})

		// ---- server node
		sctx, scancel := context.WithCancel(context.Background())
		sinR, sinW := io.Pipe()
		soutR, soutW := io.Pipe()
		serrR, serrW := io.Pipe()
		serr := &c19lDrain{}
		go serr.run(serrR)
		serverDone := make(chan error, 1)
		go func() {
			err := referenceserver.Run(sctx, []string{"referenceserver", "-port", "0"}, sinR, soutW, serrW)
			_ = soutW.Close()
			_ = serrW.Close()
			serverDone <- err
		}()
		codec := internal.NewCodec(false)
		go func() {
			_ = codec.NewEncoder(sinW).Encode(&conformancev1.ServerCompatRequest{
				Protocol: conformancev1.Protocol(c.Protocol), HttpVersion: conformancev1.HTTPVersion(c.HTTPVersion), MessageReceiveLimit: 4 << 20})
		}()
		sresp := &conformancev1.ServerCompatResponse{}
		if err := codec.NewDecoder(soutR).DecodeNext(sresp); err != nil {
			scancel()
			res.Invalid = append(res.Invalid, "reference server did not start: "+err.Error()+" stderr: "+serr.String())
			return
		}
		defer func() {
			scancel()
			select {
			case <-serverDone:
			case <-time.After(30 * time.Second):
				violate("c19l/server-shutdown", "the reference server did not stop within 30 simulated seconds after cancellation")
			}
			_ = sinW.Close()
		}()

		// ---- client node
		cctx, ccancel := context.WithCancel(context.Background())
		defer ccancel()
		cinR, cinW := io.Pipe()
		coutR, coutW := io.Pipe()
		clientDone := make(chan error, 1)
		go func() {
			err := run(cctx, c.ClientRef, []string{"referenceclient", "-p", "4"}, cinR, coutW, nil, nil)
			_ = coutW.Close()
			clientDone <- err
		}()
		enc := codec.NewEncoder(cinW)
		dec := codec.NewDecoder(coutR)
		watchdog := time.AfterFunc(120*time.Second, func() {
			_ = coutR.CloseWithError(fmt.Errorf("no answer from the reference client within 120 simulated seconds"))
		})
		defer watchdog.Stop()
		exchange := func(reqs []*conformancev1.ClientCompatRequest) (map[string]*conformancev1.ClientCompatResponse, error) {
			go func() {
				for _, r := range reqs {
					if err := enc.Encode(r); err != nil {
						return
					}
				}
			}()
			out := map[string]*conformancev1.ClientCompatResponse{}
			for range reqs {
				resp := &conformancev1.ClientCompatResponse{}
				if err := dec.DecodeNext(resp); err != nil {
					return out, err
				}
				out[resp.TestName] = resp
			}
			return out, nil
		}
		defer func() {
			_ = cinW.Close()
			select {
			case err := <-clientDone:
				if err != nil && len(res.Violations) == 0 {
					violate("c19l/client-exit", "the reference client ended with an error after its input was closed: %v", err)
				}
			case <-time.After(60 * time.Second):
				violate("c19l/client-exit", "the reference client did not end within 60 simulated seconds after its input was closed")
			}
		}()

		// ---- measurement: no limit
		base, err := c.request("c19l/base", sresp.Host, sresp.Port, 0)
		if err != nil {
			res.Invalid = append(res.Invalid, "request: "+err.Error())
			return
		}
		got, err := exchange([]*conformancev1.ClientCompatRequest{base})
		if err != nil {
			violate("c19l/no-answer", "unlimited request: %v", err)
			return
		}
		r0 := got["c19l/base"].GetResponse()
		if r0 == nil || r0.Error != nil || len(r0.Payloads) != len(c.Sizes) {
			violate("c19l/baseline", "the RPC without a receive limit did not succeed: %s (server stderr: %s)", c19lBrief(got["c19l/base"]), serr.String())
			return
		}
		var sizes []int
		for i, pl := range r0.Payloads {
			if !bytes.Equal(pl.Data, c.data(i)) {
				violate("c19l/baseline", "payload %d of the unlimited RPC differs from the requested data (%d vs %d bytes)", i, len(pl.Data), c.Sizes[i])
				return
			}
			sizes = append(sizes, c.messageSize(pl))
		}

		// ---- follow-ups with limits, all handed to the client at once
		var reqs []*conformancev1.ClientCompatRequest
		for i := range c.Limits {
			l := &c.Limits[i]
			s := sizes[l.Target]
			switch l.Kind {
			case "exactly":
				l.Limit = uint32(s)
			case "one-less":
				l.Limit = uint32(s - 1)
			case "one-more":
				l.Limit = uint32(s + 1)
			case "two-less":
				l.Limit = uint32(s - 2)
			case "tiny":
				l.Limit = 1
			case "far-above":
				l.Limit = uint32(s + 100000)
			case "double":
				l.Limit = uint32(2 * s)
			}
			if l.Limit == 0 {
				l.Limit = 1
			}
			r, err := c.request(fmt.Sprintf("c19l/f%d", i), sresp.Host, sresp.Port, l.Limit)
			if err != nil {
				res.Invalid = append(res.Invalid, "request: "+err.Error())
				return
			}
			reqs = append(reqs, r)
		}
		got, err = exchange(reqs)
		if err != nil {
			violate("c19l/no-answer", "requests with limits: %v (answers so far: %d of %d)", err, len(got), len(reqs))
			return
		}
		for i, l := range c.Limits {
			name := fmt.Sprintf("c19l/f%d", i)
			ob := c19lObs{Limit: l.Limit, Sizes: sizes}
			firstOver := -1
			for j, s := range sizes {
				if uint32(s) > l.Limit {
					firstOver = j
					break
				}
			}
			resp := got[name]
			rr := resp.GetResponse()
			if rr == nil {
				violate("c19l/client-error", "request %s (limit %d, message sizes %v): %s", name, l.Limit, sizes, c19lBrief(resp))
				continue
			}
			ob.Payloads = len(rr.Payloads)
			if rr.Error != nil {
				ob.Error = rr.Error.GetCode().String() + ": " + rr.Error.GetMessage()
			}
			if firstOver < 0 {
				ob.Expect = "accepted"
				res.Probes["accepted"]++
				if uint32(sizes[l.Target]) == l.Limit {
					res.Probes["accepted-at-exactly-the-limit"]++
				}
				if rr.Error != nil {
					class := "c19l/rejected-within-limit"
					if x, ok := c19lReportedSize(rr.Error.GetMessage()); ok && rr.Error.GetCode() == conformancev1.Code_CODE_RESOURCE_EXHAUSTED &&
						c.Compression != int(conformancev1.Compression_COMPRESSION_IDENTITY) && x > int(l.Limit) && !c19lContains(sizes, x) {
						// the size the client complains about is over the limit and is
						// not the uncompressed size of any message: it measured the
						// COMPRESSED message (compression expanded it)
						class = "c19l/compressed-size-over-limit"
						res.Probes["compression-expanded-over-the-limit"]++
					}
					violate(class, "%s: receive limit %d, uncompressed response message sizes %v (all within the limit), but the client reported %s", c.describe(), l.Limit, sizes, ob.Error)
				} else if len(rr.Payloads) != len(sizes) {
					violate("c19l/payloads", "%s: receive limit %d, sizes %v: %d payloads instead of %d", c.describe(), l.Limit, sizes, len(rr.Payloads), len(sizes))
				} else {
					for j, pl := range rr.Payloads {
						if !bytes.Equal(pl.Data, c.data(j)) {
							violate("c19l/payloads", "%s: payload %d differs from the requested data", c.describe(), j)
							break
						}
					}
				}
			} else {
				ob.Expect = fmt.Sprintf("resource_exhausted at message %d", firstOver)
				res.Probes["rejected"]++
				if uint32(sizes[firstOver]) == l.Limit+1 {
					res.Probes["rejected-one-byte-over"]++
				}
				switch {
				case rr.Error == nil:
					violate("c19l/accepted-over-limit", "%s: receive limit %d, uncompressed response message sizes %v (message %d is over the limit), but the client reported success with %d payload(s)", c.describe(), l.Limit, sizes, firstOver, len(rr.Payloads))
				case rr.Error.GetCode() != conformancev1.Code_CODE_RESOURCE_EXHAUSTED:
					violate("c19l/wrong-code", "%s: receive limit %d, sizes %v: error %s instead of resource_exhausted", c.describe(), l.Limit, sizes, ob.Error)
				case len(rr.Payloads) > firstOver:
					violate("c19l/payloads", "%s: receive limit %d, sizes %v: %d payloads delivered although message %d is over the limit", c.describe(), l.Limit, sizes, len(rr.Payloads), firstOver)
				}
			}
			observed = append(observed, ob)
		}
		res.End = "done"
	})
	verifNetFaults(res, netMark)
	if p != nil {
		res.Violations = append(res.Violations, simwork.Violation{Class: "c19l/panic", Detail: fmt.Sprintf("bubble: %v", p)})
		if res.End == "" {
			res.End = "panic"
		}
	}
	if res.End == "" && len(res.Violations) > 0 {
		res.End = "violation"
	}
	res.Sample = map[string]any{"case": c, "observed": observed}
	key, _ := json.Marshal(c)
	h := fnv.New64a()
	_, _ = h.Write(key)
	res.LogHash = h.Sum64()
	res.Nontrivial = true
	res.Log = []string{string(key)}
	cover := []string{fmt.Sprintf("protocol=%d http=%d compression=%d stream=%v", c.Protocol, c.HTTPVersion, c.Compression, c.Stream)}
	for _, l := range c.Limits {
		cover = append(cover, "limit="+l.Kind)
	}
	sort.Strings(cover)
	res.Cover = cover
	return res
}

func (c *c19lCase) describe() string {
	kind := "unary"
	if c.Stream {
		kind = fmt.Sprintf("server stream of %d", len(c.Sizes))
	}
	data := "compressible"
	if c.Random {
		data = "incompressible"
	}
	return fmt.Sprintf("%s, protocol %s, HTTP/%d, %s, %s data of %v bytes, client reference mode %v",
		kind, strings.TrimPrefix(conformancev1.Protocol(c.Protocol).String(), "PROTOCOL_"), c.HTTPVersion,
		conformancev1.Compression(c.Compression).String(), data, c.Sizes, c.ClientRef)
}

func c19lBrief(r *conformancev1.ClientCompatResponse) string {
	if r == nil {
		return "no answer for this test name"
	}
	if e := r.GetError(); e != nil {
		return "client error: " + e.GetMessage()
	}
	rr := r.GetResponse()
	s := fmt.Sprintf("%d payload(s)", len(rr.GetPayloads()))
	if rr.GetError() != nil {
		s += ", error " + rr.GetError().GetCode().String() + ": " + rr.GetError().GetMessage()
	}
	return s
}

// c19lReportedSize extracts N from "message size N is larger than configured max M".
func c19lReportedSize(msg string) (int, bool) {
	_, rest, ok := strings.Cut(msg, "message size ")
	if !ok {
		return 0, false
	}
	n, digits := 0, 0
	for digits < len(rest) && rest[digits] >= '0' && rest[digits] <= '9' {
		n = n*10 + int(rest[digits]-'0')
		digits++
	}
	return n, digits > 0 && digits < 10
}

func c19lContains(xs []int, x int) bool {
	for _, v := range xs {
		if v == x {
			return true
		}
	}
	return false
}
