//go:build verif

package referenceclient

import (
	"testing"
	"time"

	"connectrpc.com/conformance/internal/verifsim/simnet"
	"connectrpc.com/conformance/internal/verifsim/simwork"
)

var verifScenarios = map[string]simwork.RunFunc{}

// TestVerif is the worker entry point used by /verif/vcheck.
func TestVerif(t *testing.T) {
	simwork.Main(t, verifScenarios)
}

// verifNetMark / verifNetFaults report what the simulated network did during
// one run (evidence only: the counts depend on how net/http and x/net/http2
// group their writes, so they are not part of the run's log or hash).
type verifNetMark struct {
	segments, small, delayed, datagrams, dropped, conns int64
	start                                                time.Time
}

func verifNetStart() verifNetMark {
	return verifNetMark{segments: simnet.Stats.Segments.Load(), small: simnet.Stats.SmallSegments.Load(), delayed: simnet.Stats.DelayedSegs.Load(),
		datagrams: simnet.Stats.Datagrams.Load(), dropped: simnet.Stats.DroppedDatagrams.Load(), conns: simnet.Stats.Conns.Load()}
}

func verifNetFaults(res *simwork.Result, m verifNetMark) {
	add := func(k string, v int64) {
		if v > 0 {
			res.Faults[k] += int(v)
		}
	}
	add("net: segmentation (segments)", simnet.Stats.Segments.Load()-m.segments)
	add("net: small 1-8 byte segments", simnet.Stats.SmallSegments.Load()-m.small)
	add("net: delayed segments", simnet.Stats.DelayedSegs.Load()-m.delayed)
	add("net: datagrams", simnet.Stats.Datagrams.Load()-m.datagrams)
	add("net: dropped datagrams", simnet.Stats.DroppedDatagrams.Load()-m.dropped)
}
