//go:build verif

package referenceclient

// Check C09, scenario c09-clientloop: the reference client's request loop
// (run(): one stream decoder over stdin, one goroutine per request, one encoder
// over stdout) reads back exactly the sequence of requests that was written to
// its stdin, however the byte stream is split across reads - in the binary and
// in the JSON wire variant - and tells a truncated stream from a clean end.
//
// The requests are made to fail before any network use (no HTTP version), so
// every request yields an error result at once; what is judged is the framing:
// every complete request is answered exactly once under its own name, nothing
// else is answered, a stream cut inside a prefix or a message makes run()
// return an error, a stream that ends between messages makes it return nil.

import (
	"bytes"
	"context"
	"encoding/json"
	"fmt"
	"hash/fnv"
	"io"
	"sort"
	"strings"
	"sync"
	"testing"
	"time"

	"connectrpc.com/conformance/internal"
	conformancev1 "connectrpc.com/conformance/internal/gen/proto/go/connectrpc/conformance/v1"
	"connectrpc.com/conformance/internal/verifsim/simio"
	"connectrpc.com/conformance/internal/verifsim/simrt"
	"connectrpc.com/conformance/internal/verifsim/simwork"
)

func init() { verifScenarios["c09-clientloop"] = c09rRun }

type c09rCase struct {
	JSON     bool   `json:"json_variant"`
	Names    []string `json:"request_names"`
	Sizes    []int  `json:"encoded_sizes"`
	CutAt    int    `json:"cut_at_byte"` // -1: whole stream
	Total    int    `json:"stream_bytes"`
	Chunking string `json:"chunking"`
	End      string `json:"end"`
	Parallel int    `json:"parallelism"`
}

type c09rOut struct {
	mu     sync.Mutex
	buf    bytes.Buffer
	closed bool
}

func (o *c09rOut) Write(p []byte) (int, error) {
	o.mu.Lock()
	defer o.mu.Unlock()
	return o.buf.Write(p)
}

func (o *c09rOut) Close() error {
	o.mu.Lock()
	o.closed = true
	o.mu.Unlock()
	return nil
}

type c09rIn struct{ *simio.Reader }

func (c09rIn) Close() error { return nil }

func c09rRun(t *testing.T, tape *simrt.Tape, o simwork.Opts) *simwork.Result {
	simrt.Bump() // progress mark for the worker watchdog (this scenario does not use the seeded scheduler)
	res := &simwork.Result{Faults: map[string]int{}, Probes: map[string]int{}}
	c := &c09rCase{JSON: tape.Bool(1, 2, "json"), CutAt: -1, Parallel: 1 + tape.Choose(4, "parallel")}
	codec := internal.NewCodec(c.JSON)
	n := tape.Choose(6, "requests")
	var stream []byte
	var ends []int // offset after each message
	for i := 0; i < n; i++ {
		name := fmt.Sprintf("loop/%d", i)
		req := &conformancev1.ClientCompatRequest{TestName: name, Host: "127.0.0.1", Port: uint32(1 + tape.Choose(60000, "port"))}
		bulk := tape.Choose(10, "bulk")
		if bulk == 9 {
			// a message above 64 KiB (in both wire variants) with more messages behind it
			req.ServerTlsCert = bytes.Repeat([]byte{0x7b, 0x7d, 0x0a, 0xff, 0x22}, 14000+tape.Choose(8000, "filler.big"))
			res.Probes["message-above-64KiB"]++
		}
		switch bulk % 4 {
		case 1:
			req.RequestHeaders = []*conformancev1.Header{{Name: "x-filler", Value: []string{strings.Repeat("v", tape.Choose(300, "filler"))}}}
		case 2:
			req.RequestHeaders = []*conformancev1.Header{{Name: "x-filler", Value: []string{strings.Repeat("é{}\"\\n", tape.Choose(40, "filler"))}}}
		case 3:
			if bulk != 9 {
				req.ServerTlsCert = bytes.Repeat([]byte{0x7b, 0x7d, 0x0a, 0xff}, tape.Choose(2000, "filler")) // braces and newlines inside a bytes field
			}
		}
		var one bytes.Buffer
		if err := codec.NewEncoder(&one).Encode(req); err != nil {
			res.Invalid = append(res.Invalid, "encode: "+err.Error())
			return res
		}
		stream = append(stream, one.Bytes()...)
		ends = append(ends, len(stream))
		c.Names = append(c.Names, name)
		c.Sizes = append(c.Sizes, one.Len())
	}
	c.Total = len(stream)
	if len(stream) > 0 && tape.Bool(1, 2, "cut") {
		switch tape.Choose(4, "cut.kind") {
		case 0:
			c.CutAt = tape.Choose(len(stream), "cut.at")
		case 1: // inside or right after a length prefix / first bytes of a message
			m := tape.Choose(n, "cut.msg")
			start := 0
			if m > 0 {
				start = ends[m-1]
			}
			c.CutAt = start + tape.Choose(6, "cut.prefix")
			if c.CutAt > len(stream) {
				c.CutAt = len(stream)
			}
		case 2: // exactly between two messages
			c.CutAt = ends[tape.Choose(n, "cut.msg")]
		case 3: // one byte short of a message end
			c.CutAt = ends[tape.Choose(n, "cut.msg")] - 1
		}
		if c.CutAt >= len(stream) {
			c.CutAt = -1
		}
	}
	data := stream
	if c.CutAt >= 0 {
		data = stream[:c.CutAt]
		res.Faults["truncate-at-byte"]++
	}
	rd := &simio.Reader{Tape: tape, Boundaries: ends}
	rd.Segs = simio.Split(tape, data, 4, []time.Duration{0, time.Millisecond, 50 * time.Millisecond})
	switch tape.Choose(4, "chunking") {
	case 0:
		rd.WholeReads = true // a read returns everything that has arrived: reads span several messages
		c.Chunking = "whole-reads"
	case 1:
		rd.SmallChunks = true
		c.Chunking = "1-8 byte reads"
	default:
		c.Chunking = "mixed"
	}
	switch tape.Choose(3, "end") {
	case 0:
		rd.End = simio.EndEOF
		c.End = "eof"
	case 1:
		rd.End = simio.EndEOFWithData
		c.End = "eof-with-data"
	case 2:
		rd.End = simio.EndError
		c.End = "io-error"
		res.Faults["end:error"]++
	}
	res.Sample = c

	out := &c09rOut{}
	var runErr error
	returned := false
	p := simwork.Bubble(t, func(t *testing.T) {
		args := []string{"referenceclient", "-p", fmt.Sprint(c.Parallel)}
		if c.JSON {
			args = append(args, "--json")
		}
		done := make(chan struct{})
		go func() {
			defer close(done)
			runErr = run(context.Background(), false, args, c09rIn{rd}, out, nil, nil)
		}()
		select {
		case <-done:
			returned = true
		case <-time.After(10 * time.Minute):
		}
	})
	viol := func(class, format string, args ...any) {
		res.Violations = append(res.Violations, simwork.Violation{Class: class, Detail: fmt.Sprintf(format, args...)})
	}
	key, _ := json.Marshal(c)
	h := fnv.New64a()
	_, _ = h.Write(key)
	res.LogHash = h.Sum64()
	res.Log = []string{string(key)}
	res.Nontrivial = len(rd.Chunks) > 1 || c.CutAt >= 0
	res.End = "done"
	if p != nil {
		viol("c09/clientloop/panic", "bubble: %v", p)
		return res
	}
	if !returned {
		viol("c09/clientloop/hang", "run() did not return within 10 simulated minutes after its input ended (%s)", c.describe())
		return res
	}
	// what was answered
	out.mu.Lock()
	answers := append([]byte(nil), out.buf.Bytes()...)
	out.mu.Unlock()
	dec := codec.NewDecoder(bytes.NewReader(answers))
	got := map[string]int{}
	for {
		resp := &conformancev1.ClientCompatResponse{}
		err := dec.DecodeNext(resp)
		if err == io.EOF {
			break
		}
		if err != nil {
			viol("c09/clientloop/output", "the client's output is not a well-formed message sequence: %v (%s)", err, c.describe())
			return res
		}
		got[resp.TestName]++
		if resp.GetError() == nil {
			viol("c09/clientloop/output", "answer for %q is not the expected error result: %v", resp.TestName, resp)
		}
	}
	// complete messages in the delivered prefix (a JSON message is complete
	// with its closing brace; the white space that follows belongs to nobody)
	limit := len(data)
	complete := 0
	lastEnd := 0
	for i, e := range ends {
		start := 0
		if i > 0 {
			start = ends[i-1]
		}
		objEnd := e
		if c.JSON {
			objEnd = start + len(bytes.TrimRight(stream[start:e], " \t\r\n"))
		}
		if objEnd <= limit {
			complete++
			lastEnd = objEnd
		}
	}
	rest := data[lastEnd:limit]
	cleanEnd := len(rest) == 0 || (c.JSON && strings.TrimSpace(string(rest)) == "")
	var names []string
	for k := range got {
		names = append(names, k)
	}
	sort.Strings(names)
	for i := 0; i < complete; i++ {
		if got[c.Names[i]] != 1 {
			viol("c09/clientloop/request-lost", "request %q (message %d of %d complete ones, %s) was answered %d times; answered names: %v", c.Names[i], i+1, complete, c.describe(), got[c.Names[i]], names)
			break
		}
	}
	for _, k := range names {
		idx := -1
		for i, nm := range c.Names {
			if nm == k {
				idx = i
			}
		}
		if idx < 0 || idx >= complete {
			viol("c09/clientloop/phantom-request", "an answer for %q was written although that request was not completely delivered (%s)", k, c.describe())
		}
	}
	switch {
	case rd.End == simio.EndError:
		if runErr == nil {
			viol("c09/clientloop/error-swallowed", "stdin failed with an I/O error, run() returned nil (%s)", c.describe())
		}
		res.Probes["io-error"]++
	case cleanEnd:
		res.Probes["clean-end"]++
		if runErr != nil {
			viol("c09/clientloop/clean-end-reported-as-error", "the stream ended between messages, run() returned %v (%s)", runErr, c.describe())
		}
	default:
		res.Probes["truncated"]++
		if runErr == nil {
			viol("c09/clientloop/truncation-not-reported", "the stream ended inside a message (%d bytes delivered, last complete message ends at %d), run() returned nil (%s)", limit, lastEnd, c.describe())
		}
	}
	if len(rd.Chunks) > 0 {
		maxChunk := 0
		for _, ch := range rd.Chunks {
			if ch > maxChunk {
				maxChunk = ch
			}
		}
		for i, sz := range c.Sizes {
			if i+1 < len(c.Sizes) && maxChunk > sz+c.Sizes[i+1] {
				res.Probes["read-spanning-several-messages"]++
				break
			}
		}
	}
	if c.JSON {
		res.Probes["json"]++
	} else {
		res.Probes["binary"]++
	}
	res.Cover = []string{fmt.Sprintf("json=%v n=%d cut=%v end=%s chunking=%s", c.JSON, len(c.Names), c.CutAt >= 0, c.End, c.Chunking)}
	return res
}

func (c *c09rCase) describe() string {
	v := "binary"
	if c.JSON {
		v = "JSON"
	}
	return fmt.Sprintf("%s variant, %d requests of %v bytes, cut at %d of %d, %s, end %s, -p %d", v, len(c.Names), c.Sizes, c.CutAt, c.Total, c.Chunking, c.End, c.Parallel)
}
