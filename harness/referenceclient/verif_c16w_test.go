//go:build verif

package referenceclient

// Check C16, scenario c16-wire: the reference client's own hand-off of a
// completed trace (wire_details.go: withWireCapture / setWireTrace /
// examineWireDetails). The call context carries the slot; the round tripper's
// collector completes it, possibly a moment after the RPC library has given
// up on the call (deadline, cancellation), and examineWireDetails waits for it
// for one second at most.
//
// One run: a call context (live, cancelled, or past its deadline - the state a
// call that ended with a context error leaves behind), a trace completed
// before the examination begins or 0 .. 1.5 s after it or never (a producer
// goroutine on the bubble's fake clock), then examineWireDetails.
// Oracle: a trace completed before the examination or clearly inside the grace
// period is obtained (its status code is returned, nothing is printed), whatever
// the state of the call context; one completed clearly outside or never is not,
// the examination then says so and returns after exactly the grace period - it
// never waits longer.

import (
	"context"
	"encoding/json"
	"fmt"
	"hash/fnv"
	"net/http"
	"strings"
	"testing"
	"time"

	"connectrpc.com/conformance/internal"
	"connectrpc.com/conformance/internal/tracer"
	"connectrpc.com/conformance/internal/verifsim/simrt"
	"connectrpc.com/conformance/internal/verifsim/simwork"
)

func init() { verifScenarios["c16-wire"] = c16wRun }

type c16wCase struct {
	Ctx        string `json:"call_context"`
	CompleteMs int    `json:"trace_completed_ms_after_examination_began"` // <0: before it began; 1<<30: never
	Status     int    `json:"status_code_in_trace"`
	NoResponse bool   `json:"trace_without_response"`
}

func c16wRun(t *testing.T, tape *simrt.Tape, o simwork.Opts) *simwork.Result {
	simrt.Bump()
	res := &simwork.Result{Faults: map[string]int{}, Probes: map[string]int{}, End: "done"}
	const never = 1 << 30
	c := &c16wCase{
		Ctx:        []string{"live", "cancelled", "deadline-exceeded", "parent-cancelled"}[tape.Choose(4, "ctx")],
		CompleteMs: []int{-1, -1, 0, 1, 20, 500, 900, 979, 1000, 1021, 1500, never}[tape.Choose(12, "complete")],
		Status:     []int{200, 404, 503}[tape.Choose(3, "status")],
		NoResponse: tape.Bool(1, 8, "no-response"),
	}
	res.Sample = c
	viol := func(class, format string, args ...any) {
		res.Violations = append(res.Violations, simwork.Violation{Class: class, Detail: fmt.Sprintf(format, args...)})
	}
	var (
		status   int
		ok       bool
		elapsed  time.Duration
		returned bool
		printer  = &internal.SimplePrinter{}
	)
	p := simwork.Bubble(t, func(t *testing.T) {
		parent, cancelParent := context.WithCancel(context.Background())
		defer cancelParent()
		var callCtx context.Context
		var cancel context.CancelFunc
		switch c.Ctx {
		case "live":
			callCtx, cancel = context.WithCancel(parent)
		case "cancelled":
			callCtx, cancel = context.WithCancel(parent)
			cancel()
		case "deadline-exceeded":
			callCtx, cancel = context.WithTimeout(parent, 50*time.Millisecond)
			time.Sleep(60 * time.Millisecond)
		default:
			callCtx, cancel = context.WithCancel(parent)
			cancelParent()
		}
		defer cancel()
		ctx := withWireCapture(callCtx)
		tr := tracer.Trace{TestName: "Wire/case"}
		if !c.NoResponse {
			tr.Response = &http.Response{StatusCode: c.Status, Header: http.Header{"Content-Type": {"application/proto"}}}
		}
		if c.CompleteMs < 0 {
			setWireTrace(ctx, tr)
		} else if c.CompleteMs != never {
			go func() {
				time.Sleep(time.Duration(c.CompleteMs) * time.Millisecond)
				setWireTrace(ctx, tr)
			}()
		}
		done := make(chan struct{})
		start := time.Now()
		go func() {
			defer close(done)
			status, ok = examineWireDetails(ctx, printer)
			elapsed = time.Since(start)
		}()
		select {
		case <-done:
			returned = true
		case <-time.After(time.Minute):
		}
		// let a late producer finish before the bubble ends
		time.Sleep(2 * time.Second)
	})
	key, _ := json.Marshal(c)
	h := fnv.New64a()
	_, _ = h.Write(key)
	res.LogHash = h.Sum64()
	res.Log = []string{string(key)}
	res.Nontrivial = true
	res.SimTime = elapsed
	if c.Ctx != "live" {
		res.Faults["call-context-already-done"]++
	}
	res.Cover = []string{fmt.Sprintf("ctx=%s complete=%d response=%v", c.Ctx, c.CompleteMs, !c.NoResponse)}
	if p != nil {
		viol("c16/wire/panic", "bubble: %v", p)
		return res
	}
	if !returned {
		viol("c16/wire/wait-outlives-grace-period", "examineWireDetails had not returned after a minute (%+v)", *c)
		return res
	}
	const grace = time.Second
	printed := strings.Join(printer.Messages, " | ")
	gaveUp := strings.Contains(printed, "unable to examine wire details")
	switch {
	case c.CompleteMs < int(grace/time.Millisecond)-20:
		// before the examination began, or clearly inside the grace period
		if c.CompleteMs < 0 {
			res.Probes["trace-completed-before-wait-began"]++
		} else {
			res.Probes["trace-completed-after-wait-began"]++
		}
		want := time.Duration(max(c.CompleteMs, 0)) * time.Millisecond
		switch {
		case gaveUp:
			viol("c16/wire/trace-not-obtained", "the trace was completed %d ms after the examination began (grace period %s, call context %s), but the examination gave up after %s: %s", c.CompleteMs, grace, c.Ctx, elapsed, printed)
		case c.NoResponse:
			if ok || status != 0 {
				viol("c16/wire/wrong-trace", "trace without response, examination returned (%d, %v)", status, ok)
			}
		case !ok || status != c.Status:
			viol("c16/wire/wrong-trace", "the trace carries status %d, the examination returned (%d, %v); printed: %s", c.Status, status, ok, printed)
		}
		if elapsed != want {
			viol("c16/wire/wait-timing", "the trace was completed %d ms after the examination began, the examination returned after %s", c.CompleteMs, elapsed)
		}
	case c.CompleteMs > int(grace/time.Millisecond)+20:
		res.Probes["trace-completed-outside-grace-period-or-never"]++
		if !gaveUp || ok {
			viol("c16/wire/phantom-trace", "no trace was completed within the grace period (%+v) but the examination returned (%d, %v) and printed %q", *c, status, ok, printed)
		}
		if elapsed > grace {
			viol("c16/wire/wait-outlives-grace-period", "the examination gave up after %s, the grace period is %s", elapsed, grace)
		}
	default:
		res.Probes["trace-completed-at-the-end-of-the-grace-period"]++
	}
	return res
}
