//go:build verif

package connectconformance

import "connectrpc.com/conformance/internal/app/connectconformance/testsuites"

func loadSuites(files []string) (map[string][]byte, error) {
	if len(files) > 0 {
		return testsuites.LoadTestSuitesFromFiles(files)
	}
	return testsuites.LoadTestSuites()
}
