//go:build verif

package connectconformance

import (
	"fmt"
	"os"

	conformancev1 "connectrpc.com/conformance/internal/gen/proto/go/connectrpc/conformance/v1"
	"connectrpc.com/conformance/internal/verifsim/simrt"
	"google.golang.org/protobuf/encoding/protowire"
	"google.golang.org/protobuf/proto"
	"google.golang.org/protobuf/reflect/protoreflect"
	"google.golang.org/protobuf/types/known/anypb"
)

// Generator for C19: requests marked for expansion to limit+delta.

type sizeCaseInfo struct {
	Deltas   []int64 `json:"deltas"`  // per message; absent directive = -1<<62
	Targets  []int64 `json:"targets"` // limit+delta per expanded message
	Reach    []bool  `json:"reachable"`
	OverLim  bool    `json:"some_message_over_limit"`
	BaseSize []int   `json:"template_sizes"`
	// the load-phase check puts the case in a suite with or without
	// relies_on_message_receive_limit: expansion must not depend on it
	LoadSuiteReliesOnLimit bool `json:"load_check_suite_relies_on_limit"`
	ErrDef                 bool `json:"response_definition_asks_for_error,omitempty"`
}

const noDirective = int64(-1) << 62

func sizeWithData(base int, n int) int {
	if n == 0 {
		return base
	}
	return base + 1 + protowire.SizeVarint(uint64(n)) + n
}

// reachable reports whether some request_data length gives exactly target.
func reachable(base int, target int64) bool {
	if target < int64(base) {
		return false
	}
	if target == int64(base) {
		return true
	}
	rem := int(target) - base
	for n := rem - 6; n <= rem; n++ {
		if n > 0 && sizeWithData(base, n) == int(target) {
			return true
		}
	}
	return false
}

func genSizeCase(tp *simrt.Tape, name string, thorough bool) (*conformancev1.TestCase, *sizeCaseInfo) {
	st := []conformancev1.StreamType{
		conformancev1.StreamType_STREAM_TYPE_UNARY,
		conformancev1.StreamType_STREAM_TYPE_CLIENT_STREAM,
		conformancev1.StreamType_STREAM_TYPE_HALF_DUPLEX_BIDI_STREAM,
	}[tp.Choose(3, "streamtype")]
	tc := &conformancev1.TestCase{Request: &conformancev1.ClientCompatRequest{TestName: name, StreamType: st}}
	info := &sizeCaseInfo{}
	nmsg := 1
	if st != conformancev1.StreamType_STREAM_TYPE_UNARY {
		nmsg = 1 + tp.Choose(3, "nmsg")
	}
	initial := func() []byte {
		switch tp.Choose(4, "initdata") {
		case 1:
			return []byte("abc")
		case 2:
			return make([]byte, 127)
		case 3:
			return make([]byte, 300)
		}
		return nil
	}
	respData := []byte("response")
	// The response definition may ask for an error instead of data: a message over
	// the limit is answered with resource_exhausted all the same. (Only used in
	// cases with a message over the limit - below it the error would carry all the
	// padded requests in its details.)
	errDef := tp.Bool(1, 4, "errdef")
	info.ErrDef = errDef
	unaryDef := func() *conformancev1.UnaryResponseDefinition {
		if errDef {
			return &conformancev1.UnaryResponseDefinition{Response: &conformancev1.UnaryResponseDefinition_Error{
				Error: &conformancev1.Error{Code: conformancev1.Code_CODE_ABORTED, Message: proto.String("asked-for error")}}}
		}
		return &conformancev1.UnaryResponseDefinition{Response: &conformancev1.UnaryResponseDefinition_ResponseData{ResponseData: respData}}
	}
	var msgs []proto.Message
	for i := 0; i < nmsg; i++ {
		switch st {
		case conformancev1.StreamType_STREAM_TYPE_UNARY:
			msgs = append(msgs, &conformancev1.UnaryRequest{RequestData: initial(), ResponseDefinition: unaryDef()})
		case conformancev1.StreamType_STREAM_TYPE_CLIENT_STREAM:
			m := &conformancev1.ClientStreamRequest{RequestData: initial()}
			if i == 0 {
				m.ResponseDefinition = unaryDef()
			}
			msgs = append(msgs, m)
		default:
			m := &conformancev1.BidiStreamRequest{RequestData: initial()}
			if i == 0 {
				m.ResponseDefinition = &conformancev1.StreamResponseDefinition{ResponseData: [][]byte{respData}}
				if errDef {
					m.ResponseDefinition.Error = &conformancev1.Error{Code: conformancev1.Code_CODE_ABORTED, Message: proto.String("asked-for error")}
					if tp.Bool(1, 2, "errdef.nodata") {
						m.ResponseDefinition.ResponseData = nil
					}
				}
			}
			msgs = append(msgs, m)
		}
	}
	for i, m := range msgs {
		a, _ := anypb.New(m)
		tc.Request.RequestMessages = append(tc.Request.RequestMessages, a)
		base := proto.Size(withoutData(m))
		info.BaseSize = append(info.BaseSize, base)
		last := i == len(msgs)-1
		var delta int64
		kind := tp.Choose(10, "deltakind")
		if errDef && last && !info.OverLim {
			kind = 4 // see errDef
		}
		switch kind {
		case 0:
			delta = noDirective
		case 1, 2, 3:
			delta = int64(tp.Choose(4, "delta.under")) * -1 // 0, -1, -2, -3
		case 4, 5:
			if last || (!info.OverLim && tp.Bool(1, 2, "over.notlast")) {
				delta = int64(1 + tp.Choose(3, "delta.over")) // +1..+3
				if tp.Bool(1, 4, "delta.plus10") {
					delta = 10
				}
				if !last {
					// as in the embedded suite: give the server time to reject the
					// message and the client time to notice
					tc.Request.RequestDelayMs = 50
				}
			}
		case 6:
			// around the varint boundaries of the padding length (128, 16384)
			b := []int{127, 128, 129, 16383, 16384, 16385}[tp.Choose(6, "boundary")]
			target := int64(sizeWithData(base, b)) + int64(tp.Choose(3, "boundary.delta")) - 1
			delta = target - serverReceiveLimit
		case 7:
			// tiny totals: at, just below and just above the template's own size
			delta = int64(base) + int64(tp.Choose(5, "tiny")) - 2 - serverReceiveLimit
		case 8:
			delta = -serverReceiveLimit + int64(tp.Choose(3, "zero")) - 1 // total -1, 0, 1
		case 9:
			delta = -10
		}
		info.Deltas = append(info.Deltas, delta)
		if delta == noDirective {
			tc.ExpandRequests = append(tc.ExpandRequests, &conformancev1.TestCase_ExpandedSize{})
			info.Targets = append(info.Targets, -1)
			info.Reach = append(info.Reach, true)
			continue
		}
		d32 := int32(delta)
		tc.ExpandRequests = append(tc.ExpandRequests, &conformancev1.TestCase_ExpandedSize{SizeRelativeToLimit: &d32})
		target := serverReceiveLimit + delta
		info.Targets = append(info.Targets, target)
		info.Reach = append(info.Reach, target >= 0 && reachable(base, target))
		if delta > 0 {
			info.OverLim = true
		}
	}
	if info.OverLim {
		tc.ExpectedResponse = &conformancev1.ClientResponseResult{Error: &conformancev1.Error{Code: conformancev1.Code_CODE_RESOURCE_EXHAUSTED}}
	}
	info.LoadSuiteReliesOnLimit = !tp.Bool(1, 3, "load-suite-without-limit-flag")
	return tc, info
}

func withoutData(m proto.Message) proto.Message {
	c := proto.Clone(m)
	r := c.ProtoReflect()
	if f := r.Descriptor().Fields().ByName("request_data"); f != nil {
		r.Clear(f)
	}
	return c
}

// sizeLoadCheck loads one case on its own and checks the padding clause.
// It returns the load verdict ("ok", "rejected: ...", "panic: ...") and a
// violation text ("" if the clause holds).
func sizeLoadCheck(dir string, tc *conformancev1.TestCase, info *sizeCaseInfo) (verdict, violation string) {
	defer func() {
		if r := recover(); r != nil {
			verdict = fmt.Sprintf("panic: %v", r)
		}
	}()
	suite := &conformancev1.TestSuite{Name: "LoadCheck", Mode: conformancev1.TestSuite_TEST_MODE_SERVER, ReliesOnMessageReceiveLimit: info.LoadSuiteReliesOnLimit,
		RelevantCodecs: []conformancev1.Codec{conformancev1.Codec_CODEC_PROTO}, TestCases: []*conformancev1.TestCase{proto.Clone(tc).(*conformancev1.TestCase)}}
	path, err := genSuiteFileFor(dir, suite)
	if err != nil {
		return "rejected: " + err.Error(), ""
	}
	data, err := os.ReadFile(path)
	if err != nil {
		return "rejected: " + err.Error(), ""
	}
	suites, err := parseTestSuites(map[string][]byte{path: data})
	allReach := true
	for _, r := range info.Reach {
		allReach = allReach && r
	}
	if err != nil {
		if allReach {
			return "rejected: " + err.Error(), fmt.Sprintf("every requested size is reachable (targets %v, template sizes without padding %v) but the suite was rejected: %v", info.Targets, info.BaseSize, err)
		}
		return "rejected: " + err.Error(), ""
	}
	if !allReach {
		return "ok", fmt.Sprintf("a requested size is unreachable (targets %v, template sizes without padding %v, reachable %v) but the suite was accepted", info.Targets, info.BaseSize, info.Reach)
	}
	for _, s := range suites {
		got := s.TestCases[0]
		for i, a := range got.Request.RequestMessages {
			m, err := a.UnmarshalNew()
			if err != nil {
				return "ok", "expanded request does not unmarshal: " + err.Error()
			}
			orig, _ := tc.Request.RequestMessages[i].UnmarshalNew()
			if info.Deltas[i] == noDirective {
				if !proto.Equal(m, orig) {
					return "ok", fmt.Sprintf("request #%d has no expand directive but was changed", i+1)
				}
				continue
			}
			if int64(proto.Size(m)) != info.Targets[i] {
				return "ok", fmt.Sprintf("request #%d was padded to %d bytes, limit+delta is %d", i+1, proto.Size(m), info.Targets[i])
			}
			if !proto.Equal(withoutData(m), withoutData(orig)) {
				return "ok", fmt.Sprintf("request #%d: expansion changed something other than the padding field", i+1)
			}
			_ = protoreflect.Name("")
		}
	}
	return "ok", ""
}
