//go:build verif

package connectconformance

import (
	"context"
	"encoding/json"
	"fmt"
	"io"
	"os"
	"path/filepath"
	"regexp"
	"runtime"
	"sort"
	"strings"
	"sync"
	"sync/atomic"
	"testing"
	"testing/synctest"
	"time"

	"connectrpc.com/conformance/internal/app/grpcclient"
	"connectrpc.com/conformance/internal/app/grpcserver"
	"connectrpc.com/conformance/internal/app/referenceclient"
	"connectrpc.com/conformance/internal/app/referenceserver"
	conformancev1 "connectrpc.com/conformance/internal/gen/proto/go/connectrpc/conformance/v1"
	"connectrpc.com/conformance/internal/verifsim/simnet"
	"connectrpc.com/conformance/internal/verifsim/simrt"
	"google.golang.org/protobuf/encoding/protojson"
)

// nJob is what the engine-N driver passes in VERIF_NJOB.
type nJob struct {
	Kind         string   `json:"kind"` // "run" or "expand"
	Name         string   `json:"name"`
	Mode         string   `json:"mode"` // "server" or "client"
	Peer         string   `json:"peer"` // referenceserver, grpcserver, referenceclient, grpcclient
	ConfigFile   string   `json:"config_file"`
	KnownFailing []string `json:"known_failing"`
	RunPatterns  []string `json:"run_patterns"`
	SkipPatterns []string `json:"skip_patterns"`
	TestFiles    []string `json:"test_files"`
	MaxServers   uint     `json:"max_servers"`
	Parallelism  uint     `json:"parallelism"`
	Trace        bool     `json:"trace"`
	Seed         uint64   `json:"seed"`
	MaxSegment   int      `json:"max_segment"`
	SmallPermil  int      `json:"small_permil"`
	MaxLatencyUs int      `json:"max_latency_us"`
	DgramMinUs   int      `json:"dgram_min_us"`
	DgramMaxUs   int      `json:"dgram_max_us"`
	Out          string   `json:"out"`
	// generated suites (C02)
	GenSeed     uint64     `json:"gen_seed"`
	GenCases    int        `json:"gen_cases"`
	GenTapes    [][]uint32 `json:"gen_tapes"`
	GenThorough bool       `json:"gen_thorough"`
	GenKind     string     `json:"gen_kind"` // "" (C02 cases) or "size" (C19)
}

type genInfo struct {
	Name   string        `json:"name"`
	Load   string        `json:"load"`
	Tape   []uint32      `json:"tape"`
	Def    string        `json:"definition,omitempty"`
	Stream string        `json:"stream_type"`
	Shape  string        `json:"shape,omitempty"` // derived tags used in known-finding signatures
	NReq   int           `json:"requests"`
	Check  string        `json:"load_violation,omitempty"`
	Size   *sizeCaseInfo `json:"size_info,omitempty"`
}

type nOut struct {
	Name         string           `json:"name"`
	OK           bool             `json:"ok"`
	Err          string           `json:"err"`
	Total        int              `json:"total"`
	Passed       int              `json:"passed"`
	Failed       int              `json:"failed"`
	CouldNotRun  int              `json:"could_not_run"`
	ExpFailed    int              `json:"expected_failures"`
	FailedNames  []string         `json:"failed_names"`
	InfoNames    []string         `json:"expected_failure_names"`
	Unexpected   []string         `json:"failed_lines"`
	Permutations int              `json:"permutations"`
	Names        []string         `json:"names,omitempty"`
	SimSeconds   float64          `json:"sim_seconds"`
	WallSeconds  float64          `json:"wall_seconds"`
	Panic        string           `json:"panic,omitempty"`
	ErrLines     []string         `json:"err_lines"`
	Net          map[string]int64 `json:"net"`
	NetLevel     string           `json:"net_level"`
	Gen          []genInfo        `json:"gen,omitempty"`
}

// nHangBound is the simulated time after which a run without verdict counts as hung.
const nHangBound = 6 * time.Hour

// nHangDigest keeps what explains a hang: goroutines that are inside a panic or
// inside the runner's own packages (first frames only).
func nHangDigest(dump string) string {
	var keep []string
	for _, g := range strings.Split(dump, "\n\n") {
		if strings.Contains(g, "panic(") || strings.Contains(g, "internal/app/connectconformance.") {
			lines := strings.Split(g, "\n")
			if len(lines) > 24 {
				lines = lines[:24]
			}
			keep = append(keep, strings.Join(lines, "\n"))
		}
		if len(keep) >= 12 {
			break
		}
	}
	return strings.Join(keep, "\n\n")
}

type linePrinter struct {
	mu    sync.Mutex
	lines []string
	tick  *atomic.Int64
}

func (p *linePrinter) Printf(msg string, args ...any) {
	line := fmt.Sprintf(msg, args...)
	p.mu.Lock()
	p.lines = append(p.lines, line)
	p.mu.Unlock()
	p.tick.Add(1)
	if nDebug {
		if len(line) > 400 {
			line = line[:400]
		}
		fmt.Fprintf(os.Stderr, "[%s] %s\n", time.Now().Format("15:04:05.000"), line)
	}
}

func (p *linePrinter) PrefixPrintf(prefix, msg string, args ...any) {
	p.Printf(prefix+": "+msg, args...)
}

var nDebug = os.Getenv("VERIF_NDEBUG") != ""

var nFailedRE = regexp.MustCompile(`^FAILED: (\S.*?)(:$|:\n| was expected to fail)`)
var nInfoRE = regexp.MustCompile(`^INFO: (\S.*?) failed \(as expected\)`)

func nPeer(name string) verifImpl {
	switch name {
	case "referenceserver":
		return referenceserver.Run
	case "grpcserver":
		return grpcserver.Run
	case "referenceclient":
		return referenceclient.Run
	case "grpcclient":
		return grpcclient.Run
	}
	return nil
}

// TestVerifN runs one shard of an engine-N check: the real runner with the
// real peers in one process, over simnet and the bubble's fake clock.
func TestVerifN(t *testing.T) {
	js := os.Getenv("VERIF_NJOB")
	if js == "" {
		t.Skip("VERIF_NJOB not set")
	}
	var job nJob
	if err := json.Unmarshal([]byte(js), &job); err != nil {
		fmt.Fprintf(os.Stderr, "bad VERIF_NJOB: %v\n", err)
		os.Exit(2)
	}
	if job.Kind == "expand" {
		nExpand(&job)
		return
	}
	simnet.Configure(simnet.Config{Seed: job.Seed, MaxSegment: job.MaxSegment, SmallPermil: job.SmallPermil,
		MaxLatency:  time.Duration(job.MaxLatencyUs) * time.Microsecond,
		MinDatagram: time.Duration(job.DgramMinUs) * time.Microsecond, MaxDatagram: time.Duration(job.DgramMaxUs) * time.Microsecond})
	var tick atomic.Int64
	// wall-clock watchdog: a frozen simulation never produces a verdict
	go func() {
		last, lastChange := tick.Load(), time.Now()
		for {
			time.Sleep(2 * time.Second)
			if v := tick.Load(); v != last {
				last, lastChange = v, time.Now()
				continue
			}
			if time.Since(lastChange) > 120*time.Second {
				buf := make([]byte, 8<<20)
				n := runtime.Stack(buf, true)
				fmt.Fprintf(os.Stderr, "WATCHDOG: no simulated progress for 120s of wall time\n%s\n", buf[:n])
				os.Exit(2)
			}
		}
	}()
	wallStart := time.Now()
	var gen []genInfo
	if job.GenCases > 0 || len(job.GenTapes) > 0 {
		gen = nGenerate(&job)
	}
	synctest.Test(t, func(t *testing.T) {
		out := &nOut{Name: job.Name, NetLevel: simnet.Describe(), Gen: gen}
		logP := &linePrinter{tick: &tick}
		errP := &linePrinter{tick: &tick}
		simStart := time.Now()
		go func() {
			for {
				time.Sleep(50 * time.Millisecond)
				tick.Add(1)
				// simulated-time bound: a run whose simulated clock keeps advancing
				// but which never reaches its verdict (a crashed result goroutine
				// stuck in its deferred cleanup, a lost wake-up) is a hang of the
				// runner, not trouble of the machinery. No legal run of the
				// embedded or generated suites needs more than minutes.
				if time.Since(simStart) > nHangBound {
					buf := make([]byte, 1<<20)
					n := runtime.Stack(buf, true)
					out.Panic = fmt.Sprintf("HANG: the runner did not reach a verdict within %s of simulated time\n%s", nHangBound, nHangDigest(string(buf[:n])))
					out.SimSeconds = time.Since(simStart).Seconds()
					out.WallSeconds = time.Since(wallStart).Seconds()
					out.Net = map[string]int64{}
					data, _ := json.Marshal(out)
					if err := os.WriteFile(job.Out, data, 0o644); err != nil {
						fmt.Fprintf(os.Stderr, "write out: %v\n", err)
						os.Exit(2)
					}
					os.Exit(0)
				}
			}
		}()
		verifStarterHook = func(kind string, args []string) verifImpl {
			if kind != "cmd" {
				return nil
			}
			impl := nPeer(args[0])
			if impl == nil {
				return nil
			}
			return func(ctx context.Context, a []string, in io.ReadCloser, o, e io.WriteCloser) error {
				return impl(ctx, a, in, o, e)
			}
		}
		flags := &Flags{
			ConfigFile:           job.ConfigFile,
			KnownFailingPatterns: job.KnownFailing,
			RunPatterns:          job.RunPatterns,
			SkipPatterns:         job.SkipPatterns,
			TestFiles:            job.TestFiles,
			Verbose:              true,
			MaxServers:           job.MaxServers,
			Parallelism:          job.Parallelism,
			HTTPTrace:            job.Trace,
		}
		if job.Mode == "server" {
			flags.ServerCommand = []string{job.Peer}
		} else {
			flags.ClientCommand = []string{job.Peer}
		}
		func() {
			defer func() {
				if r := recover(); r != nil {
					buf := make([]byte, 1<<16)
					n := runtime.Stack(buf, false)
					out.Panic = fmt.Sprintf("%v\n%s", r, buf[:n])
				}
			}()
			ok, err := Run(flags, logP, errP)
			out.OK = ok
			if err != nil {
				out.Err = err.Error()
			}
		}()
		out.SimSeconds = time.Since(simStart).Seconds()
		out.WallSeconds = time.Since(wallStart).Seconds()
		logP.mu.Lock()
		for _, l := range logP.lines {
			if m := nFailedRE.FindStringSubmatch(l); m != nil {
				out.FailedNames = append(out.FailedNames, m[1])
				if len(out.Unexpected) < 1000 {
					if len(l) > 700 {
						l = l[:700]
					}
					out.Unexpected = append(out.Unexpected, l)
				}
			} else if m := nInfoRE.FindStringSubmatch(l); m != nil {
				out.InfoNames = append(out.InfoNames, m[1])
			}
			var a, b, c int
			if n, _ := fmt.Sscanf(l, "Total cases: %d\n%d passed, %d failed", &a, &b, &c); n == 3 {
				out.Total, out.Passed, out.Failed = a, b, c
			}
			if n, _ := fmt.Sscanf(l, "Another %d could not be run", &a); n == 1 {
				out.CouldNotRun = a
			}
			if n, _ := fmt.Sscanf(l, "(Another %d failed as expected", &a); n == 1 {
				out.ExpFailed = a
			}
			if n, _ := fmt.Sscanf(l, "Computed %d test case permutation(s)", &a); n == 1 {
				out.Permutations = a
			}
		}
		logP.mu.Unlock()
		errP.mu.Lock()
		for _, l := range errP.lines {
			if len(out.ErrLines) < 30 {
				out.ErrLines = append(out.ErrLines, l)
			}
		}
		errP.mu.Unlock()
		out.Net = map[string]int64{
			"connections": simnet.Stats.Conns.Load(), "listens": simnet.Stats.Listens.Load(), "refused": simnet.Stats.Refused.Load(),
			"segments": simnet.Stats.Segments.Load(), "bytes": simnet.Stats.Bytes.Load(), "delayed_segments": simnet.Stats.DelayedSegs.Load(),
			"small_segments": simnet.Stats.SmallSegments.Load(), "datagrams": simnet.Stats.Datagrams.Load(), "dropped_datagrams": simnet.Stats.DroppedDatagrams.Load(),
		}
		sort.Strings(out.FailedNames)
		data, _ := json.Marshal(out)
		if err := os.WriteFile(job.Out, data, 0o644); err != nil {
			fmt.Fprintf(os.Stderr, "write out: %v\n", err)
			os.Exit(2)
		}
		// leaked goroutines (idle connections, unclosed client conns) would keep
		// the bubble from ending: the verdict is on disk, leave now
		os.Exit(0)
	})
}

// nGenerate draws the job's test cases, checks that each one loads on its own
// (a panic is a violation, an error a legal rejection) and writes a suite file
// with the loadable ones.
func nGenerate(job *nJob) []genInfo {
	// next to the shard's result file (the per-check work directory is wiped by every build)
	dir, err := os.MkdirTemp(filepath.Dir(job.Out), "verif-gen-")
	if err != nil {
		fmt.Fprintln(os.Stderr, err)
		os.Exit(2)
	}
	cfgData, err := os.ReadFile(job.ConfigFile)
	if err != nil {
		fmt.Fprintln(os.Stderr, err)
		os.Exit(2)
	}
	configCases, err := parseConfig(job.ConfigFile, cfgData)
	if err != nil {
		fmt.Fprintln(os.Stderr, err)
		os.Exit(2)
	}
	mode := conformancev1.TestSuite_TEST_MODE_SERVER
	if job.Mode == "client" {
		mode = conformancev1.TestSuite_TEST_MODE_CLIENT
	}
	n := job.GenCases
	if len(job.GenTapes) > 0 {
		n = len(job.GenTapes)
	}
	var infos []genInfo
	var cases []*conformancev1.TestCase
	for i := 0; i < n; i++ {
		var tp *simrt.Tape
		if len(job.GenTapes) > 0 {
			tp = simrt.ReplayTape(job.GenTapes[i])
		} else {
			tp = simrt.NewTape(simrt.DeriveSeed(job.GenSeed, 0, i))
		}
		name := fmt.Sprintf("g%d", i)
		var tc *conformancev1.TestCase
		var info genInfo
		if job.GenKind == "size" {
			var si *sizeCaseInfo
			tc, si = genSizeCase(tp, name, job.GenThorough)
			info = genInfo{Name: name, Stream: tc.Request.StreamType.String(), NReq: len(tc.Request.RequestMessages), Size: si}
			info.Load, info.Check = sizeLoadCheck(dir, tc, si)
			info.Tape = tp.Values()
		} else {
			tc = genCase(tp, name, job.GenThorough)
			degenerate := ""
			if tp.Bool(1, 10, "degenerate") {
				// a parseable but malformed definition: only loaded (it must be
				// rejected with an error or accepted, never crash), never run
				degenerate = genDegenerate(tp, tc)
			}
			info = genInfo{Name: name, Tape: tp.Values(), Stream: tc.GetRequest().GetStreamType().String(), NReq: len(tc.GetRequest().GetRequestMessages())}
			info.Load = genLoadCheck(dir, tc, configCases, mode)
			if degenerate != "" {
				info.Shape = "degenerate: " + degenerate
				if info.Load == "ok" {
					info.Load = "ok (load-only)"
				}
			} else {
				info.Shape = genShape(tc)
			}
		}
		if def, err := protojson.Marshal(tc); err == nil && (len(def) < 6000 || info.Load != "ok") {
			info.Def = string(def)
			if len(info.Def) > 20000 {
				info.Def = info.Def[:20000]
			}
		}
		infos = append(infos, info)
		if info.Load == "ok" {
			cases = append(cases, tc)
		}
	}
	if len(cases) == 0 {
		// nothing loadable: give the runner a trivial case so that the run is well defined
		tc := genCase(simrt.ReplayTape(nil), "g-empty", false)
		cases = append(cases, tc)
	}
	var path string
	if job.GenKind == "size" {
		path, err = genSuiteFileFor(dir, &conformancev1.TestSuite{Name: "Gen", Mode: mode, ReliesOnMessageReceiveLimit: true,
			RelevantCodecs: []conformancev1.Codec{conformancev1.Codec_CODEC_PROTO}, TestCases: cases})
	} else {
		path, err = genSuiteFile(dir, "Gen", cases)
	}
	if err != nil {
		fmt.Fprintln(os.Stderr, err)
		os.Exit(2)
	}
	job.TestFiles = []string{path}
	return infos
}

// nExpand writes the permutation names of a config (dry expansion) so that the
// driver can prove that its shards partition the unsharded run.
func nExpand(job *nJob) {
	data, err := os.ReadFile(job.ConfigFile)
	if err != nil {
		fmt.Fprintln(os.Stderr, err)
		os.Exit(2)
	}
	configCases, err := parseConfig(job.ConfigFile, data)
	if err != nil {
		fmt.Fprintln(os.Stderr, err)
		os.Exit(2)
	}
	suiteData, err := loadSuites(job.TestFiles)
	if err != nil {
		fmt.Fprintln(os.Stderr, err)
		os.Exit(2)
	}
	suites, err := parseTestSuites(suiteData)
	if err != nil {
		fmt.Fprintln(os.Stderr, err)
		os.Exit(2)
	}
	mode := conformancev1.TestSuite_TEST_MODE_SERVER
	if job.Mode == "client" {
		mode = conformancev1.TestSuite_TEST_MODE_CLIENT
	}
	lib, err := newTestCaseLibrary(suites, configCases, mode)
	if err != nil {
		fmt.Fprintln(os.Stderr, err)
		os.Exit(2)
	}
	out := &nOut{Name: job.Name}
	for _, tc := range lib.allPermutations(job.Mode == "server", job.Mode == "client") {
		out.Names = append(out.Names, tc.Request.TestName)
	}
	sort.Strings(out.Names)
	out.Permutations = len(out.Names)
	b, _ := json.Marshal(out)
	if err := os.WriteFile(job.Out, b, 0o644); err != nil {
		fmt.Fprintln(os.Stderr, err)
		os.Exit(2)
	}
	_ = strings.TrimSpace
}
