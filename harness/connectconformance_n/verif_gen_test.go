//go:build verif

package connectconformance

import (
	"fmt"
	"os"
	"path/filepath"
	"strings"

	conformancev1 "connectrpc.com/conformance/internal/gen/proto/go/connectrpc/conformance/v1"
	"connectrpc.com/conformance/internal/verifsim/simrt"
	"google.golang.org/protobuf/encoding/protojson"
	"google.golang.org/protobuf/proto"
	"google.golang.org/protobuf/types/known/anypb"
)

// Generator of well-formed test cases in the deterministic fragment of the
// suite schema (C02): no delays, timeouts, cancellation, raw payloads or
// size directives; header names outside the protocol-reserved set.

var genHeaderNames = []string{"x-custom-hdr", "X-Mixed-Case", "x-rep", "x-data-bin", "X-Other-Bin"}

func genHeaders(tp *simrt.Tape, prefix string) []*conformancev1.Header {
	n := tp.Choose(4, "hdr.n")
	var hs []*conformancev1.Header
	for i := 0; i < n; i++ {
		name := genHeaderNames[tp.Choose(len(genHeaderNames), "hdr.name")]
		nv := 1 + tp.Choose(2, "hdr.nvals")
		var vals []string
		for j := 0; j < nv; j++ {
			if strings.HasSuffix(strings.ToLower(name), "-bin") {
				// canonical unpadded base64 of 1-6 bytes
				vals = append(vals, []string{"AQ", "AQI", "AQID", "/+8AAQ", "aGVsbG8", "AAAAAAAA"}[tp.Choose(6, "hdr.bin")])
			} else {
				vals = append(vals, []string{prefix + "v1", "Value Two", "a,b", "x=y; z", "", "  spaced  "}[tp.Choose(4, "hdr.val")])
			}
		}
		// one entry per name (the corpus writes repeated values as one entry
		// with several values; two entries with the same name are outside the
		// fragment the expectation generator is specified for)
		merged := false
		for _, h := range hs {
			if strings.EqualFold(h.Name, name) {
				h.Value = append(h.Value, vals...)
				merged = true
			}
		}
		if !merged {
			hs = append(hs, &conformancev1.Header{Name: name, Value: vals})
		}
	}
	return hs
}

func genBytes(tp *simrt.Tape, big bool) []byte {
	switch tp.Choose(6, "data.kind") {
	case 0:
		return nil
	case 1:
		return []byte("dGVzdA")
	case 2:
		return []byte{0, 0xff, 0x80, 0x7f, 0}
	case 3:
		b := make([]byte, 1+tp.Choose(64, "data.len"))
		for i := range b {
			b[i] = byte(i*7 + len(b))
		}
		return b
	case 4:
		n := 4096
		if big {
			n = 64 * 1024
		}
		b := make([]byte, n)
		for i := range b {
			b[i] = byte(i * 131)
		}
		return b
	}
	return []byte("plain text payload")
}

func genError(tp *simrt.Tape) *conformancev1.Error {
	e := &conformancev1.Error{Code: conformancev1.Code(1 + tp.Choose(16, "err.code"))}
	kind := tp.Choose(8, "err.msg")
	if kind == 7 {
		kind = 4 // the messages that need percent-encoding get three of eight draws
	}
	switch kind {
	case 0:
		// message absent
	case 1:
		e.Message = proto.String("")
	case 2:
		e.Message = proto.String("plain message")
	case 3:
		e.Message = proto.String("héllo wörld ✓ 你好")
	case 4:
		// messages that need (or look like) the percent-encoding of grpc-message,
		// several specials at once or exactly one kind of special character
		msgs := []string{"100% broken: a\tb\nc & d + e", "quota is 100% used", "%", "100%", "already %2F escaped", "50%25 literal",
			"tab\there", "line\nbreak", "ünï only", "plus+and&amp", "ends with percent %", "%41 at the start"}
		e.Message = proto.String(msgs[tp.Choose(len(msgs), "err.special")])
	case 6:
		// the edges of the printable range: '~' is the last byte sent as is, DEL and
		// the C0 controls are escaped
		msgs := []string{"del\x7fchar", "tilde ~ then del \x7f", "unit\x1fseparator", "\x7f", "space !first and ~last printable", "~\x7f\u0080"}
		e.Message = proto.String(msgs[tp.Choose(len(msgs), "err.edge")])
	case 5:
		if tp.Bool(1, 4, "err.trailingspace") {
			e.Message = proto.String("trailing space ")
		} else {
			e.Message = proto.String(strings.TrimSpace(strings.Repeat("long ", 60)))
		}
	}
	nd := tp.Choose(4, "err.ndetails")
	for i := 0; i < nd; i++ {
		var m proto.Message
		switch tp.Choose(4, "err.detail") {
		case 3:
			// a large detail: the end-of-stream message spans several reads / HTTP chunks
			m = &conformancev1.Header{Name: fmt.Sprintf("big-detail-%d", i), Value: []string{strings.Repeat("0123456789", 200+tp.Choose(600, "err.detail.big"))}}
		case 0:
			m = &conformancev1.Header{Name: fmt.Sprintf("detail-%d", i), Value: []string{"a", "b"}}
		case 1:
			m = &conformancev1.ConformancePayload_RequestInfo{RequestHeaders: []*conformancev1.Header{{Name: "x-in-detail", Value: []string{"v"}}}}
		case 2:
			m = &conformancev1.Error{Code: conformancev1.Code_CODE_ABORTED, Message: proto.String("nested")}
		}
		a, err := anypb.New(m)
		if err == nil {
			e.Details = append(e.Details, a)
		}
	}
	return e
}

// genCase draws one test case from the tape.
func genCase(tp *simrt.Tape, name string, thorough bool) *conformancev1.TestCase {
	maxMsgs := 4
	if thorough {
		maxMsgs = 8
	}
	st := []conformancev1.StreamType{
		conformancev1.StreamType_STREAM_TYPE_UNARY,
		conformancev1.StreamType_STREAM_TYPE_CLIENT_STREAM,
		conformancev1.StreamType_STREAM_TYPE_SERVER_STREAM,
		conformancev1.StreamType_STREAM_TYPE_HALF_DUPLEX_BIDI_STREAM,
		conformancev1.StreamType_STREAM_TYPE_FULL_DUPLEX_BIDI_STREAM,
	}[tp.Choose(5, "streamtype")]
	tc := &conformancev1.TestCase{Request: &conformancev1.ClientCompatRequest{TestName: name, StreamType: st}}
	tc.Request.RequestHeaders = genHeaders(tp, "req-")
	unaryDef := func() *conformancev1.UnaryResponseDefinition {
		if tp.Bool(1, 8, "nodef") {
			return nil
		}
		d := &conformancev1.UnaryResponseDefinition{ResponseHeaders: genHeaders(tp, "rh-"), ResponseTrailers: genHeaders(tp, "rt-")}
		switch tp.Choose(4, "unary.resp") {
		case 0, 1:
			d.Response = &conformancev1.UnaryResponseDefinition_ResponseData{ResponseData: genBytes(tp, thorough)}
		case 2:
			d.Response = &conformancev1.UnaryResponseDefinition_Error{Error: genError(tp)}
		case 3:
			// neither data nor error
		}
		return d
	}
	streamDef := func() *conformancev1.StreamResponseDefinition {
		if tp.Bool(1, 8, "nodef") {
			return nil
		}
		d := &conformancev1.StreamResponseDefinition{ResponseHeaders: genHeaders(tp, "rh-"), ResponseTrailers: genHeaders(tp, "rt-")}
		n := tp.Choose(maxMsgs+1, "stream.nresp")
		for i := 0; i < n; i++ {
			d.ResponseData = append(d.ResponseData, genBytes(tp, false))
		}
		if tp.Bool(1, 3, "stream.err") {
			d.Error = genError(tp)
		}
		return d
	}
	add := func(m proto.Message) {
		a, err := anypb.New(m)
		if err == nil {
			tc.Request.RequestMessages = append(tc.Request.RequestMessages, a)
		}
	}
	switch st {
	case conformancev1.StreamType_STREAM_TYPE_UNARY:
		add(&conformancev1.UnaryRequest{ResponseDefinition: unaryDef(), RequestData: genBytes(tp, thorough)})
	case conformancev1.StreamType_STREAM_TYPE_CLIENT_STREAM:
		n := tp.Choose(maxMsgs+1, "nreq")
		for i := 0; i < n; i++ {
			r := &conformancev1.ClientStreamRequest{RequestData: genBytes(tp, false)}
			if i == 0 {
				r.ResponseDefinition = unaryDef()
			} else if tp.Bool(1, 4, "laterdef") {
				// only the first message's definition counts; later ones must be ignored
				r.ResponseDefinition = unaryDef()
			}
			add(r)
		}
	case conformancev1.StreamType_STREAM_TYPE_SERVER_STREAM:
		add(&conformancev1.ServerStreamRequest{ResponseDefinition: streamDef(), RequestData: genBytes(tp, thorough)})
	default:
		n := tp.Choose(maxMsgs+1, "nreq")
		for i := 0; i < n; i++ {
			r := &conformancev1.BidiStreamRequest{RequestData: genBytes(tp, false), FullDuplex: st == conformancev1.StreamType_STREAM_TYPE_FULL_DUPLEX_BIDI_STREAM}
			if i == 0 {
				r.ResponseDefinition = streamDef()
			} else if tp.Bool(1, 4, "laterdef") {
				r.ResponseDefinition = streamDef()
			}
			add(r)
		}
	}
	return tc
}

// genSuiteFile writes a suite with the given cases and returns its path.
func genSuiteFile(dir, name string, cases []*conformancev1.TestCase) (string, error) {
	suite := &conformancev1.TestSuite{Name: name, TestCases: cases}
	data, err := protojson.MarshalOptions{Multiline: true}.Marshal(suite)
	if err != nil {
		return "", err
	}
	path := filepath.Join(dir, name+".yaml")
	return path, os.WriteFile(path, yamlSafe(data), 0o644)
}

// yamlSafe makes protojson output loadable as YAML: protojson leaves DEL and the
// C1 controls as they are, which YAML does not allow unescaped. They only occur
// inside (double-quoted) strings, where both JSON and YAML read \uXXXX.
func yamlSafe(data []byte) []byte {
	out := make([]byte, 0, len(data))
	for i := 0; i < len(data); i++ {
		switch {
		case data[i] == 0x7f:
			out = append(out, `\u007f`...)
		case data[i] == 0xc2 && i+1 < len(data) && data[i+1] >= 0x80 && data[i+1] <= 0x9f && data[i+1] != 0x85:
			out = append(out, fmt.Sprintf(`\u%04x`, data[i+1])...)
			i++
		default:
			out = append(out, data[i])
		}
	}
	return out
}

// genSuiteFileFor writes an arbitrary suite message.
func genSuiteFileFor(dir string, suite *conformancev1.TestSuite) (string, error) {
	data, err := protojson.MarshalOptions{Multiline: true}.Marshal(suite)
	if err != nil {
		return "", err
	}
	path := filepath.Join(dir, strings.ReplaceAll(suite.Name, " ", "_")+".yaml")
	return path, os.WriteFile(path, yamlSafe(data), 0o644)
}

// genLoadCheck loads one case on its own through the real loading pipeline and
// reports "ok", "rejected: ..." (a legal refusal) or "panic: ...".
func genLoadCheck(dir string, tc *conformancev1.TestCase, configCases []configCase, mode conformancev1.TestSuite_TestMode) (verdict string) {
	defer func() {
		if r := recover(); r != nil {
			verdict = fmt.Sprintf("panic: %v", r)
		}
	}()
	path, err := genSuiteFile(dir, "LoadCheck", []*conformancev1.TestCase{proto.Clone(tc).(*conformancev1.TestCase)})
	if err != nil {
		return "rejected: " + err.Error()
	}
	data, err := os.ReadFile(path)
	if err != nil {
		return "rejected: " + err.Error()
	}
	suites, err := parseTestSuites(map[string][]byte{path: data})
	if err != nil {
		return "rejected: " + err.Error()
	}
	if _, err := newTestCaseLibrary(suites, configCases, mode); err != nil {
		return "rejected: " + err.Error()
	}
	return "ok"
}

// genShape derives a few tags from a generated case (which response
// definition shape it has); they appear in the failure detail so that a
// known-finding signature can name the failing input shape precisely.
func genShape(tc *conformancev1.TestCase) string {
	var hdrs, trls []*conformancev1.Header
	responses, hasErr, found := 0, false, false
	for _, a := range tc.Request.RequestMessages {
		m, err := a.UnmarshalNew()
		if err != nil {
			continue
		}
		switch r := m.(type) {
		case *conformancev1.UnaryRequest:
			if d := r.ResponseDefinition; d != nil && !found {
				found = true
				hdrs, trls = d.ResponseHeaders, d.ResponseTrailers
				if d.GetError() != nil {
					hasErr = true
				} else {
					responses = 1
				}
			}
		case *conformancev1.IdempotentUnaryRequest:
			if d := r.ResponseDefinition; d != nil && !found {
				found = true
				hdrs, trls = d.ResponseHeaders, d.ResponseTrailers
				if d.GetError() != nil {
					hasErr = true
				} else {
					responses = 1
				}
			}
		case *conformancev1.ClientStreamRequest:
			if d := r.ResponseDefinition; d != nil && !found {
				found = true
				hdrs, trls = d.ResponseHeaders, d.ResponseTrailers
				if d.GetError() != nil {
					hasErr = true
				} else {
					responses = 1
				}
			}
		case *conformancev1.ServerStreamRequest:
			if d := r.ResponseDefinition; d != nil && !found {
				found = true
				hdrs, trls, responses, hasErr = d.ResponseHeaders, d.ResponseTrailers, len(d.ResponseData), d.Error != nil
			}
		case *conformancev1.BidiStreamRequest:
			if d := r.ResponseDefinition; d != nil && !found {
				found = true
				hdrs, trls, responses, hasErr = d.ResponseHeaders, d.ResponseTrailers, len(d.ResponseData), d.Error != nil
			}
		}
	}
	tags := []string{fmt.Sprintf("response-messages=%d", responses)}
	if hasErr {
		tags = append(tags, "with-error")
	} else {
		tags = append(tags, "without-error")
	}
	same := false
	for _, h := range hdrs {
		for _, t := range trls {
			if strings.EqualFold(h.Name, t.Name) {
				same = true
			}
		}
	}
	if same {
		tags = append(tags, "same-name-in-response-headers-and-trailers")
	}
	if !found {
		tags = append(tags, "no-response-definition")
	}
	return strings.Join(tags, " ")
}

// genDegenerate turns a well-formed generated case into a parseable but
// malformed one and returns what was done. Such a case is only loaded.
func genDegenerate(tp *simrt.Tape, tc *conformancev1.TestCase) string {
	switch tp.Choose(9, "degenerate.kind") {
	case 0:
		tc.Request = nil
		return "test case without request"
	case 1:
		tc.Request.TestName = ""
		return "empty test name"
	case 2:
		tc.Request.RequestMessages = append(tc.Request.RequestMessages, &anypb.Any{TypeUrl: "type.googleapis.com/does.not.Exist", Value: []byte{1, 2, 3}})
		return "request message of an unknown type"
	case 3:
		a, _ := anypb.New(&conformancev1.UnaryRequest{})
		if tc.Request.StreamType == conformancev1.StreamType_STREAM_TYPE_UNARY {
			a, _ = anypb.New(&conformancev1.BidiStreamRequest{})
		}
		tc.Request.RequestMessages = []*anypb.Any{a}
		return "request message type does not fit the stream type"
	case 4:
		tc.Request.StreamType = conformancev1.StreamType_STREAM_TYPE_UNSPECIFIED
		return "stream type unspecified"
	case 5:
		if len(tc.Request.RequestMessages) > 0 {
			tc.Request.RequestMessages[0].Value = []byte{0xff, 0xff, 0xff, 0x0f, 0x01}
		}
		return "request message with undecodable bytes"
	case 6:
		for i := 0; i <= len(tc.Request.RequestMessages); i++ {
			tc.ExpandRequests = append(tc.ExpandRequests, &conformancev1.TestCase_ExpandedSize{SizeRelativeToLimit: proto.Int32(0)})
		}
		return "more expand directives than request messages"
	case 7:
		tc.Request.RequestMessages = nil
		tc.ExpandRequests = []*conformancev1.TestCase_ExpandedSize{{}}
		return "no request messages but an expand directive"
	default:
		tc.Request.RequestMessages = append(tc.Request.RequestMessages, nil)
		return "nil request message"
	}
}
