//go:build verif

package tracer

import (
	"os"
	"bytes"
	"context"
	"errors"
	"fmt"
	"io"
	"net/http"
	"sort"
	"strings"
	"testing"
	"time"

	"connectrpc.com/conformance/internal/verifsim/simio"
	"connectrpc.com/conformance/internal/verifsim/simrt"
	"connectrpc.com/conformance/internal/verifsim/simwork"
)

func init() {
	verifScenarios["c16-slots"] = c16SlotsRun
	verifScenarios["c16-builder"] = c16BuilderRun
}

// ---------------------------------------------------------------------------
// Part A: the slot map (Init / Complete / Await / Clear)

type c16Op struct {
	Task      int    `json:"task"`
	Kind      string `json:"op"`
	Name      string `json:"name"`
	ID        int    `json:"trace_id,omitempty"`
	TimeoutMs int    `json:"timeout_ms,omitempty"`
	PauseMs   int    `json:"pause_before_ms,omitempty"`

	callStep, retStep int
	callAt, retAt     time.Duration
	lockStep          int
	lockAt            time.Duration
	gotID             int
	gotErr            error
	returned          bool
}

type c16SlotCase struct {
	Tasks [][]*c16Op `json:"tasks"`
}

func traceID(tr *Trace) int {
	var id int
	if tr != nil && tr.Err != nil {
		_, _ = fmt.Sscanf(tr.Err.Error(), "trace-%d", &id)
	}
	return id
}

func c16SlotsRun(t *testing.T, tape *simrt.Tape, o simwork.Opts) *simwork.Result {
	res := &simwork.Result{Faults: map[string]int{}, Probes: map[string]int{}}
	p := simwork.Bubble(t, func(t *testing.T) { c16SlotsBody(tape, o, res) })
	if p != nil {
		res.Violations = append(res.Violations, simwork.Violation{Class: "panic-outside-task", Detail: fmt.Sprint(p)})
	}
	return res
}

func c16SlotsBody(tape *simrt.Tape, o simwork.Opts, res *simwork.Result) {
	cs := &c16SlotCase{}
	res.Sample = cs
	maxTasks, maxOps := 3, 3
	if o.Tier == "thorough" {
		maxTasks, maxOps = 5, 4
	}
	nTasks := tape.Range(2, maxTasks, "ntasks")
	names := []string{"a", "b", "c"}[:tape.Range(1, 3, "nnames")]
	id := 0
	for ti := 0; ti < nTasks; ti++ {
		n := tape.Range(1, maxOps, "nops")
		var ops []*c16Op
		for i := 0; i < n; i++ {
			op := &c16Op{Task: ti, Name: names[tape.Choose(len(names), "name")]}
			k := tape.Choose(8, "op")
			if ti == 0 && i == 0 && tape.Bool(3, 4, "init-first") {
				k = 0 // most histories start with an initialised slot
			}
			switch k {
			case 0, 1:
				op.Kind = "Init"
			case 2, 3:
				op.Kind = "Complete"
				id++
				op.ID = id
			case 4, 5, 6:
				op.Kind = "Await"
				op.TimeoutMs = []int{1, 10, 10, 1000, 5000}[tape.Choose(5, "timeout")]
			case 7:
				op.Kind = "Clear"
			}
			op.PauseMs = []int{0, 0, 0, 1, 10, 1000}[tape.Choose(6, "pause")]
			ops = append(ops, op)
		}
		cs.Tasks = append(cs.Tasks, ops)
	}
	sim := simrt.New(tape)
	defer sim.Detach()
	sim.KeepLog = o.KeepLog
	sim.KeepSteps = true
	sim.Settle = 10 * time.Second
	tr := &Tracer{}
	doneTasks := 0
	taskIDs := make([]int, nTasks)
	sim.Goal = func() bool { return doneTasks == nTasks }
	for ti := range cs.Tasks {
		ops := cs.Tasks[ti]
		simrt.Go("c16.worker", func() {
			taskIDs[ti] = sim.TaskID()
			for _, op := range ops {
				if op.PauseMs > 0 {
					simrt.Sleep(time.Duration(op.PauseMs)*time.Millisecond, "c16.pause")
				}
				simrt.Yield("c16.op")
				op.callStep, op.callAt = sim.Steps(), sim.Elapsed()
				switch op.Kind {
				case "Init":
					tr.Init(op.Name)
				case "Complete":
					tr.Complete(Trace{TestName: op.Name, Err: fmt.Errorf("trace-%d", op.ID)})
				case "Clear":
					tr.Clear(op.Name)
				case "Await":
					ctx, cancel := context.WithTimeout(context.Background(), time.Duration(op.TimeoutMs)*time.Millisecond)
					got, err := tr.Await(ctx, op.Name)
					cancel()
					op.gotID, op.gotErr = traceID(got), err
				}
				op.retStep, op.retAt = sim.Steps(), sim.Elapsed()
				op.returned = true
				sim.MixLog(op.Kind + op.Name)
			}
			doneTasks++
		})
	}
	end := sim.Run()
	res.Steps, res.Switches, res.Preempts = sim.Steps(), sim.Switches(), sim.Preempts()
	res.SimTime = sim.Elapsed()
	res.LogHash = sim.LogHash()
	res.End = end.String()
	res.Invalid = append(res.Invalid, sim.Invalid()...)
	res.Log = sim.Log()
	res.Nontrivial = sim.Preempts() > 0
	viol := func(class, format string, args ...any) {
		res.Violations = append(res.Violations, simwork.Violation{Class: class, Detail: fmt.Sprintf(format, args...)})
	}
	for _, p := range sim.Panics() {
		viol("c16/panic", "%s", p)
	}
	if doneTasks != nTasks {
		viol("c16/hang", "%d of %d worker tasks finished (end=%s); tasks: %s", doneTasks, nTasks, end, strings.Join(sim.EndSites(), "; "))
		return
	}
	// linearization point of each operation = the step at which its task was
	// released at a lock acquisition site within the operation's interval
	var all []*c16Op
	for ti, ops := range cs.Tasks {
		for _, op := range ops {
			n := 0
			for _, sr := range sim.StepRecs {
				if sr.Task == taskIDs[ti] && sr.Lock && sr.Step > op.callStep && sr.Step <= op.retStep {
					if n == 0 {
						op.lockStep, op.lockAt = sr.Step, sr.At
					}
					n++
				}
			}
			if n == 0 {
				res.Invalid = append(res.Invalid, fmt.Sprintf("operation %s has no lock acquisition: linearization point not identifiable", op.Kind))
				return
			}
			if n > 1 {
				// the first critical section is the operation's observation of the slot
				res.Probes["operation-with-several-critical-sections"]++
			}
			all = append(all, op)
		}
	}
	sort.Slice(all, func(i, j int) bool { return all[i].lockStep < all[j].lockStep })
	// sequential reference model
	type slot struct {
		present bool
		gen     int
		done    bool
		id      int
	}
	slots := map[string]*slot{}
	gen := 0
	type waiter struct {
		op       *c16Op
		gen      int
		deadline time.Duration
		resolved bool
		wantID   int
		wantAt   time.Duration
		tie      bool
		regen    bool // the slot was cleared or re-initialised while waiting
		lateIDs  []int
	}
	var waiters []*waiter
	for _, op := range all {
		s := slots[op.Name]
		if s == nil {
			s = &slot{}
			slots[op.Name] = s
		}
		switch op.Kind {
		case "Init":
			gen++
			for _, w := range waiters {
				if !w.resolved && w.op.Name == op.Name {
					w.regen = true
				}
			}
			*s = slot{present: true, gen: gen}
		case "Clear":
			for _, w := range waiters {
				if !w.resolved && w.op.Name == op.Name {
					w.regen = true
				}
			}
			*s = slot{}
		case "Complete":
			if s.present && !s.done {
				s.done, s.id = true, op.ID
				for _, w := range waiters {
					if w.resolved || w.op.Name != op.Name {
						continue
					}
					if w.gen == s.gen {
						switch {
						case op.lockAt < w.deadline:
							w.resolved, w.wantID, w.wantAt = true, op.ID, op.lockAt
						case op.lockAt == w.deadline:
							w.resolved, w.wantID, w.wantAt, w.tie = true, op.ID, op.lockAt, true
						}
					} else if op.lockAt <= w.deadline {
						w.lateIDs = append(w.lateIDs, op.ID)
					}
				}
			} else {
				res.Probes["complete-without-effect"]++
			}
		case "Await":
			deadline := op.callAt + time.Duration(op.TimeoutMs)*time.Millisecond
			switch {
			case !s.present:
				res.Probes["await-absent"]++
				if op.gotErr == nil || errors.Is(op.gotErr, context.DeadlineExceeded) {
					viol("c16/await-absent", "Await(%q) on a cleared or never initialised slot returned (id=%d, err=%v), want an immediate error", op.Name, op.gotID, op.gotErr)
				}
				if op.retAt != op.callAt {
					viol("c16/await-absent", "Await(%q) on a cleared or never initialised slot took %s", op.Name, op.retAt-op.callAt)
				}
			case s.done:
				res.Probes["await-after-completion"]++
				if op.gotErr != nil || op.gotID != s.id {
					viol("c16/await-done", "Await(%q) after completion returned (id=%d, err=%v), the first completed trace is %d", op.Name, op.gotID, op.gotErr, s.id)
				}
				if op.retAt != op.callAt {
					viol("c16/await-done", "Await(%q) of a completed slot took %s", op.Name, op.retAt-op.callAt)
				}
			default:
				res.Probes["await-before-completion"]++
				waiters = append(waiters, &waiter{op: op, gen: s.gen, deadline: deadline})
			}
		}
	}
	for _, w := range waiters {
		op := w.op
		timedOut := errors.Is(op.gotErr, context.DeadlineExceeded)
		if op.retAt > w.deadline {
			viol("c16/wait-outlives-context", "Await(%q) with a %d ms timeout returned %s after it was called", op.Name, op.TimeoutMs, op.retAt-op.callAt)
		}
		switch {
		case w.resolved && w.tie:
			if !(timedOut || (op.gotErr == nil && op.gotID == w.wantID)) {
				viol("c16/await-wrong-trace", "Await(%q): completion %d coincided with the deadline; got (id=%d, err=%v)", op.Name, w.wantID, op.gotID, op.gotErr)
			}
		case w.resolved:
			if op.gotErr != nil || op.gotID != w.wantID {
				viol("c16/await-wrong-trace", "Await(%q) began before completion; the first trace completed for its slot is %d (at %s, deadline %s), got (id=%d, err=%v)", op.Name, w.wantID, w.wantAt, w.deadline, op.gotID, op.gotErr)
			} else if op.retAt != w.wantAt {
				viol("c16/await-late", "Await(%q) returned at %s, its trace was completed at %s", op.Name, op.retAt, w.wantAt)
			}
		case w.regen:
			// slot cleared / re-initialised while waiting: the statement does not
			// decide whether a later completion reaches this waiter
			res.Probes["waiter-across-reinit"]++
			ok := timedOut
			for _, id := range w.lateIDs {
				if op.gotErr == nil && op.gotID == id {
					ok = true
				}
			}
			if !ok {
				viol("c16/await-wrong-trace", "Await(%q) across a re-initialisation returned (id=%d, err=%v); later completions: %v", op.Name, op.gotID, op.gotErr, w.lateIDs)
			}
		default:
			res.Probes["await-timeout"]++
			if !timedOut {
				viol("c16/await-phantom", "Await(%q): nothing was completed for its slot before the deadline, but it returned (id=%d, err=%v)", op.Name, op.gotID, op.gotErr)
			} else if op.retAt != w.deadline {
				viol("c16/await-timeout-instant", "Await(%q) timed out at %s, deadline %s", op.Name, op.retAt, w.deadline)
			}
		}
	}
	res.Cover = append(res.Cover, fmt.Sprintf("tasks=%d ops=%d waiters=%d", nTasks, len(all), len(waiters)))
}

// ---------------------------------------------------------------------------
// Part B: one traced HTTP operation, events from concurrent tasks

type c16BuilderCase struct {
	Side              string `json:"side"`
	Named             bool   `json:"named"`
	ReqBody           int    `json:"request_body_bytes"`
	ReqEnd            string `json:"request_body_end"`
	RespBody          int    `json:"response_body_bytes"`
	RespEnd           string `json:"response_body_end"`
	TransportErr      bool   `json:"transport_error"`
	CancelAtUs        int    `json:"cancel_at_us"` // -1: never
	AppClose          int    `json:"app_close_after_reads"`
	RespDelayUs       int    `json:"response_after_us"`
	ConcurrentReqBody bool   `json:"request_body_read_concurrently"`
	TransportErrKind int  `json:"transport_error_kind"` // 0 plain, 1 wraps context.DeadlineExceeded, 2 wraps context.Canceled, 3 os.ErrDeadlineExceeded
	LongStream       bool `json:"long_stream"`
	NameTwice        bool `json:"test_name_header_sent_twice,omitempty"`
	NoBody           bool `json:"response_body_is_http_NoBody,omitempty"`
}

type completion struct {
	n      int
	events []Event
	snap   []string
	trace  Trace
	atStep int
}

type copySink struct {
	sim   *simrt.Sim
	calls []*completion
}

func evString(e Event) string {
	switch x := e.(type) {
	case *RequestStart:
		return "RequestStart"
	case *RequestBodyData:
		return fmt.Sprintf("RequestBodyData{%d,%d}", x.MessageIndex, x.Len)
	case *RequestBodyEnd:
		return fmt.Sprintf("RequestBodyEnd{%v}", x.Err)
	case *ResponseStart:
		return "ResponseStart"
	case *ResponseError:
		return fmt.Sprintf("ResponseError{%v}", x.Err)
	case *ResponseBodyData:
		return fmt.Sprintf("ResponseBodyData{%d,%d}", x.MessageIndex, x.Len)
	case *ResponseBodyEndStream:
		return "ResponseBodyEndStream"
	case *ResponseBodyEnd:
		return fmt.Sprintf("ResponseBodyEnd{%v}", x.Err)
	case *RequestCanceled:
		return "RequestCanceled"
	}
	return fmt.Sprintf("%T", e)
}

func (s *copySink) Complete(t Trace) {
	c := &completion{n: len(t.Events), events: t.Events, trace: t, atStep: s.sim.Steps()}
	for _, e := range t.Events {
		c.snap = append(c.snap, evString(e))
	}
	s.calls = append(s.calls, c)
}

func c16BuilderRun(t *testing.T, tape *simrt.Tape, o simwork.Opts) *simwork.Result {
	res := &simwork.Result{Faults: map[string]int{}, Probes: map[string]int{}}
	p := simwork.Bubble(t, func(t *testing.T) { c16BuilderBody(tape, o, res) })
	if p != nil {
		res.Violations = append(res.Violations, simwork.Violation{Class: "panic-outside-task", Detail: fmt.Sprint(p)})
	}
	return res
}

func envelopes(n int, size int) []byte {
	var b []byte
	for i := 0; i < n; i++ {
		b = append(b, 0, 0, 0, 0, byte(size))
		b = append(b, bytes.Repeat([]byte{byte('a' + i)}, size)...)
	}
	return b
}

func c16BuilderBody(tape *simrt.Tape, o simwork.Opts, res *simwork.Result) {
	cs := &c16BuilderCase{CancelAtUs: -1, AppClose: -1}
	res.Sample = cs
	cs.Side = []string{"client", "server"}[tape.Choose(2, "side")]
	cs.Named = !tape.Bool(1, 8, "unnamed")
	reqBody := envelopes(tape.Choose(4, "reqmsgs"), 3)
	respBody := envelopes(tape.Choose(4, "respmsgs"), 3)
	if tape.Bool(1, 40, "long-stream") {
		// a long-lived stream: thousands of small messages in one operation
		respBody = envelopes(2100+tape.Choose(300, "long-stream.n"), 1)
		cs.LongStream = true
	}
	cs.ReqBody, cs.RespBody = len(reqBody), len(respBody)
	endKinds := []int{simio.EndEOF, simio.EndEOF, simio.EndEOFWithData, simio.EndError}
	reqEnd := endKinds[tape.Choose(4, "reqend")]
	respEnd := endKinds[tape.Choose(4, "respend")]
	cs.ReqEnd, cs.RespEnd = []string{"eof", "eof-with-data", "error"}[reqEnd], []string{"eof", "eof-with-data", "error"}[respEnd]
	cs.TransportErr = cs.Side == "client" && tape.Bool(1, 6, "transporterr")
	if cs.TransportErr {
		cs.TransportErrKind = tape.Choose(4, "transporterr.kind")
	}
	if tape.Bool(1, 2, "cancel") {
		cs.CancelAtUs = []int{0, 1, 50, 100, 150, 200, 400, 1000}[tape.Choose(8, "cancelat")]
		res.Faults["context-cancelled"]++
	}
	if tape.Bool(1, 3, "appclose") {
		cs.AppClose = tape.Choose(4, "closeafter")
		res.Faults["body-closed-early"]++
	}
	cs.RespDelayUs = []int{0, 0, 100, 300}[tape.Choose(4, "respdelay")]
	cs.ConcurrentReqBody = tape.Bool(1, 2, "concurrentreq")
	delays := []time.Duration{0, 50 * time.Microsecond, 100 * time.Microsecond, 200 * time.Microsecond}
	reqSegs := simio.Split(tape, reqBody, 3, delays)
	respSegs := simio.Split(tape, respBody, 3, delays)

	sim := simrt.New(tape)
	defer sim.Detach()
	sim.KeepLog = o.KeepLog
	sim.Settle = 10 * time.Second
	sink := &copySink{sim: sim}
	ctx, cancel := context.WithCancel(context.Background())
	req, _ := http.NewRequestWithContext(ctx, http.MethodPost, "http://example.test/svc/Method", nil)
	req.Header.Set("Content-Type", "application/grpc")
	if cs.Named {
		req.Header.Set("X-Test-Case-Name", "Suite/op")
		if tape.Bool(1, 6, "name-twice") {
			// the field line is there twice (a test case that sets the header itself and
			// the runner's own copy): it is still this test's operation
			req.Header.Add("X-Test-Case-Name", "Suite/op")
			cs.NameTwice = true
			res.Probes["test-name-header-twice"]++
		}
	}
	if cs.Side == "client" && len(respBody) == 0 && respEnd == simio.EndEOF && tape.Bool(1, 2, "nobody") {
		// a response without content: net/http hands out http.NoBody (204, 304, HEAD, Content-Length: 0)
		cs.NoBody = true
		res.Probes["response-body-is-NoBody"]++
	}
	reqReader := &simio.Reader{Segs: reqSegs, End: reqEnd}
	req.Body = io.NopCloser(reqReader)
	req.ContentLength = -1
	respReader := &simio.Reader{Segs: respSegs, End: respEnd}
	mainDone, reqDone := false, true
	sim.Goal = func() bool { return mainDone && reqDone }
	readAll := func(r io.ReadCloser, closeAfter int) {
		buf := make([]byte, 4)
		for i := 0; ; i++ {
			if closeAfter >= 0 && i >= closeAfter {
				_ = r.Close()
				return
			}
			if _, err := r.Read(buf); err != nil {
				return
			}
		}
	}
	if cs.CancelAtUs >= 0 {
		simrt.Go("c16.cancel", func() {
			if cs.CancelAtUs > 0 {
				simrt.Sleep(time.Duration(cs.CancelAtUs)*time.Microsecond, "c16.cancel.sleep")
			}
			cancel()
		})
	}
	if cs.Side == "client" {
		rt := TracingRoundTripper(roundTripperFunc(func(r *http.Request) (*http.Response, error) {
			body := r.Body
			if cs.ConcurrentReqBody {
				reqDone = false
				simrt.Go("c16.transport.reqbody", func() {
					readAll(body, -1)
					reqDone = true
				})
			} else {
				readAll(body, -1)
			}
			if cs.RespDelayUs > 0 {
				simrt.SleepCtx(r.Context(), time.Duration(cs.RespDelayUs)*time.Microsecond, "c16.transport.delay")
			}
			if cs.TransportErr {
				// errors of the transport itself; some of them look like context
				// errors (a dial or response-header timeout satisfies
				// errors.Is(err, context.DeadlineExceeded)) while the request's
				// own context is alive
				switch cs.TransportErrKind {
				case 1:
					return nil, fmt.Errorf("scripted transport: dial timeout: %w", context.DeadlineExceeded)
				case 2:
					return nil, fmt.Errorf("scripted transport: %w", context.Canceled)
				case 3:
					return nil, os.ErrDeadlineExceeded
				}
				return nil, errors.New("scripted transport error")
			}
			if cs.NoBody {
				return &http.Response{StatusCode: 204, Status: "204 No Content", Proto: "HTTP/1.1", ProtoMajor: 1, ProtoMinor: 1,
					Header: http.Header{"Content-Type": {"application/grpc"}}, Body: http.NoBody, ContentLength: 0, Request: r}, nil
			}
			return &http.Response{StatusCode: 200, Status: "200 OK", Proto: "HTTP/2.0", ProtoMajor: 2,
				Header: http.Header{"Content-Type": {"application/grpc"}}, Body: io.NopCloser(respReader), ContentLength: -1, Request: r}, nil
		}), sink)
		simrt.Go("c16.app", func() {
			defer func() { mainDone = true }()
			resp, err := rt.RoundTrip(req)
			if err != nil {
				return
			}
			readAll(resp.Body, cs.AppClose)
			if cs.AppClose >= 0 {
				return
			}
		})
	} else {
		h := TracingHandler(http.HandlerFunc(func(w http.ResponseWriter, r *http.Request) {
			body := r.Body
			if cs.ConcurrentReqBody {
				reqDone = false
				simrt.Go("c16.handler.reqbody", func() {
					readAll(body, cs.AppClose)
					reqDone = true
				})
			} else {
				readAll(body, cs.AppClose)
			}
			w.Header().Set("Content-Type", "application/grpc")
			if cs.RespDelayUs > 0 {
				simrt.SleepCtx(r.Context(), time.Duration(cs.RespDelayUs)*time.Microsecond, "c16.handler.delay")
			}
			pos := 0
			for pos < len(respBody) {
				n := 1 + tape.Choose(len(respBody)-pos, "wchunk")
				simrt.Yield("c16.handler.write")
				if _, err := w.Write(respBody[pos : pos+n]); err != nil {
					return
				}
				pos += n
			}
		}), sink)
		simrt.Go("c16.server", func() {
			defer func() { mainDone = true }()
			rw := &scriptedRW{hdr: http.Header{}, w: simio.NewWriter()}
			if respEnd == simio.EndError && len(respBody) > 0 {
				rw.w.FailAt = tape.Choose(len(respBody), "wfail")
			}
			h.ServeHTTP(rw, req)
		})
	}
	end := sim.Run()
	res.Steps, res.Switches, res.Preempts = sim.Steps(), sim.Switches(), sim.Preempts()
	res.SimTime = sim.Elapsed()
	res.LogHash = sim.LogHash()
	res.End = end.String()
	res.Invalid = append(res.Invalid, sim.Invalid()...)
	res.Log = sim.Log()
	res.Nontrivial = sim.Preempts() > 0 || cs.CancelAtUs >= 0
	viol := func(class, format string, args ...any) {
		res.Violations = append(res.Violations, simwork.Violation{Class: class, Detail: fmt.Sprintf(format, args...)})
	}
	for _, p := range sim.Panics() {
		viol("c16/panic", "%s", p)
	}
	if !mainDone {
		viol("c16/builder-hang", "the traced operation did not finish (end=%s); tasks: %s", end, strings.Join(sim.EndSites(), "; "))
		return
	}
	// is the operation guaranteed to have a finishing event?
	mustFinish := cs.Side == "server" || cs.TransportErr || cs.CancelAtUs >= 0 || cs.AppClose >= 0 || true
	if !cs.Named {
		if len(sink.calls) != 0 {
			viol("c16/unnamed-completed", "an operation without test name was delivered %d time(s)", len(sink.calls))
		}
		return
	}
	if len(sink.calls) > 1 {
		var all []string
		for _, c := range sink.calls {
			all = append(all, strings.Join(c.snap, ","))
		}
		viol("c16/completed-twice", "the operation's trace was delivered %d times: %s", len(sink.calls), strings.Join(all, " || "))
		return
	}
	if len(sink.calls) == 0 {
		if mustFinish {
			viol("c16/never-completed", "the operation ended (side=%s cancel=%d close=%d transport-error=%v) but its trace was never delivered", cs.Side, cs.CancelAtUs, cs.AppClose, cs.TransportErr)
		}
		return
	}
	c := sink.calls[0]
	// the delivered trace does not change afterwards
	if len(c.events) != c.n {
		viol("c16/trace-mutated", "delivered trace had %d events, now %d", c.n, len(c.events))
	}
	for i, e := range c.trace.Events[:c.n] {
		if evString(e) != c.snap[i] {
			viol("c16/trace-mutated", "event %d changed after delivery: %s -> %s", i, c.snap[i], evString(e))
		}
	}
	// shape
	if c.n == 0 || c.snap[0] != "RequestStart" {
		viol("c16/trace-shape", "trace does not start with RequestStart: %v", c.snap)
	}
	finishing := func(s string) bool {
		return strings.HasPrefix(s, "ResponseBodyEnd{") || strings.HasPrefix(s, "ResponseError{") || s == "RequestCanceled" ||
			(strings.HasPrefix(s, "RequestBodyEnd{") && s != "RequestBodyEnd{<nil>}")
	}
	for i, s := range c.snap {
		if finishing(s) && i != c.n-1 {
			viol("c16/event-after-completion", "event %q at position %d of %d is a finishing event but is not the last: %v", s, i, c.n, c.snap)
			break
		}
	}
	reqIdx, respIdx := 0, 0
	for _, e := range c.trace.Events[:c.n] {
		switch x := e.(type) {
		case *RequestBodyData:
			if x.MessageIndex != reqIdx {
				viol("c16/message-index", "request message index %d, want %d: %v", x.MessageIndex, reqIdx, c.snap)
			}
			reqIdx++
		case *ResponseBodyData:
			if x.MessageIndex != respIdx {
				viol("c16/message-index", "response message index %d, want %d: %v", x.MessageIndex, respIdx, c.snap)
			}
			respIdx++
		}
	}
	if c.trace.TestName != "Suite/op" {
		viol("c16/trace-shape", "delivered trace carries test name %q", c.trace.TestName)
	}
	res.Cover = append(res.Cover, fmt.Sprintf("side=%s last=%s cancel=%v close=%v", cs.Side, strings.SplitN(c.snap[c.n-1], "{", 2)[0], cs.CancelAtUs >= 0, cs.AppClose >= 0))
}
