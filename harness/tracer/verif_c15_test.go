//go:build verif

package tracer

import (
	"bytes"
	"encoding/binary"
	"errors"
	"fmt"
	"io"
	"net"
	"net/http"
	"net/textproto"
	"reflect"
	"runtime/debug"
	"sort"
	"strings"
	"sync"
	"testing"
	"time"

	"golang.org/x/net/http2"
	"golang.org/x/net/http2/hpack"

	"connectrpc.com/conformance/internal/verifsim/simrt"
	"connectrpc.com/conformance/internal/verifsim/simwork"
)

// Shapes that are excluded from the generator because they run into defects of
// the code under test that have been reported (flip to true to see them again).
const (
	// a header block split into HEADERS + CONTINUATION frames
	c15GenContinuation = true
	// a server RST_STREAM that arrives before any response HEADERS
	c15GenRSTBeforeResponse = true
	// response trailers (a second response HEADERS) on a stream without test name
	c15GenUnnamedTrailers = true
	// (c15-bytes only) response-direction DATA on a stream before its response HEADERS
	c15GenDataBeforeResponseHeaders = true
)

func init() {
	verifScenarios["c15-wellformed"] = c15WellformedRun
	verifScenarios["c15-bytes"] = c15BytesRun
}

// ---------------------------------------------------------------------------
// scripted inner connection

type c15Timeout struct{}

func (c15Timeout) Error() string   { return "c15: i/o timeout" }
func (c15Timeout) Timeout() bool   { return true }
func (c15Timeout) Temporary() bool { return true }

var (
	c15ErrRead  = errors.New("c15: injected read error")
	c15ErrWrite = errors.New("c15: injected write error")
	c15ErrClose = errors.New("c15: injected close error")
)

type c15Call struct {
	Op   string
	N    int
	Err  error
	Data string
}

type c15Addr struct{}

func (c15Addr) Network() string { return "sim" }
func (c15Addr) String() string  { return "sim:1" }

// c15Conn is the inner net.Conn: Read hands out the next nextN bytes of in
// (together with nextErr), Write records and may fail after wKeep bytes.
type c15Conn struct {
	in       []byte
	inPos    int
	nextN    int
	nextErr  error
	out      []byte
	wKeep    int // <0: writes succeed
	wErr     error
	closeErr error
	log      []c15Call
	other    int
}

func (c *c15Conn) Read(p []byte) (int, error) {
	n := c.nextN
	if n > len(p) {
		n = len(p)
	}
	if n > len(c.in)-c.inPos {
		n = len(c.in) - c.inPos
	}
	copy(p, c.in[c.inPos:c.inPos+n])
	c.inPos += n
	c.log = append(c.log, c15Call{Op: "read", N: n, Err: c.nextErr, Data: string(p[:n])})
	return n, c.nextErr
}

func (c *c15Conn) Write(p []byte) (int, error) {
	n, err := len(p), error(nil)
	if c.wKeep >= 0 {
		if c.wKeep < n {
			n = c.wKeep
		}
		err = c.wErr
	}
	c.out = append(c.out, p[:n]...)
	c.log = append(c.log, c15Call{Op: "write", N: n, Err: err, Data: string(p)})
	return n, err
}

func (c *c15Conn) Close() error {
	c.log = append(c.log, c15Call{Op: "close", Err: c.closeErr})
	return c.closeErr
}
func (c *c15Conn) LocalAddr() net.Addr                { return c15Addr{} }
func (c *c15Conn) RemoteAddr() net.Addr               { return c15Addr{} }
func (c *c15Conn) SetDeadline(t time.Time) error      { c.other++; return nil }
func (c *c15Conn) SetReadDeadline(t time.Time) error  { c.other++; return nil }
func (c *c15Conn) SetWriteDeadline(t time.Time) error { c.other++; return nil }

type c15Delivery struct {
	tr Trace
	at time.Duration
}

type c15Sink struct {
	mu    sync.Mutex
	start time.Time
	got   []c15Delivery
}

func (s *c15Sink) Complete(t Trace) {
	s.mu.Lock()
	defer s.mu.Unlock()
	s.got = append(s.got, c15Delivery{tr: t, at: time.Since(s.start)})
}

// ---------------------------------------------------------------------------
// abstract exchange

type c15Hdr struct{ Name, Value string }

const (
	fkPreface = iota
	fkSettings
	fkSettingsAck
	fkPing
	fkWindowUpdate
	fkHeaders // HEADERS followed by Parts-1 CONTINUATION frames
	fkData
	fkRST
	fkGoAway
	fkRaw // only in the frame soup
)

var c15KindNames = []string{"PREFACE", "SETTINGS", "SETTINGS-ACK", "PING", "WINDOW_UPDATE", "HEADERS", "DATA", "RST_STREAM", "GOAWAY", "RAW"}

const (
	dirReq  = 0 // client -> server
	dirResp = 1 // server -> client
)

type c15Frame struct {
	Dir       int
	Kind      int
	Stream    int // index into the case's streams; -1: connection level
	SID       uint32
	Role      string // headers: "request", "response", "trailers"
	Fields    []c15Hdr
	Parts     int
	CutPm     []int // cut points of the header block in permille
	EndStream bool
	Data      []byte
	Pad       int
	Prio      bool
	Code      http2.ErrCode
	LastID    uint32
	Ack       bool
	RawType   byte
	RawFlags  byte
	deps      []*c15Frame
	TableSize int           // headers: new HPACK dynamic table size announced with this block, -1 none
	MaxFrame  int           // settings: SETTINGS_MAX_FRAME_SIZE advertised (0: not mentioned)
	TableAnn  int           // settings: SETTINGS_HEADER_TABLE_SIZE announced + 1 (0: not mentioned)
	Gap       time.Duration // simulated pause before this frame is completely delivered
	gapDone   bool
	bigFrame  bool // a physical frame with more than 16384 bytes of payload

	hpackUpdate, hpackBeyond, hpackShrunk bool // set when encoding

	gidx       int
	start, end int   // extent in the direction's byte stream
	phys       []int // start offsets of the physical frames
	emitted    bool
	doneAt     time.Duration
}

func (f *c15Frame) String() string {
	d := "c>s"
	if f.Dir == dirResp {
		d = "s>c"
	}
	s := d + " " + c15KindNames[f.Kind]
	if f.Kind >= fkHeaders && f.Kind != fkGoAway {
		s += fmt.Sprintf(" id=%d", f.SID)
	}
	switch f.Kind {
	case fkHeaders:
		s += " " + f.Role
		if f.Parts > 1 {
			s += fmt.Sprintf(" +%dCONTINUATION", f.Parts-1)
		}
	case fkData:
		s += fmt.Sprintf(" len=%d", len(f.Data))
	case fkRST:
		s += " " + f.Code.String()
	case fkGoAway:
		s += fmt.Sprintf(" last=%d %s", f.LastID, f.Code)
	}
	if f.EndStream {
		s += " END_STREAM"
	}
	return s
}

type c15Stream struct {
	Idx      int
	ID       uint32
	Named    bool
	Name     string
	Marker   string
	RetryOf  int
	ReqEnd   string // end-stream, rst, open
	RespKind string // normal, trailers-only, rst-after-headers, rst-before-headers, data-end, none
	Code     http2.ErrCode
	Early    bool
	Ignored  bool // opened above the limit of a GOAWAY in force: the peer does not answer
	Status   int

	Path, Authority, Scheme string
	ReqFields               []c15Hdr
	RespFields              []c15Hdr
	TrailerFields           []c15Hdr
	ReqBody, RespBody       []byte
	req, resp               []*c15Frame
}

type c15Case struct {
	// BigTable: per direction, the HPACK dynamic table size (> 4096) the sending
	// peer's encoder switches to with its first header block; 0 = default table
	BigTable [2]int
	// MaxFrame: per direction, the SETTINGS_MAX_FRAME_SIZE the receiving peer advertised
	// for frames sent in that direction; 0 = the initial 16384
	MaxFrame [2]int
	IsServer bool
	Streams  []*c15Stream
	Frames   []*c15Frame // global order
	bytes    [2][]byte
}

type c15StreamDesc struct {
	ID       uint32 `json:"id"`
	Name     string `json:"test_name"`
	RetryOf  int    `json:"retry_of_stream_index"`
	ReqEnd   string `json:"request_end"`
	ReqBody  int    `json:"request_body_bytes"`
	Resp     string `json:"response"`
	Code     string `json:"rst_code,omitempty"`
	RespBody int    `json:"response_body_bytes"`
	Early    bool   `json:"response_may_end_before_request,omitempty"`
	Ignored  bool   `json:"opened_above_goaway_limit_no_response,omitempty"`
}

type c15Sample struct {
	Scenario string          `json:"scenario"`
	Role     string          `json:"role"`
	Mode     string          `json:"mode,omitempty"`
	Streams  []c15StreamDesc `json:"streams,omitempty"`
	Order    []string        `json:"frame_order,omitempty"`
	Calls    []string        `json:"calls"`
	Fault    string          `json:"fault,omitempty"`
	Bytes    [2]int          `json:"bytes_per_direction"`
}

func c15Payload(i, l int) []byte {
	p := make([]byte, l)
	for j := range p {
		p[j] = byte(i*37 + j*7 + 1)
	}
	return p
}

// maxFrame > 0: the receiver raised SETTINGS_MAX_FRAME_SIZE; then half of the bodies
// carry one message that needs a DATA frame above 16384 bytes (or several of them).
func c15GenBody(tape *simrt.Tape, tier string, maxFrame int) []byte {
	big, bigAt := -1, 0
	if maxFrame > 0 && tape.Bool(1, 2, "big-message") {
		// mostly just above the initial limit (cheap), rarely really large
		sizes := []int{16380, 16380, 16380, 16380, 16380, 16380, 16380, 20000, 20000, 20000, 20000, 40000, 40000, 40000, 40000, 100000}
		if maxFrame >= 1<<20 {
			sizes[15] = 300000
		}
		big = sizes[tape.Choose(16, "big-len")]
	}
	maxEnv := 3
	lens := []int{0, 1, 5, 17, 200}
	if tier == "thorough" {
		maxEnv = 5
		lens = append(lens, 5000, 20000)
	}
	n := tape.Choose(maxEnv+1, "nenv")
	if big >= 0 {
		n++
		bigAt = tape.Choose(n, "big-at")
	}
	var body []byte
	for i := 0; i < n; i++ {
		flags := []byte{0, 0, 0, 1, 0x80}[tape.Choose(5, "flags")]
		l := lens[tape.Choose(len(lens), "len")]
		if big >= 0 && i == bigAt {
			l = big
		}
		payload := c15Payload(i, l)
		var hdr [5]byte
		hdr[0] = flags
		binary.BigEndian.PutUint32(hdr[1:], uint32(len(payload)))
		body = append(body, hdr[:]...)
		body = append(body, payload...)
	}
	return body
}

// c15SplitData cuts body into DATA frame payloads independent of envelopes.
// No piece exceeds max, the frame size limit in force for the direction.
func c15SplitData(tape *simrt.Tape, body []byte, max int) [][]byte {
	if len(body) == 0 {
		return nil
	}
	k := tape.Choose(4, "ndatacuts")
	cuts := []int{0, len(body)}
	for i := 0; i < k; i++ {
		cuts = append(cuts, tape.Choose(len(body)+1, "datacut"))
	}
	sort.Ints(cuts)
	var out [][]byte
	for i := 0; i+1 < len(cuts); i++ {
		piece := body[cuts[i]:cuts[i+1]] // empty DATA frames are legal and wanted
		for len(piece) > max {
			out = append(out, piece[:max])
			piece = piece[max:]
		}
		out = append(out, piece)
	}
	return out
}

func (cs *c15Case) headersFrame(tape *simrt.Tape, s *c15Stream, dir int, role string, fields []c15Hdr, es bool) *c15Frame {
	f := &c15Frame{Dir: dir, Kind: fkHeaders, Stream: s.Idx, SID: s.ID, Role: role, Fields: fields, EndStream: es, Parts: 1}
	if c15GenContinuation && tape.Bool(1, 5, "continuation") {
		f.Parts = 2 + tape.Choose(2, "nparts")
		for i := 1; i < f.Parts; i++ {
			f.CutPm = append(f.CutPm, tape.Choose(1001, "blockcut"))
		}
		sort.Ints(f.CutPm)
	}
	if tape.Bool(1, 10, "hpad") {
		f.Pad = 1 + tape.Choose(6, "hpadlen")
	}
	f.TableSize = -1
	if cs.BigTable[dir] > 0 {
		if tape.Bool(1, 4, "hpack-resize") {
			f.TableSize = []int{0, 100, 1024, 4096, 16384, 65536}[tape.Choose(6, "hpack-size")]
		}
	} else if tape.Bool(1, 12, "hpack-shrink") {
		f.TableSize = []int{0, 100, 1024, 4096}[tape.Choose(4, "hpack-size")]
	}
	if role == "request" && tape.Bool(1, 10, "prio") {
		f.Prio = true
	}
	return f
}

func (cs *c15Case) dataFrames(tape *simrt.Tape, s *c15Stream, dir int, body []byte, endStream bool) []*c15Frame {
	var out []*c15Frame
	max := 16384
	if cs.MaxFrame[dir] > 0 {
		max = cs.MaxFrame[dir]
	}
	for _, p := range c15SplitData(tape, body, max) {
		f := &c15Frame{Dir: dir, Kind: fkData, Stream: s.Idx, SID: s.ID, Data: p}
		if tape.Bool(1, 8, "dpad") {
			f.Pad = 1 + tape.Choose(5, "dpadlen")
		}
		out = append(out, f)
	}
	if endStream {
		if len(out) > 0 && !tape.Bool(1, 3, "empty-es") {
			out[len(out)-1].EndStream = true
		} else {
			out = append(out, &c15Frame{Dir: dir, Kind: fkData, Stream: s.Idx, SID: s.ID, EndStream: true})
		}
	}
	return out
}

func c15Cut(tape *simrt.Tape, body []byte, num, den int, label string) []byte {
	if len(body) > 0 && tape.Bool(num, den, label) {
		return body[:tape.Choose(len(body)+1, label+"at")]
	}
	return body
}

// c15Generate draws the streams, their frames and the global frame order.
// illegalGoAway additionally allows a second GOAWAY that repeats or raises the
// last stream id (c15-bytes only).
func c15Generate(tape *simrt.Tape, tier string, illegalGoAway bool) *c15Case {
	cs := &c15Case{}
	cs.IsServer = tape.Bool(1, 2, "is-server")
	for dir := 0; dir < 2; dir++ {
		cs.BigTable[dir] = []int{0, 0, 0, 0, 16384, 65536}[tape.Choose(6, "hpack-table")]
	}
	// filler: distinct fields of more than 4096 bytes in total, so that what was put
	// into the table before them is later referenced beyond the default table size
	filler := func(tag string) []c15Hdr {
		var out []c15Hdr
		for i := 0; i < 6; i++ {
			unit := fmt.Sprintf("%s.%d/", tag, i)
			out = append(out, c15Hdr{fmt.Sprintf("x-fill-%d", i), strings.Repeat(unit, 850/len(unit))})
		}
		return out
	}
	maxStreams := 2
	if tier == "thorough" {
		maxStreams = 4
	}
	nStreams := 1 + tape.Choose(maxStreams, "nstreams")
	for dir := 0; dir < 2; dir++ {
		cs.MaxFrame[dir] = []int{0, 0, 0, 0, 0, 0, 0, 0, 0, 0, 0, 0, 0, 0, 0, 0, 0, 0, 65536, 1 << 20}[tape.Choose(20, "max-frame-size")]
	}
	// The same test name refused twice: streams 0 and 1 are refused, 1 retries 0, stream 2
	// (if any) usually retries 1; seeded gaps before the second refusal and the last attempt
	twice := tape.Bool(1, 10, "refused-twice")
	var gapRefusal2, gapAttempt3 time.Duration
	if twice {
		if n := 2 + tape.Choose(2, "refused-twice-attempts"); nStreams < n {
			nStreams = n
		}
		gapRefusal2 = []time.Duration{2000, 0, 900, 2600}[tape.Choose(4, "gap-second-refusal")] * time.Millisecond
		gapAttempt3 = []time.Duration{1500, 0, 600, 2900, 3400}[tape.Choose(5, "gap-last-attempt")] * time.Millisecond
	}
	id := uint32(1)
	retried := map[int]bool{}
	for i := 0; i < nStreams; i++ {
		s := &c15Stream{Idx: i, ID: id, RetryOf: -1, Marker: fmt.Sprintf("s%d", i)}
		id += 2
		if tape.Bool(1, 6, "skip-id") {
			id += 2
		}
		s.Named = !tape.Bool(1, 7, "unnamed") || twice && i < 2
		if s.Named {
			s.Name = fmt.Sprintf("Suite/case-%d", i)
		}
		// a retry of an earlier refused stream?
		for j := 0; j < i; j++ {
			r := cs.Streams[j]
			forced := twice && i == 1 && j == 0
			if forced || r.Named && !retried[j] && r.Code == http2.ErrCodeRefusedStream && strings.HasPrefix(r.RespKind, "rst") && tape.Bool(2, 3, "retry") {
				s.RetryOf, s.Named, s.Name = j, true, r.Name
				retried[j] = true
				break
			}
		}
		s.Scheme = []string{"http", "https"}[tape.Choose(2, "scheme")]
		s.Authority = []string{"example.test", "127.0.0.1:8080"}[tape.Choose(2, "authority")]
		s.Path = []string{"/connectrpc.conformance.v1.ConformanceService/Unary", "/connectrpc.conformance.v1.ConformanceService/BidiStream", "/svc/Method?x=1&y=2",
			// '?' is an ordinary character inside a query (RFC 3986 3.4): the target splits at the first one
			"/svc/Method?x=1?y=2", "/svc/Method?next=/a/b?c=d&e=f", "/svc/Method?q=what?", "/svc/Method?"}[tape.Choose(7, "path")]
		ct := []string{"application/grpc", "application/grpc+proto"}[tape.Choose(2, "ct")]
		s.ReqFields = []c15Hdr{{":method", "POST"}, {":scheme", s.Scheme}, {":authority", s.Authority}, {":path", s.Path}, {"content-type", ct}}
		if e := tape.Choose(3, "reqenc"); e > 0 {
			s.ReqFields = append(s.ReqFields, c15Hdr{"grpc-encoding", []string{"", "gzip", "identity"}[e]})
		}
		if tape.Bool(1, 2, "te") {
			s.ReqFields = append(s.ReqFields, c15Hdr{"te", "trailers"})
		}
		if s.Named {
			s.ReqFields = append(s.ReqFields, c15Hdr{"x-test-case-name", s.Name})
		}
		s.ReqFields = append(s.ReqFields, c15Hdr{"x-attempt", s.Marker})
		if tape.Bool(1, 4, "multi") {
			s.ReqFields = append(s.ReqFields, c15Hdr{"x-multi", "a"}, c15Hdr{"x-multi", "b"})
		}
		if cs.BigTable[dirReq] > 0 {
			s.ReqFields = append(s.ReqFields, c15Hdr{"x-conn", "shared by all requests"})
			if tape.Bool(1, 2, "hpack-filler") {
				s.ReqFields = append(s.ReqFields, filler("q"+s.Marker)...)
			}
		}
		if cs.MaxFrame[dirReq] > 0 && tape.Bool(1, 3, "huge-header") {
			s.ReqFields = append(s.ReqFields, c15Hdr{"x-huge", strings.Repeat("h"+s.Marker, (17000+tape.Choose(3000, "huge-len"))/(1+len(s.Marker)))})
		}
		if tape.Bool(1, 6, "long") {
			s.ReqFields = append(s.ReqFields, c15Hdr{"x-long", strings.Repeat("v", 100+tape.Choose(900, "longlen"))})
		}
		// response
		rk := tape.Choose(12, "respkind")
		switch {
		case rk <= 4:
			s.RespKind = "normal"
		case rk <= 6:
			s.RespKind = "trailers-only"
		case rk <= 8:
			s.RespKind = "rst-after-headers"
		case rk == 9:
			s.RespKind = "rst-before-headers"
			if !c15GenRSTBeforeResponse {
				s.RespKind = "rst-after-headers"
			}
		case rk == 10:
			s.RespKind = "data-end"
		default:
			s.RespKind = "none"
		}
		if twice && i < 2 && !strings.HasPrefix(s.RespKind, "rst") {
			s.RespKind = "rst-after-headers"
		}
		if !c15GenUnnamedTrailers && !s.Named && s.RespKind == "normal" {
			s.RespKind = "data-end"
		}
		if strings.HasPrefix(s.RespKind, "rst") {
			s.Code = []http2.ErrCode{http2.ErrCodeCancel, http2.ErrCodeInternal, http2.ErrCodeRefusedStream, http2.ErrCodeRefusedStream}[tape.Choose(4, "rstcode")]
		}
		if twice && i < 2 {
			s.Code = http2.ErrCodeRefusedStream
		}
		s.Status = []int{200, 200, 200, 200, 404, 503}[tape.Choose(6, "status")]
		// (the last one: an answer at the HTTP level - a proxy's error page, a raw
		// response - whose body is not enveloped, whatever the request was)
		rct := []string{"application/grpc", "application/grpc+proto", "application/grpc", "application/grpc+proto", "text/plain; charset=utf-8"}[tape.Choose(5, "rct")]
		s.RespFields = []c15Hdr{{":status", fmt.Sprint(s.Status)}, {"content-type", rct}}
		if tape.Bool(1, 3, "respenc") {
			s.RespFields = append(s.RespFields, c15Hdr{"grpc-encoding", "gzip"})
		}
		if cs.BigTable[dirResp] > 0 {
			s.RespFields = append(s.RespFields, c15Hdr{"x-server", "shared by all responses"})
			if tape.Bool(1, 2, "hpack-filler") {
				s.RespFields = append(s.RespFields, filler("p"+s.Marker)...)
			}
		}
		if cs.MaxFrame[dirResp] > 0 && tape.Bool(1, 3, "huge-header") {
			s.RespFields = append(s.RespFields, c15Hdr{"x-huge", strings.Repeat("H"+s.Marker, (17000+tape.Choose(3000, "huge-len"))/(1+len(s.Marker)))})
		}
		if tape.Bool(1, 3, "xresp") {
			s.RespFields = append(s.RespFields, c15Hdr{"x-resp", "r" + s.Marker}, c15Hdr{"x-resp", "again"})
		}
		gs := []string{"0", "13", "8"}[tape.Choose(3, "grpcstatus")]
		s.TrailerFields = []c15Hdr{{"grpc-status", gs}}
		if tape.Bool(1, 2, "grpcmsg") {
			s.TrailerFields = append(s.TrailerFields, c15Hdr{"grpc-message", "msg " + s.Marker})
		}
		if tape.Bool(1, 4, "xtrail") {
			s.TrailerFields = append(s.TrailerFields, c15Hdr{"x-trail", "t1"}, c15Hdr{"x-trail", "t2"})
		}
		if s.RespKind == "trailers-only" {
			s.RespFields = append(s.RespFields, s.TrailerFields...)
		}
		// request
		switch re := tape.Choose(12, "reqend"); {
		case re <= 8:
			s.ReqEnd = "end-stream"
		case re <= 10:
			s.ReqEnd = "rst"
		default:
			s.ReqEnd = "open"
		}
		if s.Code == http2.ErrCodeRefusedStream && s.ReqEnd == "rst" {
			s.ReqEnd = "end-stream" // keep the refused/retry histories free of racing resets
		}
		s.ReqBody = c15GenBody(tape, tier, cs.MaxFrame[dirReq])
		switch s.ReqEnd {
		case "rst":
			s.ReqBody = c15Cut(tape, s.ReqBody, 1, 2, "reqcut")
		case "end-stream":
			s.ReqBody = c15Cut(tape, s.ReqBody, 1, 10, "reqtrunc")
		}
		esOnHeaders := s.ReqEnd == "end-stream" && len(s.ReqBody) == 0 && tape.Bool(1, 2, "es-on-headers")
		s.req = append(s.req, cs.headersFrame(tape, s, dirReq, "request", s.ReqFields, esOnHeaders))
		if !esOnHeaders {
			s.req = append(s.req, cs.dataFrames(tape, s, dirReq, s.ReqBody, s.ReqEnd == "end-stream")...)
		}
		if s.ReqEnd == "rst" {
			s.req = append(s.req, &c15Frame{Dir: dirReq, Kind: fkRST, Stream: i, SID: s.ID, Code: http2.ErrCodeCancel})
		}
		if s.RespKind == "normal" || s.RespKind == "rst-after-headers" || s.RespKind == "data-end" {
			s.RespBody = c15GenBody(tape, tier, cs.MaxFrame[dirResp])
		}
		switch s.RespKind {
		case "normal":
			s.RespBody = c15Cut(tape, s.RespBody, 1, 10, "resptrunc")
			s.resp = append(s.resp, cs.headersFrame(tape, s, dirResp, "response", s.RespFields, false))
			s.resp = append(s.resp, cs.dataFrames(tape, s, dirResp, s.RespBody, false)...)
			s.resp = append(s.resp, cs.headersFrame(tape, s, dirResp, "trailers", s.TrailerFields, true))
		case "trailers-only":
			s.resp = append(s.resp, cs.headersFrame(tape, s, dirResp, "response", s.RespFields, true))
		case "rst-after-headers":
			s.RespBody = c15Cut(tape, s.RespBody, 1, 2, "respcut")
			s.resp = append(s.resp, cs.headersFrame(tape, s, dirResp, "response", s.RespFields, false))
			s.resp = append(s.resp, cs.dataFrames(tape, s, dirResp, s.RespBody, false)...)
			s.resp = append(s.resp, &c15Frame{Dir: dirResp, Kind: fkRST, Stream: i, SID: s.ID, Code: s.Code})
		case "rst-before-headers":
			s.resp = append(s.resp, &c15Frame{Dir: dirResp, Kind: fkRST, Stream: i, SID: s.ID, Code: s.Code})
		case "data-end":
			s.resp = append(s.resp, cs.headersFrame(tape, s, dirResp, "response", s.RespFields, false))
			s.resp = append(s.resp, cs.dataFrames(tape, s, dirResp, s.RespBody, true)...)
		}
		s.Early = tape.Bool(1, 8, "early-response")
		cs.Streams = append(cs.Streams, s)
	}
	// connection-level frames
	preface := &c15Frame{Dir: dirReq, Kind: fkPreface, Stream: -1}
	setC := &c15Frame{Dir: dirReq, Kind: fkSettings, Stream: -1, MaxFrame: cs.MaxFrame[dirResp]}
	setS := &c15Frame{Dir: dirResp, Kind: fkSettings, Stream: -1, MaxFrame: cs.MaxFrame[dirReq]}
	// HEADER_TABLE_SIZE is the size of the ANNOUNCING peer's decoder table: it limits the
	// encoder of the opposite direction. Only the receiver of a large-table direction has
	// to announce a large value; what the sender itself announces is independent of it.
	for _, set := range []*c15Frame{setC, setS} {
		if need := cs.BigTable[1-set.Dir]; need > 0 {
			set.TableAnn = []int{need, 1 << 16}[tape.Choose(2, "table-announced")] + 1
		} else {
			set.TableAnn = []int{0, 4096 + 1, 1024 + 1, 0 + 1, 1<<16 + 1}[tape.Choose(5, "table-announced")]
		}
	}
	if twice {
		// the second refusal well after the first, the last attempt a seeded while after it
		if r := cs.Streams[1].resp; len(r) > 0 {
			r[len(r)-1].Gap = gapRefusal2
		}
		if len(cs.Streams) > 2 && cs.Streams[2].RetryOf == 1 {
			cs.Streams[2].req[0].Gap = gapAttempt3
		}
	}
	ackC := &c15Frame{Dir: dirReq, Kind: fkSettingsAck, Stream: -1, deps: []*c15Frame{setS}}
	ackS := &c15Frame{Dir: dirResp, Kind: fkSettingsAck, Stream: -1, deps: []*c15Frame{setC}}
	queues := [][]*c15Frame{{preface, setC, ackC}, {setS, ackS}}
	for i, s := range cs.Streams {
		s.req[0].deps = append(s.req[0].deps, setC)
		if cs.BigTable[dirReq] > 0 || cs.MaxFrame[dirReq] > 0 || setS.TableAnn > 0 {
			// the client's encoder and frame sizes follow what the server's SETTINGS announced
			s.req[0].deps = append(s.req[0].deps, setS)
		}
		if i > 0 {
			s.req[0].deps = append(s.req[0].deps, cs.Streams[i-1].req[0])
		}
		if s.RetryOf >= 0 {
			r := cs.Streams[s.RetryOf]
			s.req[0].deps = append(s.req[0].deps, r.resp[len(r.resp)-1])
		}
		queues = append(queues, s.req)
		if len(s.resp) > 0 {
			s.resp[0].deps = append(s.resp[0].deps, s.req[0], setS)
			if s.ReqEnd == "end-stream" && !s.Early && !strings.HasPrefix(s.RespKind, "rst") {
				last := s.resp[len(s.resp)-1]
				last.deps = append(last.deps, s.req[len(s.req)-1])
			}
			queues = append(queues, s.resp)
		}
	}
	// GOAWAY plan: none, a single one, the graceful-shutdown pair (2^31-1 first, the
	// real last id later), a pair whose second frame lowers the limit
	{
		ids := []uint32{0} // ascending and distinct
		for _, s := range cs.Streams {
			ids = append(ids, s.ID)
		}
		ids = append(ids, 1<<31-1)
		codes := []http2.ErrCode{http2.ErrCodeNo, http2.ErrCodeProtocol, http2.ErrCodeEnhanceYourCalm}
		goAway := func(last uint32, code http2.ErrCode) *c15Frame {
			return &c15Frame{Dir: dirResp, Kind: fkGoAway, Stream: -1, deps: []*c15Frame{setS}, LastID: last, Code: code}
		}
		plan := []int{0, 0, 0, 0, 0, 0, 0, 0, 0, 0, 0, 0, 0, 0, 6, 6, 8, 8, 10, 11}[tape.Choose(20, "goaway")]
		if plan == 11 && !illegalGoAway {
			plan = 8
		}
		switch plan {
		case 6:
			queues = append(queues, []*c15Frame{goAway(ids[tape.Choose(len(ids), "goaway-last")], codes[tape.Choose(3, "goaway-code")])})
		case 8: // graceful shutdown
			second := goAway(ids[tape.Choose(len(ids)-1, "goaway-last")], http2.ErrCodeNo)
			if tape.Bool(1, 4, "goaway-final-error") {
				second.Code = codes[1+tape.Choose(2, "goaway-code")]
			}
			queues = append(queues, []*c15Frame{goAway(1<<31-1, http2.ErrCodeNo), second})
		case 10: // the second one lowers the limit
			i := 1 + tape.Choose(len(ids)-1, "goaway-first")
			j := tape.Choose(i, "goaway-second")
			queues = append(queues, []*c15Frame{goAway(ids[i], codes[tape.Choose(3, "goaway-code")]), goAway(ids[j], codes[tape.Choose(3, "goaway-code2")])})
		case 11: // same or higher id again: not legal, c15-bytes only
			i := tape.Choose(len(ids), "goaway-first")
			j := i + tape.Choose(len(ids)-i, "goaway-second")
			queues = append(queues, []*c15Frame{goAway(ids[i], codes[tape.Choose(3, "goaway-code")]), goAway(ids[j], codes[tape.Choose(3, "goaway-code2")])})
		}
	}
	// merge: value 0 always takes the first eligible queue (sequential exchange)
	for {
		var eligible []int
		for qi, q := range queues {
			if len(q) == 0 {
				continue
			}
			ok := true
			for _, d := range q[0].deps {
				if !d.emitted {
					ok = false
				}
			}
			if ok {
				eligible = append(eligible, qi)
			}
		}
		if len(eligible) == 0 {
			break
		}
		qi := eligible[tape.Choose(len(eligible), "next-frame")]
		f := queues[qi][0]
		queues[qi] = queues[qi][1:]
		f.emitted = true
		cs.Frames = append(cs.Frames, f)
	}
	// A stream opened above the limit of a GOAWAY that is already in force is ignored
	// by the peer (RFC 9113 6.8): it gets no response frames.
	{
		inForce, limit := false, uint32(0)
		ignored := map[int]bool{}
		kept := cs.Frames[:0]
		for _, f := range cs.Frames {
			switch {
			case f.Kind == fkGoAway:
				inForce, limit = true, f.LastID
			case f.Kind == fkHeaders && f.Role == "request" && inForce && f.SID > limit:
				ignored[f.Stream] = true
				cs.Streams[f.Stream].Ignored = true
			case f.Dir == dirResp && f.Stream >= 0 && ignored[f.Stream]:
				continue
			}
			kept = append(kept, f)
		}
		cs.Frames = kept
	}
	// noise
	for k := tape.Choose(4, "nnoise"); k > 0; k-- {
		f := &c15Frame{Dir: tape.Choose(2, "noise-dir"), Stream: -1}
		switch tape.Choose(4, "noise-kind") {
		case 0:
			f.Kind = fkPing
		case 1:
			f.Kind, f.Ack = fkPing, true
		case 2:
			f.Kind = fkWindowUpdate
		case 3:
			f.Kind = fkSettings
			// may change the table size allowed to the other direction's encoder mid-connection
			f.TableAnn = []int{0, 0, 0 + 1, 1024 + 1, 4096 + 1, 1<<16 + 1}[tape.Choose(6, "noise-table-announced")]
		}
		first := setC
		if f.Dir == dirResp {
			first = setS
		}
		min := 0
		for i, g := range cs.Frames {
			if g == first {
				min = i + 1
			}
		}
		at := min + tape.Choose(len(cs.Frames)-min+1, "noise-at")
		cs.Frames = append(cs.Frames[:at], append([]*c15Frame{f}, cs.Frames[at:]...)...)
	}
	for i, f := range cs.Frames {
		f.gidx = i
	}
	return cs
}

type c15Encoder struct {
	buf  [2]bytes.Buffer
	hbuf [2]bytes.Buffer
	fr   [2]*http2.Framer
	enc  [2]*hpack.Encoder
	// twin encoders that are never allowed more than the default 4096 bytes: as long as
	// both produce the same block, nothing beyond 4096 bytes has been referenced
	hbuf2    [2]bytes.Buffer
	enc2     [2]*hpack.Encoder
	diverged [2]bool
	// a SETTINGS frame lowered the limit below the table size in use
	pendingShrunk [2]bool
	big           [2]int
	bigDone       [2]bool
}

// c15StripSizeUpdates removes leading "dynamic table size update" instructions.
func c15StripSizeUpdates(b []byte) []byte {
	for len(b) > 0 && b[0]&0xE0 == 0x20 {
		i := 1
		if b[0]&0x1F == 0x1F {
			for i < len(b) && b[i]&0x80 != 0 {
				i++
			}
			i++
		}
		if i > len(b) {
			i = len(b)
		}
		b = b[i:]
	}
	return b
}

func newC15Encoder() *c15Encoder {
	e := &c15Encoder{}
	for d := 0; d < 2; d++ {
		e.fr[d] = http2.NewFramer(&e.buf[d], nil)
		e.fr[d].AllowIllegalWrites = true
		e.enc[d] = hpack.NewEncoder(&e.hbuf[d])
		// the limit stays at the default 4096 until the receiving peer's SETTINGS say otherwise
		e.enc2[d] = hpack.NewEncoder(&e.hbuf2[d])
	}
	return e
}

// write encodes one abstract frame at the end of its direction's byte stream.
func (e *c15Encoder) write(f *c15Frame) error {
	d := f.Dir
	fr := e.fr[d]
	f.start = e.buf[d].Len()
	f.phys = []int{f.start}
	var err error
	switch f.Kind {
	case fkPreface:
		e.buf[d].WriteString(clientPreface)
		f.phys = nil
	case fkSettings:
		set := []http2.Setting{{ID: http2.SettingMaxConcurrentStreams, Val: 100}, {ID: http2.SettingInitialWindowSize, Val: 1 << 20}}
		if f.TableAnn > 0 {
			// binds the encoder of the OTHER direction from here on; lowering it makes that
			// encoder open its next header block with the size update RFC 7541 4.2 requires
			v, x := uint32(f.TableAnn-1), 1-d
			set = append([]http2.Setting{{ID: http2.SettingHeaderTableSize, Val: v}}, set...)
			if v < e.enc[x].MaxDynamicTableSize() {
				e.pendingShrunk[x] = true
			}
			e.enc[x].SetMaxDynamicTableSizeLimit(v)
			e.enc2[x].SetMaxDynamicTableSizeLimit(min(v, 4096))
			if v == 0 {
				e.diverged[x] = false
			}
		}
		if f.MaxFrame > 0 {
			set = append(set, http2.Setting{ID: http2.SettingMaxFrameSize, Val: uint32(f.MaxFrame)})
		}
		err = fr.WriteSettings(set...)
	case fkSettingsAck:
		err = fr.WriteSettingsAck()
	case fkPing:
		err = fr.WritePing(f.Ack, [8]byte{1, 2, 3, 4, 5, 6, 7, 8})
	case fkWindowUpdate:
		err = fr.WriteWindowUpdate(0, 65535)
	case fkHeaders:
		e.hbuf[d].Reset()
		size := f.TableSize
		if size < 0 && e.big[d] > 0 && !e.bigDone[d] {
			size = e.big[d]
		}
		f.hpackShrunk, e.pendingShrunk[d] = e.pendingShrunk[d], false
		if size >= 0 {
			e.bigDone[d] = true
			before := e.enc[d].MaxDynamicTableSize()
			e.enc[d].SetMaxDynamicTableSize(uint32(size)) // never above what the receiver announced
			f.hpackUpdate = e.enc[d].MaxDynamicTableSize() > 4096
			f.hpackShrunk = f.hpackShrunk || e.enc[d].MaxDynamicTableSize() < before
			e.enc2[d].SetMaxDynamicTableSize(uint32(size)) // clamped to 4096
			if size == 0 {
				e.diverged[d] = false // both tables are empty again
			}
		}
		e.hbuf2[d].Reset()
		for _, h := range f.Fields {
			if err := e.enc[d].WriteField(hpack.HeaderField{Name: h.Name, Value: h.Value}); err != nil {
				return err
			}
			_ = e.enc2[d].WriteField(hpack.HeaderField{Name: h.Name, Value: h.Value})
		}
		block := append([]byte(nil), e.hbuf[d].Bytes()...)
		if !e.diverged[d] && e.enc[d].MaxDynamicTableSize() > 4096 && !bytes.Equal(c15StripSizeUpdates(block), c15StripSizeUpdates(e.hbuf2[d].Bytes())) {
			e.diverged[d], f.hpackBeyond = true, true
		}
		cuts := []int{0}
		for _, pm := range f.CutPm {
			cuts = append(cuts, len(block)*pm/1000)
		}
		cuts = append(cuts, len(block))
		p := http2.HeadersFrameParam{StreamID: f.SID, BlockFragment: block[cuts[0]:cuts[1]], EndStream: f.EndStream, EndHeaders: len(cuts) == 2, PadLength: uint8(f.Pad)}
		if f.Prio {
			p.Priority = http2.PriorityParam{StreamDep: 0, Weight: 15}
		}
		err = fr.WriteHeaders(p)
		for i := 2; i < len(cuts) && err == nil; i++ {
			f.phys = append(f.phys, e.buf[d].Len())
			err = fr.WriteContinuation(f.SID, i == len(cuts)-1, block[cuts[i-1]:cuts[i]])
		}
	case fkData:
		if f.Pad > 0 {
			err = fr.WriteDataPadded(f.SID, f.EndStream, f.Data, make([]byte, f.Pad))
		} else {
			err = fr.WriteData(f.SID, f.EndStream, f.Data)
		}
	case fkRST:
		err = fr.WriteRSTStream(f.SID, f.Code)
	case fkGoAway:
		err = fr.WriteGoAway(f.LastID, f.Code, []byte("bye"))
	case fkRaw:
		err = fr.WriteRawFrame(http2.FrameType(f.RawType), http2.Flags(f.RawFlags), f.SID, f.Data)
	}
	f.end = e.buf[d].Len()
	for i, st := range f.phys {
		next := f.end
		if i+1 < len(f.phys) {
			next = f.phys[i+1]
		}
		if next-st-frameHeaderLen > 16384 {
			f.bigFrame = true
		}
	}
	return err
}

func (cs *c15Case) encode() error {
	e := newC15Encoder()
	e.big = cs.BigTable
	for _, f := range cs.Frames {
		if err := e.write(f); err != nil {
			return fmt.Errorf("%s: %w", f, err)
		}
	}
	cs.bytes[0] = append([]byte(nil), e.buf[0].Bytes()...)
	cs.bytes[1] = append([]byte(nil), e.buf[1].Bytes()...)
	return nil
}

// ---------------------------------------------------------------------------
// driver: one goroutine issuing Read and Write calls on the wrapped conn

type c15Driver struct {
	tape      *simrt.Tape
	res       *simwork.Result
	inner     *c15Conn
	conn      net.Conn
	sink      *c15Sink
	readDir   int
	data      [2][]byte
	pos       [2]int
	tracerAt  int // write direction: how far the tracer has seen (differs from pos after a short write)
	starts    [2][]int
	ends      [2][]int
	calls     []string
	hash      uint64
	ncalls    int
	after     func()
	callErr   error // error the current Read returns together with its data
	teardowns int   // failed Read/Write calls and Close calls so far

	faultKind string
	faultAt   int
	dead      bool
	panicked  bool
	endKind   string
	connErr   error
	connEndAt time.Duration
}

func (d *c15Driver) viol(class, format string, args ...any) {
	d.res.Violations = append(d.res.Violations, simwork.Violation{Class: class, Detail: fmt.Sprintf(format, args...)})
}

func (d *c15Driver) mix(v uint64) { d.hash = (d.hash ^ v) * 1099511628211 }

func (d *c15Driver) note(op string, n int, err error) {
	d.ncalls++
	d.mix(uint64(op[0]))
	d.mix(uint64(n))
	if len(d.calls) < 80 {
		s := fmt.Sprintf("%s%d", op, n)
		if err != nil {
			s += "!" + err.Error()
		}
		d.calls = append(d.calls, s)
	}
}

func c15StackSummary(stack []byte) string {
	var fns []string
	seenPanic := false
	for _, l := range strings.Split(string(stack), "\n") {
		if l == "" || l[0] == '\t' || strings.HasPrefix(l, "goroutine ") {
			continue
		}
		if strings.HasPrefix(l, "panic(") {
			seenPanic = true
			continue
		}
		if !seenPanic {
			continue
		}
		if i := strings.LastIndex(l, "("); i > 0 {
			l = l[:i]
		}
		fns = append(fns, l)
		if len(fns) == 4 {
			break
		}
	}
	return "at " + strings.Join(fns, " <- ")
}

func (d *c15Driver) guard(what string, fn func()) {
	defer func() {
		if r := recover(); r != nil {
			d.panicked, d.dead = true, true
			d.viol("c15/panic", "%s panicked: %v; %s", what, r, c15StackSummary(debug.Stack()))
		}
	}()
	fn()
}

func (d *c15Driver) now() time.Duration { return time.Since(d.sink.start) }

func (d *c15Driver) doRead(n int, err error) {
	extra := []int{0, 0, 7, 1024}[d.tape.Choose(4, "bufextra")]
	buf := bytes.Repeat([]byte{0xAA}, n+extra)
	d.inner.nextN, d.inner.nextErr = n, err
	d.callErr = err
	before := len(d.inner.log)
	var gn int
	var gerr error
	d.guard("Read", func() { gn, gerr = d.conn.Read(buf) })
	if d.panicked {
		return
	}
	d.note("R", n, err)
	if len(d.inner.log) != before+1 || d.inner.log[before].Op != "read" {
		d.viol("c15/transparency", "one Read on the wrapped conn made %d calls on the inner conn", len(d.inner.log)-before)
		d.dead = true
		return
	}
	c := d.inner.log[before]
	if gn != c.N || gerr != c.Err || gn < 0 || gn > len(buf) || string(buf[:gn]) != c.Data {
		d.viol("c15/transparency", "Read: caller got (%d, %v, %q), the inner conn returned (%d, %v, %q)", gn, gerr, c15Trunc(string(buf[:max(0, min(gn, len(buf)))])), c.N, c.Err, c15Trunc(c.Data))
	}
	for _, b := range buf[c.N:] {
		if b != 0xAA {
			d.viol("c15/transparency", "Read: buffer modified beyond the %d bytes read", c.N)
			break
		}
	}
	d.pos[d.readDir] += c.N
	if d.after != nil {
		d.after()
	}
}

func (d *c15Driver) doWrite(n, keep int) {
	w := 1 - d.readDir
	p := append([]byte(nil), d.data[w][d.pos[w]:d.pos[w]+n]...)
	orig := string(p)
	d.inner.wKeep, d.inner.wErr = keep, c15ErrWrite
	d.callErr = nil
	before := len(d.inner.log)
	var gn int
	var gerr error
	d.guard("Write", func() { gn, gerr = d.conn.Write(p) })
	if d.panicked {
		return
	}
	if keep >= 0 {
		d.note("W", n, c15ErrWrite)
	} else {
		d.note("W", n, nil)
	}
	if len(d.inner.log) != before+1 || d.inner.log[before].Op != "write" {
		d.viol("c15/transparency", "one Write on the wrapped conn made %d calls on the inner conn", len(d.inner.log)-before)
		d.dead = true
		return
	}
	c := d.inner.log[before]
	if c.Data != orig || gn != c.N || gerr != c.Err {
		d.viol("c15/transparency", "Write of %d bytes: caller got (%d, %v); the inner conn received %d bytes (equal=%v) and returned (%d, %v)", n, gn, gerr, len(c.Data), c.Data == orig, c.N, c.Err)
	}
	if string(p) != orig {
		d.viol("c15/transparency", "Write modified the caller's buffer")
	}
	d.tracerAt = d.pos[w] + n
	d.pos[w] += c.N
	if d.after != nil {
		d.after()
	}
}

func (d *c15Driver) endConn(kind string, err error) {
	if d.endKind == "" {
		d.endKind, d.connErr, d.connEndAt = kind, err, d.now()
		d.res.Faults[kind]++
	}
	d.teardowns++
	d.dead = true
}

func (d *c15Driver) doClose(kind string) {
	var cerr error
	if d.tape.Bool(1, 4, "close-error") {
		cerr = c15ErrClose
	}
	d.inner.closeErr = cerr
	before := len(d.inner.log)
	var gerr error
	d.guard("Close", func() { gerr = d.conn.Close() })
	if d.panicked {
		return
	}
	d.note("C", 0, cerr)
	d.teardowns++
	if len(d.inner.log) != before+1 || d.inner.log[before].Op != "close" || gerr != cerr {
		d.viol("c15/transparency", "Close: caller got %v, inner conn returned %v (%d inner calls)", gerr, cerr, len(d.inner.log)-before)
	}
	if d.endKind == "" {
		d.endKind, d.connErr, d.connEndAt = kind, nil, d.now()
		if kind != "close" {
			d.res.Faults[kind]++
		}
	}
	d.dead = true
}

// planFault draws the connection fault of the run (call it after starts/ends are set).
func (d *c15Driver) planFault() {
	w := 1 - d.readDir
	readAt := func() int {
		// often exactly at the end of a frame, so that whole final frames arrive with the error
		if e := d.ends[d.readDir]; len(e) > 0 && d.tape.Bool(1, 2, "fault-at-frame-end") {
			return e[d.tape.Choose(len(e), "fault-at-frame")]
		}
		return d.tape.Choose(len(d.data[d.readDir])+1, "fault-at")
	}
	switch d.tape.Choose(12, "fault") {
	case 6:
		d.faultKind, d.faultAt = "read-eof", readAt()
	case 7:
		d.faultKind, d.faultAt = "read-error", readAt()
	case 8:
		d.faultKind, d.faultAt = "read-error-with-data", readAt()
	case 9:
		d.faultKind, d.faultAt = "read-eof-with-data", readAt()
	case 10:
		d.faultKind, d.faultAt = "write-short", d.tape.Choose(len(d.data[w])+1, "fault-at")
	case 11:
		d.faultKind, d.faultAt = "close-early", d.tape.Choose(len(d.data[0])+len(d.data[1])+1, "fault-at")
	}
}

// chunk picks how many of the avail bytes of direction dir the next call moves.
func (d *c15Driver) chunk(dir, avail int) int {
	pos := d.pos[dir]
	fit := func(target int) int {
		if target > pos && target-pos <= avail {
			return target - pos
		}
		return avail
	}
	switch d.tape.Choose(6, "chunk-kind") {
	case 1: // exactly up to the next frame boundary
		for _, b := range d.ends[dir] {
			if b > pos {
				return fit(b)
			}
		}
	case 2: // exactly up to the end of the next frame header
		for _, s := range d.starts[dir] {
			if s+frameHeaderLen > pos {
				return fit(s + frameHeaderLen)
			}
		}
	case 3:
		return min(avail, 1+d.tape.Choose(8, "chunk-small"))
	case 4:
		return 1 + d.tape.Choose(avail, "chunk")
	case 5: // stop strictly inside a frame header
		k := 1 + d.tape.Choose(frameHeaderLen-1, "chunk-in-header")
		for _, s := range d.starts[dir] {
			if s+k > pos {
				return fit(s + k)
			}
		}
	}
	return avail
}

func (d *c15Driver) step(dir, n int) {
	if d.tape.Bool(1, 8, "pause") {
		time.Sleep([]time.Duration{700 * time.Millisecond, 1300 * time.Millisecond, 3100 * time.Millisecond}[d.tape.Choose(3, "pause-len")])
	}
	if d.faultKind == "close-early" && d.pos[0]+d.pos[1] >= d.faultAt {
		d.doClose("close-early")
		return
	}
	pos := d.pos[dir]
	if dir == d.readDir {
		hitsFault := strings.HasPrefix(d.faultKind, "read-") && pos+n >= d.faultAt && d.faultAt >= pos
		if d.tape.Bool(1, 16, "timeout") {
			if !hitsFault && d.tape.Bool(1, 2, "timeout-with-data") {
				// the bytes arrive together with a timeout error: they count, the connection goes on
				d.res.Faults["read-timeout-with-data"]++
				d.doRead(n, c15Timeout{})
				return
			}
			d.res.Faults["read-timeout"]++
			d.doRead(0, c15Timeout{})
			if d.dead {
				return
			}
		}
		if hitsFault {
			m := d.faultAt - pos
			ferr := c15ErrRead
			if strings.HasPrefix(d.faultKind, "read-eof") {
				ferr = io.EOF
			}
			if strings.HasSuffix(d.faultKind, "-with-data") {
				d.doRead(m, ferr)
			} else {
				if m > 0 {
					d.doRead(m, nil)
				}
				if !d.dead {
					d.doRead(0, ferr)
				}
			}
			d.endConn(d.faultKind, ferr)
			return
		}
		d.doRead(n, nil)
		for _, s := range d.starts[dir] {
			if s < d.pos[dir] && d.pos[dir] < s+frameHeaderLen {
				d.res.Probes["frame-header-split"]++
			}
		}
		return
	}
	if d.faultKind == "write-short" && pos+n > d.faultAt && d.faultAt >= pos {
		d.doWrite(n, d.faultAt-pos)
		d.endConn("write-short", c15ErrWrite)
		return
	}
	d.doWrite(n, -1)
	for _, s := range d.starts[dir] {
		if s < d.pos[dir] && d.pos[dir] < s+frameHeaderLen {
			d.res.Probes["frame-header-split"]++
		}
	}
}

// finish lets pending retry timers fire and closes the connection.
func (d *c15Driver) finish() {
	if d.panicked {
		return
	}
	// the peer goes away after everything was exchanged: EOF or an error on the next Read
	if !d.dead && d.tape.Bool(1, 4, "read-fault-at-end") {
		kind, ferr := "read-eof", io.EOF
		if d.tape.Bool(1, 2, "read-fault-at-end-error") {
			kind, ferr = "read-error", c15ErrRead
		}
		d.doRead(0, ferr)
		if d.panicked {
			return
		}
		d.endConn(kind, ferr)
	}
	// teardown may be triggered more than once: a failed Read/Write followed by Close
	// (at once or later), Close called twice
	closed := d.endKind == "close-early"
	if d.dead && !closed && d.tape.Bool(1, 2, "close-right-after-fault") {
		d.doClose("close")
		closed = true
	}
	time.Sleep(4 * time.Second)
	if !closed {
		d.doClose("close")
	}
	if !d.panicked && d.tape.Bool(1, 3, "close-twice") {
		d.doClose("close")
		d.res.Probes["close-twice"]++
	}
	time.Sleep(time.Second)
}

func newC15Driver(tape *simrt.Tape, res *simwork.Result, isServer bool, data [2][]byte) *c15Driver {
	d := &c15Driver{tape: tape, res: res, data: data, hash: 1469598103934665603}
	d.readDir = dirResp
	if isServer {
		d.readDir = dirReq
	}
	d.inner = &c15Conn{in: data[d.readDir], wKeep: -1}
	d.sink = &c15Sink{start: time.Now()}
	d.conn = TracingHTTP2Conn(d.inner, isServer, d.sink)
	return d
}

// ---------------------------------------------------------------------------
// reference model (frame level), written from the property and RFC 9113

type c15Evt struct {
	HasEnv bool
	Flags  byte
	EnvLen uint32
	Len    uint64
	Index  int
}

func c15FmtEvts(es []c15Evt) string {
	var parts []string
	for _, e := range es {
		if e.HasEnv {
			parts = append(parts, fmt.Sprintf("#%d{flags=%d len=%d seen=%d}", e.Index, e.Flags, e.EnvLen, e.Len))
		} else {
			parts = append(parts, fmt.Sprintf("#%d{no-prefix seen=%d}", e.Index, e.Len))
		}
	}
	return "[" + strings.Join(parts, " ") + "]"
}

func c15Trunc(s string) string {
	if len(s) > 16 {
		return s[:16] + "..."
	}
	return s
}

// c15Envelopes lists the message events of a (possibly cut) body; optional is a
// zero-length partial event the statement leaves open (cut right after a prefix).
func c15Envelopes(body []byte) (evts []c15Evt, optional *c15Evt) {
	pos, idx := 0, 0
	for pos < len(body) {
		if len(body)-pos < 5 {
			return append(evts, c15Evt{Len: uint64(len(body) - pos), Index: idx}), nil
		}
		flags := body[pos]
		l := binary.BigEndian.Uint32(body[pos+1 : pos+5])
		have := len(body) - pos - 5
		if uint32(have) < l {
			if have == 0 {
				return evts, &c15Evt{HasEnv: true, Flags: flags, EnvLen: l, Index: idx}
			}
			return append(evts, c15Evt{HasEnv: true, Flags: flags, EnvLen: l, Len: uint64(have), Index: idx}), nil
		}
		evts = append(evts, c15Evt{HasEnv: true, Flags: flags, EnvLen: l, Len: uint64(l), Index: idx})
		idx++
		pos += 5 + int(l)
	}
	return evts, nil
}

type c15Exp struct {
	started        bool
	unchecked      bool // the statement leaves this stream's outcome open
	startAt        time.Duration
	startIdx       int
	reqBody        []byte
	respBody       []byte
	reqEnded       bool
	gotResp        bool
	respHdr        []c15Hdr
	trailers       []c15Hdr
	final          string // "", end, client-rst, server-rst, goaway, conn
	code           http2.ErrCode
	finalAt        time.Duration
	finalIdx       int
	terminals      int
	clientRST      bool
	goAwaysAtStart int // GOAWAY frames seen before the request HEADERS
	cutByGoAway    int // ordinal of the GOAWAY that ended the stream (0: none)
}

type c15End struct {
	at        time.Duration
	err       error // nil: closed
	teardowns int   // how often the end of the connection was signalled to the tracer
}

// c15ModelStream walks the completely delivered frames in completion order.
func c15ModelStream(s *c15Stream, seq []*c15Frame, end *c15End, skipFirst bool) *c15Exp {
	e := &c15Exp{}
	// RFC 9113 6.8: the last GOAWAY's last-stream-id is the limit in force
	goAway, lastID, nGoAway := false, uint32(0), 0
	finish := func(kind string, code http2.ErrCode, f *c15Frame) bool {
		e.terminals++
		if kind == "client-rst" {
			e.clientRST = true
		}
		if e.final != "" {
			return false
		}
		if skipFirst && e.terminals == 1 {
			return false
		}
		e.final, e.code, e.finalAt, e.finalIdx = kind, code, f.doneAt, f.gidx
		return true
	}
	for _, f := range seq {
		if f.Kind == fkGoAway {
			goAway, lastID = true, f.LastID
			nGoAway++
			if e.started && s.ID > f.LastID {
				if finish("goaway", f.Code, f) {
					e.cutByGoAway = nGoAway
				}
			}
			continue
		}
		if f.Stream != s.Idx {
			continue
		}
		live := e.final == ""
		switch {
		case f.Kind == fkHeaders && f.Role == "request":
			e.goAwaysAtStart = nGoAway
			if goAway && s.ID > lastID {
				e.unchecked = true // a stream opened after GOAWAY above its last id
				return e
			}
			e.started, e.startAt, e.startIdx = true, f.doneAt, f.gidx
			e.reqEnded = f.EndStream
		case f.Kind == fkData && f.Dir == dirReq:
			if live && !e.reqEnded {
				e.reqBody = append(e.reqBody, f.Data...)
				e.reqEnded = f.EndStream
			}
		case f.Kind == fkRST && f.Dir == dirReq:
			finish("client-rst", f.Code, f)
		case f.Kind == fkHeaders && f.Role == "response":
			if live {
				e.gotResp, e.respHdr = true, f.Fields
			}
			if f.EndStream {
				finish("end", 0, f)
			}
		case f.Kind == fkData && f.Dir == dirResp:
			if live {
				e.respBody = append(e.respBody, f.Data...)
			}
			if f.EndStream {
				finish("end", 0, f)
			}
		case f.Kind == fkHeaders && f.Role == "trailers":
			if live {
				e.trailers = f.Fields
			}
			finish("end", 0, f)
		case f.Kind == fkRST && f.Dir == dirResp:
			finish("server-rst", f.Code, f)
		}
	}
	if e.started && e.final == "" && end != nil {
		e.final, e.finalAt, e.finalIdx = "conn", end.at, 1<<30
	}
	return e
}

func c15HeaderMap(fields []c15Hdr) http.Header {
	h := http.Header{}
	for _, f := range fields {
		if strings.HasPrefix(f.Name, ":") {
			continue
		}
		k := textproto.CanonicalMIMEHeaderKey(f.Name)
		h[k] = append(h[k], f.Value)
	}
	return h
}

func c15SameHeader(got http.Header, want http.Header) bool {
	if len(got) == 0 && len(want) == 0 {
		return true
	}
	return reflect.DeepEqual(got, want)
}

func c15ToEvt(env *Envelope, l uint64, idx int) c15Evt {
	d := c15Evt{Len: l, Index: idx}
	if env != nil {
		d.HasEnv, d.Flags, d.EnvLen = true, env.Flags, env.Len
	}
	return d
}

// lenient: the trailing partial event is not required
func c15MatchEvts(got, want []c15Evt, optional *c15Evt, lenient bool) bool {
	if n := len(want); lenient && n > 0 && len(got) == n-1 && (!want[n-1].HasEnv || want[n-1].Len < uint64(want[n-1].EnvLen)) {
		want = want[:n-1]
	}
	if optional != nil && len(got) == len(want)+1 {
		want = append(append([]c15Evt(nil), want...), *optional)
	}
	if len(got) != len(want) {
		return false
	}
	for i := range got {
		if got[i] != want[i] {
			return false
		}
	}
	return true
}

// c15PlainResponse: the response's content type is that of no enveloped protocol.
func c15PlainResponse(hdr []c15Hdr) bool {
	for _, h := range hdr {
		if strings.EqualFold(h.Name, "content-type") {
			ct := strings.ToLower(h.Value)
			return !strings.HasPrefix(ct, "application/grpc") && !strings.HasPrefix(ct, "application/connect")
		}
	}
	return false
}

// c15Compare checks one delivered trace against the expectation; "" = equal.
func c15Compare(s *c15Stream, e *c15Exp, d c15Delivery, end *c15End) (class, detail string) {
	tr := d.tr
	if class, detail = c15CompareRequest(s, d); class != "" {
		return class, detail
	}
	return c15CompareRest(s, e, tr, end)
}

// c15CompareRequest: the trace belongs to this stream (name, request line, headers).
func c15CompareRequest(s *c15Stream, d c15Delivery) (class, detail string) {
	tr := d.tr
	if tr.TestName != s.Name {
		return "c15/request", fmt.Sprintf("trace carries test name %q, the stream's is %q", tr.TestName, s.Name)
	}
	if tr.Request == nil || tr.Request.URL == nil {
		return "c15/request", "trace without request"
	}
	path, query, _ := strings.Cut(s.Path, "?")
	u := tr.Request.URL
	if tr.Request.Method != "POST" || u.Path != path || u.RawQuery != query || u.Host != s.Authority || u.Scheme != s.Scheme {
		return "c15/request", fmt.Sprintf("request line %s %s://%s%s?%s, generated POST %s://%s%s", tr.Request.Method, u.Scheme, u.Host, u.Path, u.RawQuery, s.Scheme, s.Authority, s.Path)
	}
	if want := c15HeaderMap(s.ReqFields); !c15SameHeader(tr.Request.Header, want) {
		return "c15/request", fmt.Sprintf("request headers %v, generated %v", tr.Request.Header, want)
	}
	return "", ""
}

func c15CompareRest(s *c15Stream, e *c15Exp, tr Trace, end *c15End) (class, detail string) {
	if len(tr.Events) == 0 {
		return "c15/events", "trace without events"
	}
	if _, ok := tr.Events[0].(*RequestStart); !ok {
		return "c15/events", fmt.Sprintf("first event is %s", c15EvString(tr.Events[0]))
	}
	var reqData, respData []c15Evt
	var names []string
	respStarts, reqEndsNil := 0, 0
	for i, ev := range tr.Events {
		names = append(names, c15EvString(ev))
		last := i == len(tr.Events)-1
		finishing := false
		switch x := ev.(type) {
		case *RequestStart:
			if i != 0 {
				return "c15/events", "second RequestStart event"
			}
		case *RequestBodyData:
			if reqEndsNil > 0 {
				return "c15/events", "request message after the request's end"
			}
			reqData = append(reqData, c15ToEvt(x.Envelope, x.Len, x.MessageIndex))
		case *RequestBodyEnd:
			if x.Err == nil {
				reqEndsNil++
			} else {
				finishing = true
			}
		case *ResponseStart:
			respStarts++
			if len(respData) > 0 {
				return "c15/events", "response message before the response start"
			}
		case *ResponseBodyData:
			if respStarts == 0 {
				return "c15/events", "response message without response start"
			}
			respData = append(respData, c15ToEvt(x.Envelope, x.Len, x.MessageIndex))
		case *ResponseBodyEndStream:
		case *ResponseBodyEnd, *ResponseError, *RequestCanceled:
			finishing = true
		}
		if finishing != last {
			return "c15/events", fmt.Sprintf("finishing event must be the last one and only that: %v", names)
		}
	}
	// A trailing partial message is demanded where the direction's own END_STREAM
	// cut it; after resets, GOAWAY and connection faults it is accepted, not required.
	want, opt := c15Envelopes(e.reqBody)
	if !c15MatchEvts(reqData, want, opt, e.final != "end" && !e.reqEnded) {
		return "c15/request-messages", fmt.Sprintf("request messages %s, want %s (%d body bytes seen before the stream ended)", c15FmtEvts(reqData), c15FmtEvts(want), len(e.reqBody))
	}
	want, opt = c15Envelopes(e.respBody)
	if c15PlainResponse(e.respHdr) {
		// not a stream protocol: the body is one run of bytes, reported once
		want, opt = nil, nil
		if len(e.respBody) > 0 {
			want = []c15Evt{{Len: uint64(len(e.respBody))}}
		}
	}
	if !c15MatchEvts(respData, want, opt, e.final != "end") {
		return "c15/response-messages", fmt.Sprintf("response messages %s, want %s (%d body bytes seen before the stream ended)", c15FmtEvts(respData), c15FmtEvts(want), len(e.respBody))
	}
	wantReqEnd := 0
	if e.reqEnded {
		wantReqEnd = 1
	}
	if reqEndsNil != wantReqEnd {
		return "c15/request-end", fmt.Sprintf("%d clean request-end events, want %d: %v", reqEndsNil, wantReqEnd, names)
	}
	if e.gotResp {
		if respStarts != 1 || tr.Response == nil {
			return "c15/response", fmt.Sprintf("response headers were delivered, trace has %d ResponseStart events (response nil=%v)", respStarts, tr.Response == nil)
		}
		if tr.Response.StatusCode != s.Status {
			return "c15/response", fmt.Sprintf("status %d, generated %d", tr.Response.StatusCode, s.Status)
		}
		if w := c15HeaderMap(e.respHdr); !c15SameHeader(tr.Response.Header, w) {
			return "c15/response", fmt.Sprintf("response headers %v, generated %v", tr.Response.Header, w)
		}
		if w := c15HeaderMap(e.trailers); !c15SameHeader(tr.Response.Trailer, w) {
			return "c15/trailers", fmt.Sprintf("response trailers %v, generated %v", tr.Response.Trailer, w)
		}
	} else if respStarts != 0 || tr.Response != nil {
		return "c15/response", "trace has a response although no response headers were delivered"
	}
	lastEv := tr.Events[len(tr.Events)-1]
	var lastErr error
	switch x := lastEv.(type) {
	case *ResponseBodyEnd:
		lastErr = x.Err
	case *RequestBodyEnd:
		lastErr = x.Err
	case *ResponseError:
		lastErr = x.Err
	case *RequestCanceled:
		lastErr = tr.Err
	default:
		return "c15/end", fmt.Sprintf("last event %s is not an end event", c15EvString(lastEv))
	}
	switch e.final {
	case "end":
		if _, ok := lastEv.(*ResponseBodyEnd); !ok || lastErr != nil || tr.Err != nil {
			return "c15/end", fmt.Sprintf("stream ended with END_STREAM; last event %s, trace error %v", c15EvString(lastEv), tr.Err)
		}
	case "client-rst", "server-rst", "goaway":
		if lastErr == nil || tr.Err == nil || !strings.Contains(tr.Err.Error(), e.code.String()) || !strings.Contains(lastErr.Error(), e.code.String()) {
			return "c15/end", fmt.Sprintf("stream ended by %s %s; last event %s, trace error %v", e.final, e.code, c15EvString(lastEv), tr.Err)
		}
	case "conn":
		ok := lastErr != nil && tr.Err != nil
		if ok && end.err != nil {
			ok = errors.Is(tr.Err, end.err) || strings.Contains(tr.Err.Error(), end.err.Error())
		}
		if !ok {
			return "c15/end", fmt.Sprintf("connection ended with %v; last event %s, trace error %v", end.err, c15EvString(lastEv), tr.Err)
		}
	}
	return "", ""
}

type c15Verdict struct {
	viols  []simwork.Violation
	probes map[string]int
	cover  []string
}

func (v *c15Verdict) viol(class, format string, args ...any) {
	v.viols = append(v.viols, simwork.Violation{Class: class, Detail: fmt.Sprintf(format, args...)})
}

// c15Judge compares what the collector received with the model, given the
// frames that were completely delivered (a prefix of the global order).
func c15Judge(cs *c15Case, seq []*c15Frame, end *c15End, got []c15Delivery) *c15Verdict {
	v := &c15Verdict{probes: map[string]int{}}
	byStream := map[int][]c15Delivery{}
	sorted := append([]c15Delivery(nil), got...)
	marker := func(d c15Delivery) string {
		if d.tr.Request == nil {
			return ""
		}
		return d.tr.Request.Header.Get("X-Attempt")
	}
	sort.SliceStable(sorted, func(i, j int) bool {
		if sorted[i].at != sorted[j].at {
			return sorted[i].at < sorted[j].at
		}
		return marker(sorted[i]) < marker(sorted[j])
	})
	for _, d := range sorted {
		idx := -1
		for _, s := range cs.Streams {
			if s.Marker == marker(d) {
				idx = s.Idx
			}
		}
		if idx < 0 {
			v.viol("c15/unknown-trace", "a trace (test name %q, marker %q) belongs to no generated stream", d.tr.TestName, marker(d))
			continue
		}
		byStream[idx] = append(byStream[idx], d)
	}
	exps := make([]*c15Exp, len(cs.Streams))
	alts := make([]*c15Exp, len(cs.Streams))
	for i, s := range cs.Streams {
		exps[i] = c15ModelStream(s, seq, end, false)
		if exps[i].clientRST && exps[i].terminals >= 2 {
			alts[i] = c15ModelStream(s, seq, end, true)
			v.probes["reset-races-with-other-end"]++
		}
	}
	// delivery model: refused streams are held back for a retry
	want := make([]int, len(cs.Streams)) // 1 exactly one, 0 none, -1 open
	deadline := make([]time.Duration, len(cs.Streams))
	type item struct {
		idx   int
		start bool
		s     int
	}
	var items []item
	var goAways []*c15Frame
	for _, f := range seq {
		if f.Kind == fkGoAway {
			goAways = append(goAways, f)
		}
	}
	if len(goAways) >= 2 {
		v.probes["goaway-twice"]++
		if goAways[1].LastID < goAways[0].LastID {
			v.probes["goaway-lowered"]++
		}
	}
	for i, s := range cs.Streams {
		e := exps[i]
		if s.Named && len(goAways) >= 2 && e.goAwaysAtStart == 1 && (e.started || e.unchecked) {
			v.probes["stream-between-goaways"]++
		}
		if !s.Named || !e.started || e.unchecked {
			if e.unchecked {
				want[i] = -1
				v.probes["stream-after-goaway"]++
				if s.Named && e.goAwaysAtStart >= 2 {
					v.probes["stream-opened-above-final-limit"]++
				}
			}
			continue
		}
		if e.cutByGoAway >= 2 {
			v.probes["stream-above-final-limit"]++
		}
		if e.goAwaysAtStart >= 1 && e.final != "goaway" && e.final != "conn" && e.final != "" {
			v.probes["stream-below-limit-after-goaway"]++
		}
		items = append(items, item{e.startIdx, true, i})
		if e.final != "" {
			items = append(items, item{e.finalIdx, false, i})
			want[i] = 1
			deadline[i] = end.at
			if e.final == "goaway" && e.finalAt+retryWait < deadline[i] {
				// completed when the limiting GOAWAY is seen; delivery may be held
				// back for a retry like a refusal, but not until the socket closes
				deadline[i] = e.finalAt + retryWait
			}
		} else {
			want[i] = 0 // still open (only when the connection did not end; not reached)
		}
	}
	openName := map[string]bool{}
	for i, s := range cs.Streams {
		if s.Named && exps[i].unchecked {
			openName[s.Name] = true // e.g. a "retry" opened on a connection that is going away
		}
	}
	sort.Slice(items, func(i, j int) bool {
		if items[i].idx != items[j].idx {
			return items[i].idx < items[j].idx
		}
		return items[i].start && !items[j].start
	})
	parked := map[string]int{}
	refusals := map[string][]int{} // per test name: the refused attempts in order
	for _, it := range items {
		s, e := cs.Streams[it.s], exps[it.s]
		if it.start {
			if p, ok := parked[s.Name]; ok {
				dt := e.startAt - exps[p].finalAt
				if r := refusals[s.Name]; len(r) >= 2 && dt < retryWait && e.startAt-exps[r[0]].finalAt > retryWait {
					// a timer left over from the first refusal would fire into the second wait
					v.probes["retry-after-first-window-inside-second"]++
				}
				switch {
				case dt < retryWait:
					want[p] = 0
					v.probes["refused-retried-within-3s"]++
				case dt == retryWait:
					want[p], want[it.s] = -1, -1
				default:
					v.probes["refused-retried-after-3s"]++
				}
				delete(parked, s.Name)
			}
			continue
		}
		if e.final == "server-rst" && e.code == http2.ErrCodeRefusedStream {
			parked[s.Name] = it.s
			refusals[s.Name] = append(refusals[s.Name], it.s)
			if len(refusals[s.Name]) == 2 {
				v.probes["refused-twice"]++
			}
			if e.finalAt+retryWait < deadline[it.s] {
				deadline[it.s] = e.finalAt + retryWait
			}
		}
	}
	for _, p := range parked {
		v.probes["refused-not-retried"]++
		if len(refusals[cs.Streams[p].Name]) >= 2 {
			v.probes["refused-twice-no-further-attempt"]++
		}
		if exps[p].finalAt+retryWait > end.at && end.teardowns >= 2 {
			v.probes["parked-trace-teardown-twice"]++ // held back when the connection ended, then torn down again
		}
	}
	for i, s := range cs.Streams {
		if e := exps[i]; s.Named && want[i] == 1 && e.final == "goaway" && e.code == http2.ErrCodeNo && e.finalAt+retryWait > end.at && end.teardowns >= 2 {
			v.probes["parked-trace-teardown-twice"]++
		}
	}
	for i, s := range cs.Streams {
		e, ds := exps[i], byStream[i]
		desc := fmt.Sprintf("stream %d (%s, request %s, response %s %s)", s.ID, s.Marker, s.ReqEnd, s.RespKind, s.Code)
		if !s.Named {
			if len(ds) > 0 {
				v.viol("c15/unnamed-traced", "%s carries no test name but %d trace(s) were delivered", desc, len(ds))
			}
			continue
		}
		if want[i] == -1 || openName[s.Name] {
			// outcome open (see the assumptions); still: never twice, never another stream's data
			if len(ds) > 1 {
				v.viol("c15/trace-duplicate", "%s: %d traces delivered", desc, len(ds))
			} else if len(ds) == 1 {
				if class, detail := c15CompareRequest(s, ds[0]); class != "" {
					v.viol(class, "%s: %s", desc, detail)
				} else if e.unchecked && (ds[0].tr.Response != nil || ds[0].tr.Err == nil) {
					v.viol("c15/end", "%s was opened above the GOAWAY limit in force and never answered, but its trace has a response or a clean end (error %v)", desc, ds[0].tr.Err)
				}
			}
			continue
		}
		if len(ds) > 1 {
			v.viol("c15/trace-duplicate", "%s: %d traces delivered", desc, len(ds))
			continue
		}
		if want[i] == 0 {
			if len(ds) > 0 {
				why := "was never completely opened"
				if e.started {
					why = "was refused and retried within 3 s"
				}
				v.viol("c15/trace-unexpected", "%s %s, but a trace was delivered at %s (error %v)", desc, why, ds[0].at, ds[0].tr.Err)
			}
			continue
		}
		if len(ds) == 0 {
			v.viol("c15/trace-missing", "%s ended (%s %s at %s) but no trace was delivered by the end of the run (connection ended at %s)", desc, e.final, e.code, e.finalAt, end.at)
			continue
		}
		if ds[0].at < e.finalAt {
			v.viol("c15/trace-early", "%s ended (%s %s) at %s, but its trace was delivered already at %s", desc, e.final, e.code, e.finalAt, ds[0].at)
		}
		if ds[0].at > deadline[i] {
			v.viol("c15/trace-late", "%s ended (%s %s) at %s, its trace was delivered at %s, later than %s", desc, e.final, e.code, e.finalAt, ds[0].at, deadline[i])
		}
		class, detail := c15Compare(s, e, ds[0], end)
		if class != "" && alts[i] != nil {
			if c2, _ := c15Compare(s, alts[i], ds[0], end); c2 == "" {
				class = ""
			}
		}
		if class != "" {
			v.viol(class, "%s: %s", desc, detail)
		}
		if _, opt := c15Envelopes(e.reqBody); opt != nil || len(e.reqBody) > 0 && !e.reqEnded {
			v.probes["partial-message"]++
		}
		v.cover = append(v.cover, fmt.Sprintf("server=%v req=%s resp=%s final=%s retry=%v", cs.IsServer, s.ReqEnd, s.RespKind, e.final, s.RetryOf >= 0))
		v.probes["final:"+e.final]++
	}
	return v
}

func c15EvString(e Event) string {
	switch x := e.(type) {
	case *RequestStart:
		return "RequestStart"
	case *RequestBodyData:
		return fmt.Sprintf("RequestBodyData{%d,%d}", x.MessageIndex, x.Len)
	case *RequestBodyEnd:
		return fmt.Sprintf("RequestBodyEnd{%v}", x.Err)
	case *ResponseStart:
		return "ResponseStart"
	case *ResponseError:
		return fmt.Sprintf("ResponseError{%v}", x.Err)
	case *ResponseBodyData:
		return fmt.Sprintf("ResponseBodyData{%d,%d}", x.MessageIndex, x.Len)
	case *ResponseBodyEndStream:
		return "ResponseBodyEndStream"
	case *ResponseBodyEnd:
		return fmt.Sprintf("ResponseBodyEnd{%v}", x.Err)
	case *RequestCanceled:
		return "RequestCanceled"
	}
	return fmt.Sprintf("%T", e)
}

// ---------------------------------------------------------------------------
// scenario c15-wellformed

func c15WellformedRun(t *testing.T, tape *simrt.Tape, o simwork.Opts) *simwork.Result {
	res := &simwork.Result{Faults: map[string]int{}, Probes: map[string]int{}}
	simrt.Bump()
	p := simwork.Bubble(t, func(t *testing.T) { c15WellformedBody(tape, o, res) })
	if p != nil {
		res.Violations = append(res.Violations, simwork.Violation{Class: "c15/panic", Detail: "outside Read/Write/Close: " + fmt.Sprint(p)})
	}
	return res
}

func c15WellformedBody(tape *simrt.Tape, o simwork.Opts, res *simwork.Result) {
	cs := c15Generate(tape, o.Tier, false)
	sample := &c15Sample{Scenario: "c15-wellformed", Role: "client"}
	if cs.IsServer {
		sample.Role = "server"
	}
	res.Sample = sample
	for _, s := range cs.Streams {
		sd := c15StreamDesc{ID: s.ID, Name: s.Name, RetryOf: s.RetryOf, ReqEnd: s.ReqEnd, ReqBody: len(s.ReqBody), Resp: s.RespKind, RespBody: len(s.RespBody), Early: s.Early, Ignored: s.Ignored}
		if strings.HasPrefix(s.RespKind, "rst") {
			sd.Code = s.Code.String()
		}
		sample.Streams = append(sample.Streams, sd)
	}
	for _, f := range cs.Frames {
		sample.Order = append(sample.Order, f.String())
	}
	if err := cs.encode(); err != nil {
		res.Invalid = append(res.Invalid, "generator could not encode the exchange: "+err.Error())
		return
	}
	sample.Bytes = [2]int{len(cs.bytes[0]), len(cs.bytes[1])}
	d := newC15Driver(tape, res, cs.IsServer, cs.bytes)
	var byDir [2][]*c15Frame
	for _, f := range cs.Frames {
		byDir[f.Dir] = append(byDir[f.Dir], f)
		d.starts[f.Dir] = append(d.starts[f.Dir], f.phys...)
		d.ends[f.Dir] = append(d.ends[f.Dir], f.phys...)
		d.mix(uint64(f.Dir)<<8 | uint64(f.Kind))
		d.mix(uint64(f.Stream + 1))
		if f.Kind == fkHeaders && f.Parts > 1 {
			res.Probes["continuation"]++
		}
	}
	for dir := 0; dir < 2; dir++ {
		d.ends[dir] = append(d.ends[dir], len(cs.bytes[dir]))
		sort.Ints(d.ends[dir])
	}
	d.planFault()
	nDone := 0 // completion order equals the global order: the done frames are a prefix
	annSeen, nSettings, asymSeen := [2]int{4096, 4096}, [2]int{}, false
	d.after = func() {
		for nDone < len(cs.Frames) && d.pos[cs.Frames[nDone].Dir] >= cs.Frames[nDone].end {
			cs.Frames[nDone].doneAt = d.now()
			if f := cs.Frames[nDone]; f.bigFrame {
				res.Probes["frame-above-16384"]++
				if f.Kind == fkHeaders {
					res.Probes["headers-frame-above-16384"]++
				}
			}
			if f := cs.Frames[nDone]; f.Kind == fkSettings {
				nSettings[f.Dir]++
				if f.TableAnn > 0 {
					annSeen[f.Dir] = f.TableAnn - 1
				}
				if !asymSeen && nSettings[0] > 0 && nSettings[1] > 0 && annSeen[0] != annSeen[1] {
					asymSeen = true
					res.Probes["header-table-size-asymmetric"]++
				}
			}
			if f := cs.Frames[nDone]; f.Kind == fkHeaders && f.hpackUpdate && annSeen[f.Dir] <= 4096 {
				// the sender uses a large table although its own decoder table is small
				res.Probes["large-table-one-direction-only"]++
			}
			if f := cs.Frames[nDone]; f.Kind == fkSettings && f.MaxFrame > 0 {
				res.Probes["settings-max-frame-size-raised"]++
			}
			if f := cs.Frames[nDone]; f.Kind == fkHeaders {
				if f.hpackUpdate {
					res.Probes["hpack-table-size-update"]++
				}
				if f.hpackBeyond {
					res.Probes["hpack-index-beyond-4096"]++
				}
				if f.hpackShrunk {
					res.Probes["hpack-table-shrunk"]++
				}
			}
			if f := cs.Frames[nDone]; d.callErr != nil && f.Dir == d.readDir && (f.EndStream || f.Kind == fkRST || f.Kind == fkGoAway) {
				res.Probes["stream-end-delivered-with-error"]++
				if _, isTimeout := d.callErr.(c15Timeout); isTimeout {
					res.Probes["stream-end-delivered-with-timeout"]++
				}
			}
			nDone++
		}
	}
	limit := func(dir int) int {
		otherNext := 1 << 30
		for _, f := range byDir[1-dir] {
			if d.pos[1-dir] < f.end {
				otherNext = f.gidx
				break
			}
		}
		for _, f := range byDir[dir] {
			if d.pos[dir] < f.end && (f.gidx > otherNext || f.Gap > 0 && !f.gapDone && f.gidx != nDone) {
				return f.end - 1
			}
		}
		return len(cs.bytes[dir])
	}
	for !d.dead {
		if nDone < len(cs.Frames) && cs.Frames[nDone].Gap > 0 && !cs.Frames[nDone].gapDone {
			// the next frame to complete was planned to come a while after the previous one
			cs.Frames[nDone].gapDone = true
			time.Sleep(cs.Frames[nDone].Gap)
		}
		var sides, avail []int
		for dir := 0; dir < 2; dir++ {
			if a := limit(dir) - d.pos[dir]; a > 0 {
				sides, avail = append(sides, dir), append(avail, a)
			}
		}
		if len(sides) == 0 {
			break
		}
		k := tape.Choose(len(sides), "side")
		d.step(sides[k], d.chunk(sides[k], avail[k]))
	}
	if !d.dead && nDone != len(cs.Frames) {
		res.Invalid = append(res.Invalid, "delivery stalled before all frames were delivered")
		return
	}
	// what the tracer may have seen of a failed short write
	nSeen := nDone
	if d.endKind == "write-short" {
		w := 1 - d.readDir
		for nSeen < len(cs.Frames) && cs.Frames[nSeen].Dir == w && cs.Frames[nSeen].end <= d.tracerAt {
			cs.Frames[nSeen].doneAt = d.connEndAt
			nSeen++
		}
	}
	d.finish()
	sample.Calls, sample.Fault = d.calls, d.endKind
	res.End = "done"
	if d.endKind != "close" && d.endKind != "" {
		res.End = d.endKind
	}
	res.LogHash = d.hash
	res.Nontrivial = d.ncalls > 3
	res.SimTime = d.now()
	if d.panicked {
		res.End = "panic"
		return
	}
	end := &c15End{at: d.connEndAt, err: d.connErr, teardowns: d.teardowns}
	d.sink.mu.Lock()
	got := append([]c15Delivery(nil), d.sink.got...)
	d.sink.mu.Unlock()
	v := c15Judge(cs, cs.Frames[:nSeen], end, got)
	if len(v.viols) > 0 && nSeen != nDone {
		if v2 := c15Judge(cs, cs.Frames[:nDone], end, got); len(v2.viols) == 0 {
			v = v2
		}
	}
	res.Violations = append(res.Violations, v.viols...)
	for k, n := range v.probes {
		res.Probes[k] += n
	}
	res.Cover = append(res.Cover, v.cover...)
}

// ---------------------------------------------------------------------------
// scenario c15-bytes: arbitrary input, transparency and no panic

func c15BytesRun(t *testing.T, tape *simrt.Tape, o simwork.Opts) *simwork.Result {
	res := &simwork.Result{Faults: map[string]int{}, Probes: map[string]int{}}
	simrt.Bump()
	p := simwork.Bubble(t, func(t *testing.T) { c15BytesBody(tape, o, res) })
	if p != nil {
		res.Violations = append(res.Violations, simwork.Violation{Class: "c15/panic", Detail: "outside Read/Write/Close: " + fmt.Sprint(p)})
	}
	return res
}

// c15Soup draws syntactically valid frames in an arbitrary order.
func c15Soup(tape *simrt.Tape) []*c15Frame {
	frames := []*c15Frame{{Dir: dirReq, Kind: fkPreface, Stream: -1}, {Dir: dirReq, Kind: fkSettings, Stream: -1}}
	n := 2 + tape.Choose(14, "soup-n")
	for i := 0; i < n; i++ {
		f := &c15Frame{Dir: tape.Choose(2, "soup-dir"), Stream: -1, Parts: 1, TableSize: -1}
		f.SID = []uint32{1, 1, 3, 5, 0, 2}[tape.Choose(6, "soup-sid")]
		f.EndStream = tape.Bool(1, 3, "soup-es")
		named := !tape.Bool(1, 3, "soup-unnamed")
		switch tape.Choose(12, "soup-kind") {
		case 0, 1:
			f.Kind, f.Role = fkHeaders, "request"
			f.Fields = []c15Hdr{{":method", "POST"}, {":scheme", "http"}, {":authority", "h"}, {":path", "/s/M"}, {"content-type", "application/grpc"}}
			if named {
				f.Fields = append(f.Fields, c15Hdr{"x-test-case-name", fmt.Sprintf("Soup/%d", f.SID)})
			}
		case 2:
			f.Kind, f.Role = fkHeaders, "response"
			f.Fields = []c15Hdr{{":status", []string{"200", "abc", ""}[tape.Choose(3, "soup-status")]}, {"content-type", []string{"application/grpc", "application/json", "application/connect+json"}[tape.Choose(3, "soup-ct")]}}
		case 3:
			f.Kind, f.Role = fkHeaders, "trailers"
			f.Fields = []c15Hdr{{"grpc-status", "0"}}
		case 4, 5:
			f.Kind = fkData
			f.Data = [][]byte{nil, {0, 0, 0, 0, 2, 'h', 'i'}, {0, 0, 0}, {2, 0, 0, 0, 9, 'x'}, {0x80, 0, 0, 0, 1, 'y', 0, 0}}[tape.Choose(5, "soup-data")]
		case 6:
			f.Kind, f.EndStream = fkRST, false
			f.Code = []http2.ErrCode{http2.ErrCodeCancel, http2.ErrCodeRefusedStream, http2.ErrCodeNo}[tape.Choose(3, "soup-code")]
		case 7:
			f.Kind, f.EndStream = fkGoAway, false
			f.LastID = []uint32{0, 1, 3, 1<<31 - 1}[tape.Choose(4, "soup-last")]
			f.Code = []http2.ErrCode{http2.ErrCodeNo, http2.ErrCodeProtocol}[tape.Choose(2, "soup-gcode")]
		case 8:
			f.Kind, f.EndStream = []int{fkSettings, fkSettingsAck, fkPing, fkWindowUpdate}[tape.Choose(4, "soup-conn")], false
		case 9: // PRIORITY
			f.Kind, f.RawType, f.Data, f.EndStream = fkRaw, 2, []byte{0, 0, 0, 0, 7}, false
		case 10: // an unknown frame type, or a lone CONTINUATION
			f.Kind, f.RawType, f.Data, f.EndStream = fkRaw, 0xfa, []byte("??"), false
			if c15GenContinuation && tape.Bool(1, 2, "soup-cont") {
				f.RawType, f.RawFlags = 9, 4
			}
		case 11: // flags the frame type does not define
			f.Kind, f.RawType, f.RawFlags, f.EndStream = fkRaw, byte(tape.Choose(10, "soup-type")), byte(tape.Choose(256, "soup-flags")), false
			f.Data = make([]byte, tape.Choose(12, "soup-rawlen"))
		}
		if f.Kind == fkHeaders && c15GenContinuation && tape.Bool(1, 8, "soup-split") {
			f.Parts, f.CutPm = 2, []int{500}
		}
		frames = append(frames, f)
	}
	return frames
}

// c15KnownShapes reports whether the byte streams contain (a) a second
// response-direction HEADERS on a stream whose request HEADERS carry no test name,
// (b) non-empty response-direction DATA on a stream before its first
// response-direction HEADERS. It only serves to keep inputs that hit reported
// defects out of the run; it is not part of any oracle.
func c15KnownShapes(data [2][]byte) (unnamedTrailers, dataBeforeHeaders bool) {
	unnamed := map[uint32]bool{}
	respHeaders := map[uint32]int{}
	for _, dir := range []int{dirReq, dirResp} {
		b := data[dir]
		if dir == dirReq {
			if len(b) < len(clientPreface) || string(b[:len(clientPreface)]) != clientPreface {
				continue
			}
			b = b[len(clientPreface):]
		}
		dec := hpack.NewDecoder(1<<32-1, nil)
		for len(b) >= frameHeaderLen {
			l := int(b[0])<<16 | int(b[1])<<8 | int(b[2])
			if len(b) < frameHeaderLen+l {
				break
			}
			fr := http2.NewFramer(io.Discard, bytes.NewReader(b[:frameHeaderLen+l]))
			fr.ReadMetaHeaders = dec
			f, err := fr.ReadFrame()
			if err != nil {
				break
			}
			b = b[frameHeaderLen+l:]
			switch x := f.(type) {
			case *http2.MetaHeadersFrame:
				if dir == dirReq {
					named := false
					for _, hf := range x.Fields {
						if strings.EqualFold(hf.Name, "x-test-case-name") && hf.Value != "" {
							named = true
						}
					}
					if !named {
						unnamed[x.StreamID] = true
					}
				} else {
					respHeaders[x.StreamID]++
					if respHeaders[x.StreamID] >= 2 && unnamed[x.StreamID] {
						unnamedTrailers = true
					}
				}
			case *http2.DataFrame:
				if dir == dirResp && len(x.Data()) > 0 && respHeaders[x.StreamID] == 0 {
					dataBeforeHeaders = true
				}
			}
		}
	}
	return unnamedTrailers, dataBeforeHeaders
}

func c15BytesBody(tape *simrt.Tape, o simwork.Opts, res *simwork.Result) {
	sample := &c15Sample{Scenario: "c15-bytes"}
	res.Sample = sample
	isServer := tape.Bool(1, 2, "is-server")
	sample.Role = map[bool]string{true: "server", false: "client"}[isServer]
	var pieces [2][][]byte // per direction: preface and physical frames
	mode := tape.Choose(3, "mode")
	sample.Mode = []string{"valid-exchange-mutated", "frame-soup", "random-bytes"}[mode]
	switch mode {
	case 0, 1:
		var frames []*c15Frame
		e := newC15Encoder()
		if mode == 0 {
			cs := c15Generate(tape, o.Tier, true)
			frames, e.big = cs.Frames, cs.BigTable
		} else {
			frames = c15Soup(tape)
		}
		for _, f := range frames {
			if err := e.write(f); err != nil {
				continue // a frame the Framer refuses to write is simply left out
			}
			if len(sample.Order) < 60 {
				sample.Order = append(sample.Order, f.String())
			}
		}
		for _, f := range frames {
			b := e.buf[f.Dir].Bytes()
			if f.end <= f.start || f.end > len(b) {
				continue
			}
			bounds := append(append([]int(nil), f.phys...), f.end)
			if len(f.phys) == 0 {
				bounds = []int{f.start, f.end}
			}
			for i := 0; i+1 < len(bounds); i++ {
				pieces[f.Dir] = append(pieces[f.Dir], append([]byte(nil), b[bounds[i]:bounds[i+1]]...))
			}
		}
	case 2:
		for dir := 0; dir < 2; dir++ {
			var b []byte
			if dir == dirReq && !tape.Bool(1, 4, "no-preface") {
				pieces[dir] = append(pieces[dir], []byte(clientPreface))
			}
			n := tape.Choose(120, "random-len")
			for i := 0; i < n; i++ {
				// mostly small values so that frame lengths and types are often plausible
				if tape.Bool(1, 3, "random-any") {
					b = append(b, byte(tape.Choose(256, "byte")))
				} else {
					b = append(b, byte(tape.Choose(10, "small-byte")))
				}
			}
			pieces[dir] = append(pieces[dir], b)
		}
	}
	// frame-level mutations
	nmut := 0
	if mode == 0 {
		nmut = 1 + tape.Choose(3, "nmut")
	} else if mode == 1 {
		nmut = tape.Choose(2, "nmut")
	}
	var data [2][]byte
	var muts []string
	flatten := func() {
		for dir := 0; dir < 2; dir++ {
			data[dir] = nil
			for _, p := range pieces[dir] {
				data[dir] = append(data[dir], p...)
			}
		}
	}
	for i := 0; i < nmut; i++ {
		dir := tape.Choose(2, "mut-dir")
		kind := tape.Choose(6, "mut-kind")
		ps := pieces[dir]
		switch {
		case kind == 0 && len(ps) > 0: // drop a frame
			k := tape.Choose(len(ps), "mut-frame")
			pieces[dir] = append(append([][]byte(nil), ps[:k]...), ps[k+1:]...)
			muts = append(muts, fmt.Sprintf("drop frame %d of dir %d", k, dir))
		case kind == 1 && len(ps) > 1: // swap neighbours
			k := tape.Choose(len(ps)-1, "mut-frame")
			ps[k], ps[k+1] = ps[k+1], ps[k]
			muts = append(muts, fmt.Sprintf("swap frames %d,%d of dir %d", k, k+1, dir))
		case kind == 2 && len(ps) > 0: // duplicate a frame
			k := tape.Choose(len(ps), "mut-frame")
			pieces[dir] = append(append(append([][]byte(nil), ps[:k+1]...), ps[k]), ps[k+1:]...)
			muts = append(muts, fmt.Sprintf("duplicate frame %d of dir %d", k, dir))
		default: // byte-level, applied on the flattened stream of this direction
			flatten()
			b := data[dir]
			if len(b) == 0 {
				continue
			}
			switch kind {
			case 3, 0, 1, 2:
				for k := 1 + tape.Choose(4, "nflips"); k > 0; k-- {
					at := tape.Choose(len(b), "flip-at")
					b[at] ^= 1 << tape.Choose(8, "flip-bit")
					muts = append(muts, fmt.Sprintf("flip bit at %d of dir %d", at, dir))
				}
			case 4:
				at := tape.Choose(len(b), "trunc-at")
				b = b[:at]
				muts = append(muts, fmt.Sprintf("truncate dir %d at %d", dir, at))
			case 5:
				a := tape.Choose(len(b), "dup-at")
				l := 1 + tape.Choose(min(64, len(b)-a), "dup-len")
				b = append(append(append([]byte(nil), b[:a+l]...), b[a:a+l]...), b[a+l:]...)
				muts = append(muts, fmt.Sprintf("duplicate %d bytes at %d of dir %d", l, a, dir))
			}
			pieces[dir] = [][]byte{b}
		}
	}
	flatten()
	sample.Order = append(sample.Order, muts...)
	if a, _ := c15KnownShapes(data); a && !c15GenUnnamedTrailers {
		// input of a shape that runs into a reported defect: not executed
		res.End, res.LogHash = "skipped-known-defect-shape", 1
		res.Probes["skipped-known-defect-shape"]++
		return
	}
	sample.Bytes = [2]int{len(data[0]), len(data[1])}
	d := newC15Driver(tape, res, isServer, data)
	for dir := 0; dir < 2; dir++ {
		off := 0
		for _, p := range pieces[dir] {
			d.starts[dir] = append(d.starts[dir], off)
			off += len(p)
			d.ends[dir] = append(d.ends[dir], off)
		}
		for _, b := range data[dir] {
			d.mix(uint64(b))
		}
	}
	d.planFault()
	for !d.dead {
		var sides []int
		for dir := 0; dir < 2; dir++ {
			if d.pos[dir] < len(data[dir]) {
				sides = append(sides, dir)
			}
		}
		if len(sides) == 0 {
			break
		}
		dir := sides[tape.Choose(len(sides), "side")]
		if dir != d.readDir && tape.Bool(1, 24, "write-fails-connection-used-on") {
			// A Write that fails without writing anything (a deadline), after which
			// the caller carries on with what follows: unusual, but it is a call
			// sequence like any other and must not crash the wrapper. (The tracer has
			// seen the bytes, the peer has not: only crashes and transparency are judged.)
			n := d.chunk(dir, len(data[dir])-d.pos[dir])
			d.doWrite(n, 0)
			res.Faults["write-fails-connection-used-on"]++
			if d.panicked {
				break
			}
			d.pos[dir] += n
			continue
		}
		d.step(dir, d.chunk(dir, len(data[dir])-d.pos[dir]))
	}
	d.finish()
	sample.Calls, sample.Fault = d.calls, d.endKind
	res.End = "done"
	if d.endKind != "close" && d.endKind != "" {
		res.End = d.endKind
	}
	if d.panicked {
		res.End = "panic"
		// In this scenario the order of the two directions is free, so the shape "response
		// DATA on a stream whose response HEADERS were not attributed to it" cannot be kept
		// out of the input; the reported defect is recognised by its site instead.
		if !c15GenDataBeforeResponseHeaders {
			kept := res.Violations[:0]
			for _, v := range res.Violations {
				if v.Class == "c15/panic" && strings.Contains(v.Detail, "(*builder).add <- connectrpc.com/conformance/internal/tracer.(*dataTracer).emitUnfinished") {
					res.Probes["known-defect:data-before-response-headers"]++
					res.End = "panic-known-defect"
					continue
				}
				kept = append(kept, v)
			}
			res.Violations = kept
		}
	}
	res.LogHash = d.hash
	res.Nontrivial = d.ncalls > 3
	res.SimTime = d.now()
	d.sink.mu.Lock()
	res.Probes[fmt.Sprintf("traces-delivered:%d", min(len(d.sink.got), 3))]++
	d.sink.mu.Unlock()
	res.Cover = append(res.Cover, fmt.Sprintf("mode=%s server=%v end=%s", sample.Mode, isServer, res.End))
}
