//go:build verif

package tracer

import (
	"bytes"
	"context"
	"encoding/binary"
	"errors"
	"fmt"
	"io"
	"net/http"
	"net/url"
	"reflect"
	"strings"
	"testing"

	"connectrpc.com/conformance/internal/compression"
	conformancev1 "connectrpc.com/conformance/internal/gen/proto/go/connectrpc/conformance/v1"
	"connectrpc.com/conformance/internal/verifsim/simio"
	"connectrpc.com/conformance/internal/verifsim/simrt"
	"connectrpc.com/conformance/internal/verifsim/simwork"
)

func init() { verifScenarios["c14"] = c14Run }

type envSpec struct {
	Flags      byte   `json:"flags"`
	Len        int    `json:"declared_len"`
	Compressed bool   `json:"payload_really_compressed"`
	Garbage    bool   `json:"payload_garbage_although_flagged"`
	Plain      string `json:"plain_end_stream_content,omitempty"`
}

type c14Case struct {
	Side        string    `json:"side"`
	ContentType string    `json:"content_type"`
	EncHeader   string    `json:"encoding_header"`
	Encoding    string    `json:"encoding"`
	ContentEnc  bool      `json:"content_encoding_set"`
	Envs        []envSpec `json:"envelopes"`
	Total       int       `json:"body_bytes"`
	CutAt       int       `json:"cut_at"`
	End         string    `json:"end"`
	CloseAfter  int       `json:"close_after_reads"`
	ReuseBuffer bool      `json:"application_reuses_its_read_buffer"`
	EarlyTrailer bool     `json:"handler_sets_prefixed_trailer_before_headers"`
	CloseAtEnd  bool      `json:"close_after_end_of_body"` // the application closes the body after it has seen EOF / an error (defer Body.Close())
	CloseFails  bool      `json:"inner_close_fails"`
	HandlerPanics bool    `json:"handler_panics_after_its_writes,omitempty"`
	EarlyStatus int       `json:"status_written_before_the_request_is_read,omitempty"`
	Named       bool      `json:"has_test_name"`
	Chunks      []int     `json:"chunks"`
}

var encNames = map[string]conformancev1.Compression{
	"identity": conformancev1.Compression_COMPRESSION_IDENTITY,
	"gzip":     conformancev1.Compression_COMPRESSION_GZIP,
	"br":       conformancev1.Compression_COMPRESSION_BR,
	"zstd":     conformancev1.Compression_COMPRESSION_ZSTD,
	"deflate":  conformancev1.Compression_COMPRESSION_DEFLATE,
	"snappy":   conformancev1.Compression_COMPRESSION_SNAPPY,
}

func compressWith(enc string, data []byte) []byte {
	c, err := compression.GetCompressor(encNames[enc])
	if err != nil {
		return data
	}
	var buf bytes.Buffer
	c.Reset(&buf)
	_, _ = c.Write(data)
	_ = c.Close()
	return buf.Bytes()
}

// genBody draws an envelope sequence and returns the byte string.
func c14GenBody(tape *simrt.Tape, cs *c14Case, tier string, responseSide bool) []byte {
	maxEnv := 4
	lens := []int{0, 1, 2, 5, 17, 200}
	if tier == "thorough" {
		maxEnv = 8
		lens = append(lens, 5000, 70*1024)
	}
	n := tape.Choose(maxEnv+1, "nenv")
	var body []byte
	for i := 0; i < n; i++ {
		var e envSpec
		e.Flags = []byte{0, 0, 0, 1, 2, 3, 0x80, 0x81, 0x7c, 0xff}[tape.Choose(10, "flags")]
		if tape.Bool(1, 10, "randflags") {
			e.Flags = byte(tape.Choose(256, "flagbyte"))
		}
		var payload []byte
		endStream := responseSide && e.Flags&0x82 != 0
		if endStream {
			plain := []string{`{"error":{"code":"internal","message":"oops"}}`, "grpc-status: 0\r\ngrpc-message: ok\r\n", "{}", "x", ""}[tape.Choose(5, "eos")]
			if tape.Bool(1, 8, "eosbig") {
				// an end-stream message with large metadata / error details (the
				// decompressed size is far above any small fixed buffer)
				size := []int{65536, 65537, 70000, 300000}[tape.Choose(4, "eosbigsize")]
				plain = `{"error":{"code":"internal","message":"` + strings.Repeat("details ", size/8) + `"}}`
			}
			e.Plain = plain
			payload = []byte(plain)
			if e.Flags&1 != 0 {
				if tape.Bool(1, 8, "eosgarbage") {
					e.Garbage = true
					payload = []byte{0x1f, 0x8b, 0xff, 0x00, 0x01}
				} else if _, known := encNames[strings.ToLower(cs.Encoding)]; known {
					payload = compressWith(strings.ToLower(cs.Encoding), []byte(plain))
					e.Compressed = true
				}
			}
		} else {
			l := lens[tape.Choose(len(lens), "len")]
			payload = make([]byte, l)
			for j := range payload {
				payload[j] = byte(i*37 + j)
			}
		}
		e.Len = len(payload)
		var hdr [5]byte
		hdr[0] = e.Flags
		binary.BigEndian.PutUint32(hdr[1:], uint32(len(payload)))
		body = append(body, hdr[:]...)
		body = append(body, payload...)
		cs.Envs = append(cs.Envs, e)
	}
	return body
}

type dataEvt struct {
	HasEnv bool
	Flags  byte
	EnvLen uint32
	Len    uint64
	Index  int
}

type expEvents struct {
	data     []dataEvt // in order
	eos      []string  // end-stream contents in order (only those that must appear)
	eosMaybe bool      // an end-stream message whose content is not decided by the model
	optional *dataEvt  // a final partial event that may or may not be present (cut exactly after a prefix)
}

// c14Model is the reference parser: what must be traced for the first
// `delivered` bytes of body.
func c14Model(cs *c14Case, body []byte, delivered int, isStream, responseSide bool) expEvents {
	var ex expEvents
	data := body[:delivered]
	if !isStream {
		if delivered > 0 {
			ex.data = append(ex.data, dataEvt{Len: uint64(delivered)})
		}
		return ex
	}
	pos, idx := 0, 0
	for i := 0; pos < len(data); i++ {
		if len(data)-pos < 5 {
			ex.data = append(ex.data, dataEvt{Len: uint64(len(data) - pos), Index: idx})
			return ex
		}
		flags := data[pos]
		l := binary.BigEndian.Uint32(data[pos+1 : pos+5])
		have := len(data) - pos - 5
		if uint32(have) < l {
			if have == 0 {
				ex.optional = &dataEvt{HasEnv: true, Flags: flags, EnvLen: l, Len: 0, Index: idx}
			} else {
				ex.data = append(ex.data, dataEvt{HasEnv: true, Flags: flags, EnvLen: l, Len: uint64(have), Index: idx})
			}
			return ex
		}
		ex.data = append(ex.data, dataEvt{HasEnv: true, Flags: flags, EnvLen: l, Len: uint64(l), Index: idx})
		idx++
		if responseSide && flags&0x82 != 0 && l > 0 && i < len(cs.Envs) {
			e := cs.Envs[i]
			switch {
			case flags&1 == 0:
				if e.Plain != "" {
					ex.eos = append(ex.eos, e.Plain)
				}
			case e.Compressed:
				if e.Plain != "" {
					ex.eos = append(ex.eos, e.Plain)
				}
			case !e.Garbage && (cs.Encoding == "" || strings.EqualFold(cs.Encoding, "identity")):
				if e.Plain != "" {
					ex.eos = append(ex.eos, e.Plain)
				}
			default:
				ex.eosMaybe = true
			}
		}
		pos += 5 + int(l)
	}
	return ex
}

// ---- recording wrappers (transparency)

type ioRec struct {
	N    int
	Err  error
	Data string
}

type recReadCloser struct {
	inner    io.Reader
	log      []ioRec
	closed   int
	closeErr error
}

func (r *recReadCloser) Read(p []byte) (int, error) {
	n, err := r.inner.Read(p)
	r.log = append(r.log, ioRec{N: n, Err: err, Data: string(p[:n])})
	return n, err
}

func (r *recReadCloser) Close() error {
	r.closed++
	return r.closeErr
}

// c14PanicValue is what a panicking handler panics with.
var c14PanicValue = errors.New("scripted handler panic")

type traceSink struct {
	traces []Trace
}

func (s *traceSink) Complete(t Trace) { s.traces = append(s.traces, t) }

// scripted response writer of the inner HTTP server
type scriptedRW struct {
	hdr     http.Header
	status  []int
	w       *simio.Writer
	log     []ioRec
	flushes int
}

func (s *scriptedRW) Header() http.Header  { return s.hdr }
func (s *scriptedRW) WriteHeader(code int) { s.status = append(s.status, code) }
func (s *scriptedRW) Write(p []byte) (int, error) {
	n, err := s.w.Write(p)
	s.log = append(s.log, ioRec{N: n, Err: err, Data: string(p)})
	return n, err
}
func (s *scriptedRW) Flush() { s.flushes++ }

func c14Run(t *testing.T, tape *simrt.Tape, o simwork.Opts) *simwork.Result {
	res := &simwork.Result{Faults: map[string]int{}, Probes: map[string]int{}, End: "done"}
	simrt.Bump()
	viol := func(class, format string, args ...any) {
		res.Violations = append(res.Violations, simwork.Violation{Class: class, Detail: fmt.Sprintf(format, args...)})
	}
	defer func() {
		if r := recover(); r != nil {
			viol("c14/panic", "%v", r)
		}
	}()
	cs := &c14Case{CutAt: -1, CloseAfter: -1}
	res.Sample = cs
	cs.Side = []string{"client-response", "client-request", "server-request", "server-response"}[tape.Choose(4, "side")]
	proto := tape.Choose(6, "proto")
	switch proto {
	case 0:
		cs.ContentType, cs.EncHeader = "application/connect+proto", "Connect-Content-Encoding"
	case 1:
		cs.ContentType, cs.EncHeader = "application/connect+json; charset=utf-8", "Connect-Content-Encoding"
	case 2:
		cs.ContentType, cs.EncHeader = "application/grpc", "Grpc-Encoding"
	case 3:
		cs.ContentType, cs.EncHeader = "application/grpc-web+proto", "Grpc-Encoding"
	case 4:
		cs.ContentType, cs.EncHeader = "Application/GRPC+proto", "grpc-encoding"
	case 5:
		cs.ContentType, cs.EncHeader = []string{"application/proto", "application/json", ""}[tape.Choose(3, "unaryct")], "Content-Encoding"
	}
	if proto < 4 && tape.Bool(1, 6, "custom-codec") {
		// the sub-format after '+' names the codec, which may be any registered one;
		// the enveloping is the protocol's, whatever the codec
		cs.ContentType = []string{"application/connect+msgpack", "application/connect+flatbuffers", "application/grpc+flatbuffers", "application/grpc-web+thrift"}[proto]
	}
	cs.Encoding = []string{"", "identity", "gzip", "br", "zstd", "deflate", "snappy", "GZIP", "foo"}[tape.Choose(9, "enc")]
	isStream := proto != 5
	if proto != 5 && tape.Bool(1, 12, "contentenc") {
		cs.ContentEnc = true
		isStream = false
	}
	if proto == 5 && cs.Encoding == "" {
		// unary without content encoding
	}
	responseSide := cs.Side == "client-response" || cs.Side == "server-response"
	body := c14GenBody(tape, cs, o.Tier, responseSide)
	cs.Total = len(body)
	cs.Named = !tape.Bool(1, 10, "unnamed")
	headers := http.Header{}
	if cs.ContentType != "" {
		headers.Set("Content-Type", cs.ContentType)
	}
	if proto == 5 {
		if cs.Encoding != "" {
			headers.Set("Content-Encoding", cs.Encoding)
		}
	} else {
		if cs.Encoding != "" {
			headers.Set(cs.EncHeader, cs.Encoding)
		}
		if cs.ContentEnc {
			headers.Set("Content-Encoding", "gzip")
		}
	}
	// how the body ends
	delivered := len(body)
	endKind := simio.EndEOF
	if len(body) > 0 && tape.Bool(1, 2, "cut") {
		cs.CutAt = tape.Choose(len(body)+1, "cutat")
		delivered = cs.CutAt
		res.Faults["truncate-at-byte"]++
	}
	switch tape.Choose(6, "endkind") {
	case 0, 1:
		endKind = simio.EndEOF
	case 2:
		endKind = simio.EndEOFWithData
	case 3:
		endKind = simio.EndError
	case 4:
		endKind = simio.EndErrorWithData
	case 5:
		cs.CloseAfter = tape.Choose(6, "closeafter")
	}
	cs.End = []string{"eof", "eof-with-data", "error", "stall", "error-with-data"}[endKind]
	cs.ReuseBuffer = tape.Bool(1, 2, "reuse-buffer")
	cs.EarlyTrailer = tape.Bool(1, 2, "early-trailer")
	if cs.CloseAfter < 0 && tape.Bool(1, 2, "close-at-end") {
		cs.CloseAtEnd = true
		cs.CloseFails = tape.Bool(1, 3, "close-fails")
	}
	if cs.CloseAfter >= 0 {
		cs.End = "close-early"
		cs.CloseFails = tape.Bool(1, 4, "early-close-fails")
	}
	if cs.Side == "server-response" {
		cs.HandlerPanics = tape.Bool(1, 6, "handler-panics")
	}
	if cs.Side == "server-request" && tape.Bool(1, 3, "early-status") {
		cs.EarlyStatus = []int{200, 204, 304, 500}[tape.Choose(4, "early-status-code")]
	}
	res.Faults["end:"+cs.End]++
	var bounds []int
	{
		pos := 0
		for _, e := range cs.Envs {
			bounds = append(bounds, pos+5, pos+5+e.Len)
			pos += 5 + e.Len
		}
	}
	mkReader := func(data []byte, kind int) *simio.Reader {
		r := &simio.Reader{End: kind, Tape: tape, Boundaries: bounds, SmallChunks: tape.Bool(1, 2, "small")}
		if len(data) > 0 {
			r.Segs = []simio.Segment{{Data: data}}
		}
		return r
	}
	var (
		appClosedAtEnd bool
		appClosedEarly bool
		appCloseErr    error
		reused         []byte
	)
	readSizes := func() int { return []int{1, 2, 3, 5, 7, 64, 512, 32 * 1024}[tape.Choose(8, "bufsize")] }
	// consume reads r the way an application would and returns the app-side log
	consume := func(r io.ReadCloser, closeAfter int) []ioRec {
		var log []ioRec
		for i := 0; ; i++ {
			if closeAfter >= 0 && i >= closeAfter {
				appClosedEarly, appCloseErr = true, r.Close()
				return log
			}
			size := readSizes()
			var buf []byte
			if cs.ReuseBuffer {
				// an application that reads into one buffer again and again
				// (io.Copy, bufio): what a Read returned is overwritten by the next
				if cap(reused) < size {
					reused = make([]byte, 32*1024)
				}
				buf = reused[:size]
			} else {
				buf = make([]byte, size)
			}
			n, err := r.Read(buf)
			log = append(log, ioRec{N: n, Err: err, Data: string(buf[:n])})
			if err != nil {
				if cs.CloseAtEnd {
					appClosedAtEnd, appCloseErr = true, r.Close()
				}
				return log
			}
			if i > 200000 {
				return log
			}
		}
	}
	sink := &traceSink{}
	u, _ := url.Parse("http://example.test/connectrpc.conformance.v1.ConformanceService/Unary")
	mkReq := func(bodyR io.ReadCloser, h http.Header) *http.Request {
		req, _ := http.NewRequestWithContext(context.Background(), http.MethodPost, u.String(), bodyR)
		for k, v := range h {
			req.Header[k] = v
		}
		if cs.Named {
			req.Header.Set("X-Test-Case-Name", "Suite/case")
		}
		req.ContentLength = -1
		return req
	}
	var inner *recReadCloser
	var appLog []ioRec
	var seenReqHdr, sentReqHdr http.Header // request headers as the handler saw them / as they arrived
	var seenReqLen, sentReqLen int64
	var isRequestSide bool
	var injectedEnd error
	switch cs.Side {
	case "client-response":
		sr := mkReader(body[:delivered], endKind)
		inner = &recReadCloser{inner: sr}
		if cs.CloseFails {
			inner.closeErr = errors.New("scripted close error")
		}
		respHdr := headers.Clone()
		respTrailer := http.Header{"X-Trailer": {"t1", "t2"}}
		rt := TracingRoundTripper(roundTripperFunc(func(req *http.Request) (*http.Response, error) {
			_, _ = io.Copy(io.Discard, req.Body)
			return &http.Response{StatusCode: 200, Status: "200 OK", Proto: "HTTP/1.1", ProtoMajor: 1, ProtoMinor: 1,
				Header: respHdr, Trailer: respTrailer, Body: inner, ContentLength: -1, Request: req}, nil
		}), sink)
		resp, err := rt.RoundTrip(mkReq(io.NopCloser(bytes.NewReader(nil)), http.Header{"Content-Type": {"application/proto"}}))
		if err != nil {
			viol("c14/roundtrip-error", "%v", err)
			return res
		}
		appLog = consume(resp.Body, cs.CloseAfter)
		if !reflect.DeepEqual(resp.Header, headers) || !reflect.DeepEqual(resp.Trailer, http.Header{"X-Trailer": {"t1", "t2"}}) {
			viol("c14/headers-altered", "response headers/trailers seen by the application differ from the transport's: %v / %v", resp.Header, resp.Trailer)
		}
	case "client-request":
		isRequestSide = true
		sr := mkReader(body[:delivered], endKind)
		inner = &recReadCloser{inner: sr}
		if cs.CloseFails {
			inner.closeErr = errors.New("scripted close error")
		}
		rt := TracingRoundTripper(roundTripperFunc(func(req *http.Request) (*http.Response, error) {
			appLog = consume(req.Body, cs.CloseAfter)
			return &http.Response{StatusCode: 200, Status: "200 OK", Proto: "HTTP/1.1", ProtoMajor: 1, ProtoMinor: 1,
				Header: http.Header{"Content-Type": {"application/proto"}}, Body: io.NopCloser(bytes.NewReader(nil)), ContentLength: -1, Request: req}, nil
		}), sink)
		resp, err := rt.RoundTrip(mkReq(inner, headers))
		if err == nil {
			_, _ = io.Copy(io.Discard, resp.Body)
			_ = resp.Body.Close()
		}
	case "server-request":
		isRequestSide = true
		sr := mkReader(body[:delivered], endKind)
		inner = &recReadCloser{inner: sr}
		if cs.CloseFails {
			inner.closeErr = errors.New("scripted close error")
		}
		h := TracingHandler(http.HandlerFunc(func(w http.ResponseWriter, r *http.Request) {
			seenReqHdr, seenReqLen = r.Header.Clone(), r.ContentLength
			if cs.EarlyStatus != 0 {
				// the handler answers before it reads the request (also with a status
				// that allows no response body): the request body is traced all the same
				w.Header().Set("Content-Type", "application/proto")
				w.WriteHeader(cs.EarlyStatus)
				res.Probes["status-before-request-body"]++
			}
			appLog = consume(r.Body, cs.CloseAfter)
			if cs.EarlyStatus == 0 {
				w.Header().Set("Content-Type", "application/proto")
				w.WriteHeader(200)
			}
		}), sink)
		rw := &scriptedRW{hdr: http.Header{}, w: simio.NewWriter()}
		sreq := mkReq(inner, headers)
		if tape.Bool(1, 2, "request-length-known") {
			// the length is known without a Content-Length header (HTTP/2 END_STREAM on
			// the headers, a GET): the trace may mention it, the request must not change
			sreq.ContentLength = int64(delivered)
		}
		sentReqHdr, sentReqLen = sreq.Header.Clone(), sreq.ContentLength
		h.ServeHTTP(rw, sreq)
	case "server-response":
		rw := &scriptedRW{hdr: http.Header{}, w: simio.NewWriter()}
		failing := endKind == simio.EndError || endKind == simio.EndErrorWithData
		if failing {
			rw.w.FailAt = delivered
			rw.w.Short = true
			injectedEnd = simio.ErrInjected
		}
		var handlerLog []ioRec
		wantHdr := http.Header{}
		h := TracingHandler(http.HandlerFunc(func(w http.ResponseWriter, r *http.Request) {
			seenReqHdr, seenReqLen = r.Header.Clone(), r.ContentLength
			_, _ = io.Copy(io.Discard, r.Body)
			for k, v := range headers {
				w.Header()[k] = v
			}
			w.Header().Set("Trailer", "X-Declared")
			if cs.EarlyTrailer {
				// a trailer announced with the TrailerPrefix mechanism before the
				// headers are written (legal for net/http handlers)
				w.Header().Set(http.TrailerPrefix+"X-Early", "early-value")
			}
			for k, v := range w.Header() {
				wantHdr[k] = append([]string(nil), v...)
			}
			// a zero-length write is a write like any other: as the first one it
			// commits status 200 and the headers set so far, on a failed writer it
			// reports the failure
			zeroWrite := func(label string, den int) bool {
				if !tape.Bool(1, den, label) {
					return false
				}
				var p []byte
				if tape.Bool(1, 2, label+".empty") {
					p = []byte{}
				}
				wn, err := w.Write(p)
				handlerLog = append(handlerLog, ioRec{N: wn, Err: err})
				res.Probes["zero-length-write"]++
				return true
			}
			if tape.Bool(1, 2, "explicit-status") {
				w.WriteHeader(200)
			} else if zeroWrite("zero-first", 6) && tape.Bool(1, 2, "late-status") {
				// too late: the response has started
				w.WriteHeader(http.StatusTeapot)
			}
			data := body
			if !failing {
				data = body[:delivered]
			}
			pos := 0
			for pos < len(data) {
				n := 1 + tape.Choose(len(data)-pos, "wchunk")
				if tape.Bool(1, 2, "wsmall") && n > 9 {
					n = 1 + tape.Choose(9, "wsmalln")
				}
				for _, b := range bounds {
					if b > pos && b-pos <= n && tape.Bool(1, 3, "wbound") {
						n = b - pos
						break
					}
				}
				chunk := data[pos : pos+n]
				if cs.ReuseBuffer {
					// a handler that writes from one scratch buffer (bufio flushes, io.Copy)
					if cap(reused) < n {
						reused = make([]byte, n+1024)
					}
					chunk = reused[:n]
					copy(chunk, data[pos:pos+n])
				}
				wn, err := w.Write(chunk)
				if cs.ReuseBuffer {
					for i := range chunk {
						chunk[i] = 0xEE // the buffer is the handler's again
					}
				}
				handlerLog = append(handlerLog, ioRec{N: wn, Err: err, Data: string(data[pos : pos+n])})
				cs.Chunks = append(cs.Chunks, n)
				if err != nil {
					zeroWrite("zero-after-failure", 4)
					break
				}
				pos += n
				if f, ok := w.(http.Flusher); ok && tape.Bool(1, 4, "flush") {
					f.Flush()
				}
				zeroWrite("zero-between", 12)
			}
			w.Header().Set("X-Declared", "d1")
			w.Header().Set(http.TrailerPrefix+"X-Late", "l1")
			if cs.HandlerPanics {
				panic(c14PanicValue)
			}
		}), sink)
		sreq := mkReq(io.NopCloser(bytes.NewReader(nil)), http.Header{"Content-Type": {"application/proto"}})
		if tape.Bool(1, 2, "request-length-known") {
			sreq.ContentLength = 0
		}
		sentReqHdr, sentReqLen = sreq.Header.Clone(), sreq.ContentLength
		func() {
			defer func() {
				p := recover()
				if cs.HandlerPanics {
					res.Probes["handler-panics"]++
					if p != any(c14PanicValue) {
						viol("c14/panic-not-propagated", "the handler panicked with %v, the caller of the traced handler recovered %v", c14PanicValue, p)
					}
				} else if p != nil {
					panic(p)
				}
			}()
			h.ServeHTTP(rw, sreq)
		}()
		// transparency of the writer
		if len(handlerLog) != len(rw.log) {
			viol("c14/writer-transparency", "handler made %d writes, inner writer saw %d", len(handlerLog), len(rw.log))
		} else {
			for i := range handlerLog {
				if handlerLog[i].Data != rw.log[i].Data || handlerLog[i].N != rw.log[i].N || handlerLog[i].Err != rw.log[i].Err {
					viol("c14/writer-transparency", "write %d: handler wrote %d bytes and got (%d,%v); inner writer saw %d bytes and returned (%d,%v)", i,
						len(handlerLog[i].Data), handlerLog[i].N, handlerLog[i].Err, len(rw.log[i].Data), rw.log[i].N, rw.log[i].Err)
					break
				}
			}
		}
		if len(rw.status) != 1 || rw.status[0] != 200 {
			viol("c14/writer-transparency", "inner WriteHeader calls: %v, want exactly [200]", rw.status)
		}
		for k, v := range wantHdr {
			if !reflect.DeepEqual(rw.hdr[k], v) {
				viol("c14/headers-altered", "response header %q seen by the inner writer is %v, handler set %v", k, rw.hdr[k], v)
			}
		}
		if failing {
			delivered = len(rw.w.Data)
			if !rw.w.Failed {
				injectedEnd = nil // the body was completely written before the failure offset
			}
		}
		if cs.HandlerPanics && !(failing && rw.w.Failed) {
			// the response did not end, it was abandoned
			injectedEnd = fmt.Errorf("panic: %v", c14PanicValue)
		}
	}
	if inner != nil {
		// transparency of the reader: the application sees exactly what the stream returned
		if len(appLog) != len(inner.log) {
			viol("c14/reader-transparency", "application made %d reads, inner stream saw %d", len(appLog), len(inner.log))
		} else {
			for i := range appLog {
				if appLog[i] != inner.log[i] {
					viol("c14/reader-transparency", "read %d: application got (%d,%v,%q), the stream returned (%d,%v,%q)", i,
						appLog[i].N, appLog[i].Err, trunc(appLog[i].Data), inner.log[i].N, inner.log[i].Err, trunc(inner.log[i].Data))
					break
				}
			}
		}
		got := 0
		for _, l := range inner.log {
			got += l.N
			cs.Chunks = append(cs.Chunks, l.N)
		}
		delivered = got
		if cs.CloseAfter >= 0 && (len(inner.log) == 0 || inner.log[len(inner.log)-1].Err == nil) {
			injectedEnd = errors.New("closed before fully consumed")
			if inner.closeErr != nil {
				injectedEnd = inner.closeErr // the body ends with the failure of Close
			}
			if inner.closed != 1 {
				viol("c14/reader-transparency", "application closed the body once, inner stream saw %d Close calls", inner.closed)
			}
		} else if len(inner.log) > 0 {
			if e := inner.log[len(inner.log)-1].Err; e != nil && !errors.Is(e, io.EOF) {
				injectedEnd = e
			}
		}
		if appClosedEarly && appCloseErr != inner.closeErr {
			viol("c14/reader-transparency", "Close before the end of the body returned %v to the application, the inner stream's Close returned %v", appCloseErr, inner.closeErr)
		}
		if appClosedEarly && inner.closeErr != nil {
			res.Probes["early-close-fails"]++
		}
		if appClosedAtEnd {
			res.Probes["close-after-end-of-body"]++
			if inner.closed != 1 {
				viol("c14/reader-transparency", "application closed the body once after it had ended, inner stream saw %d Close calls", inner.closed)
			}
			if appCloseErr != inner.closeErr { // the very error value: the wrapper is transparent
				viol("c14/reader-transparency", "Close after the end of the body returned %v to the application, the inner stream's Close returned %v", appCloseErr, inner.closeErr)
			}
		}
	}
	if len(cs.Chunks) > 16 {
		cs.Chunks = cs.Chunks[:16]
	}

	if sentReqHdr != nil {
		// what the wrapped handler sees of the request is what arrived
		if !reflect.DeepEqual(seenReqHdr, sentReqHdr) || seenReqLen != sentReqLen {
			viol("c14/request-headers-altered", "the handler saw request headers %v (ContentLength %d), the request arrived with %v (ContentLength %d)", seenReqHdr, seenReqLen, sentReqHdr, sentReqLen)
		}
	}

	// ---- the trace
	if !cs.Named {
		if len(sink.traces) != 0 {
			viol("c14/unnamed-traced", "an operation without test name produced %d trace(s)", len(sink.traces))
		}
		res.LogHash = c14Hash(cs, delivered)
		res.Nontrivial = true
		return res
	}
	if len(sink.traces) != 1 {
		viol("c14/trace-count", "the operation produced %d traces, want exactly 1 (side=%s end=%s)", len(sink.traces), cs.Side, cs.End)
		return res
	}
	tr := sink.traces[0]
	ex := c14Model(cs, body, delivered, isStream, responseSide)
	var gotData []dataEvt
	var gotEOS []string
	var ends []error
	afterEnd := 0
	for _, ev := range tr.Events {
		switch e := ev.(type) {
		case *RequestBodyData:
			if isRequestSide {
				gotData = append(gotData, toEvt(e.Envelope, e.Len, e.MessageIndex))
				if len(ends) > 0 {
					afterEnd++
				}
			}
		case *ResponseBodyData:
			if !isRequestSide {
				gotData = append(gotData, toEvt(e.Envelope, e.Len, e.MessageIndex))
				if len(ends) > 0 {
					afterEnd++
				}
			}
		case *ResponseBodyEndStream:
			if !isRequestSide {
				gotEOS = append(gotEOS, e.Content)
				if len(ends) > 0 {
					afterEnd++
				}
			}
		case *RequestBodyEnd:
			if isRequestSide {
				ends = append(ends, e.Err)
			}
		case *ResponseBodyEnd:
			if !isRequestSide {
				ends = append(ends, e.Err)
			}
		}
	}
	desc := fmt.Sprintf("side=%s type=%q enc=%q stream=%v delivered=%d/%d end=%s", cs.Side, cs.ContentType, cs.Encoding, isStream, delivered, len(body), cs.End)
	want := ex.data
	if ex.optional != nil && len(gotData) == len(want)+1 {
		want = append(append([]dataEvt(nil), want...), *ex.optional)
	}
	if isStream {
		// message indexes are only meaningful for complete envelopes; partial event carries the next index
		for i := range want {
			if !want[i].HasEnv && i < len(gotData) {
				want[i].Index = gotData[i].Index
			}
		}
	} else {
		for i := range want {
			if i < len(gotData) {
				want[i].Index = gotData[i].Index
			}
		}
	}
	if !reflect.DeepEqual(gotData, want) {
		viol("c14/data-events", "%s: data events %s, want %s", desc, fmtEvts(gotData), fmtEvts(want))
	}
	if !ex.eosMaybe {
		if strings.Join(gotEOS, "\x00") != strings.Join(ex.eos, "\x00") || len(gotEOS) != len(ex.eos) {
			viol("c14/end-stream-content", "%s: end-stream contents %q, want %q (envelopes %+v)", desc, gotEOS, ex.eos, cs.Envs)
		}
	} else {
		res.Probes["end-stream-undecided"]++
	}
	expectEnd := true
	if cs.Side == "server-request" && cs.CloseAfter >= 0 && (inner == nil || len(inner.log) == 0 || inner.log[len(inner.log)-1].Err == nil) {
		// a handler that stops reading without closing the body: no body-end event is required
		expectEnd = inner.closed > 0
	}
	switch {
	case len(ends) > 1:
		viol("c14/body-end", "%s: %d body-end events", desc, len(ends))
	case len(ends) == 0 && expectEnd:
		viol("c14/body-end", "%s: no body-end event", desc)
	case len(ends) == 1:
		e := ends[0]
		switch {
		case injectedEnd == nil && e != nil:
			viol("c14/body-end", "%s: body-end carries %v, the stream ended cleanly", desc, e)
		case injectedEnd != nil && (e == nil || (!errors.Is(e, injectedEnd) && e.Error() != injectedEnd.Error())):
			viol("c14/body-end", "%s: body-end carries %v, want %v", desc, e, injectedEnd)
		}
	}
	if afterEnd > 0 {
		viol("c14/event-after-end", "%s: %d body event(s) after the body-end event", desc, afterEnd)
	}
	res.LogHash = c14Hash(cs, delivered)
	res.Nontrivial = len(cs.Chunks) > 1 || cs.CutAt >= 0
	res.Cover = append(res.Cover, fmt.Sprintf("side=%s stream=%v end=%s cut=%v eos=%d partial=%v", cs.Side, isStream, cs.End, cs.CutAt >= 0, len(ex.eos), ex.optional != nil))
	return res
}

func toEvt(env *Envelope, l uint64, idx int) dataEvt {
	d := dataEvt{Len: l, Index: idx}
	if env != nil {
		d.HasEnv, d.Flags, d.EnvLen = true, env.Flags, env.Len
	}
	return d
}

func fmtEvts(es []dataEvt) string {
	var parts []string
	for _, e := range es {
		if e.HasEnv {
			parts = append(parts, fmt.Sprintf("#%d{flags=%d len=%d seen=%d}", e.Index, e.Flags, e.EnvLen, e.Len))
		} else {
			parts = append(parts, fmt.Sprintf("#%d{no-prefix seen=%d}", e.Index, e.Len))
		}
	}
	return "[" + strings.Join(parts, " ") + "]"
}

func trunc(s string) string {
	if len(s) > 16 {
		return s[:16] + "..."
	}
	return s
}

func c14Hash(cs *c14Case, delivered int) uint64 {
	h := uint64(1469598103934665603)
	mix := func(v uint64) { h = (h ^ v) * 1099511628211 }
	for _, c := range cs.Chunks {
		mix(uint64(c))
	}
	for _, e := range cs.Envs {
		mix(uint64(e.Flags))
		mix(uint64(e.Len))
	}
	mix(uint64(delivered))
	for _, b := range []byte(cs.Side + cs.ContentType + cs.Encoding + cs.End) {
		mix(uint64(b))
	}
	return h
}
