//go:build verif

package tracer

// Check C20, scenario c20-tracer: the decompressors that the tracer obtains
// (GetDecompressor) are used by several traced operations at the same time.
// 2-3 tasks each push one response body through TracingRoundTripper: a few
// data envelopes and a COMPRESSED end-stream message whose content is unique to
// the task; every scheduling decision between the instrumented tracer code of
// the tasks comes from the tape. Each operation's trace must carry exactly its
// own end-stream content - a decompressor instance shared between operations,
// or state carried from one message to the next, shows up as swapped, truncated
// or missing content.

import (
	"bytes"
	"encoding/binary"
	"fmt"
	"io"
	"net/http"
	"sort"
	"strings"
	"testing"

	"connectrpc.com/conformance/internal/verifsim/simrt"
	"connectrpc.com/conformance/internal/verifsim/simwork"
)

func init() { verifScenarios["c20-tracer"] = c20tRun }

type c20tOp struct {
	Encoding string `json:"encoding"`
	DataMsgs int    `json:"data_messages"`
	PlainLen int    `json:"end_stream_plain_bytes"`
	ReadSize int    `json:"read_size"`
	plain    string
	body     []byte
	sink     *traceSink
	done     bool
	err      error
}

func c20tRun(t *testing.T, tape *simrt.Tape, o simwork.Opts) *simwork.Result {
	res := &simwork.Result{Faults: map[string]int{}, Probes: map[string]int{}}
	p := simwork.Bubble(t, func(t *testing.T) { c20tBody(tape, o, res) })
	if p != nil {
		res.Violations = append(res.Violations, simwork.Violation{Class: "panic-outside-task", Detail: fmt.Sprint(p)})
	}
	return res
}

func c20tBody(tape *simrt.Tape, o simwork.Opts, res *simwork.Result) {
	encs := []string{"zstd", "gzip", "br", "deflate", "snappy"}
	n := tape.Range(2, 3, "ops")
	same := tape.Bool(2, 3, "same-encoding") // the interesting case: all operations use one encoding
	first := encs[tape.Choose(len(encs), "encoding")]
	var ops []*c20tOp
	for i := 0; i < n; i++ {
		op := &c20tOp{Encoding: first, sink: &traceSink{}}
		if !same {
			op.Encoding = encs[tape.Choose(len(encs), "encoding.i")]
		}
		op.DataMsgs = tape.Choose(3, "datamsgs")
		size := []int{40, 300, 3000, 70000}[tape.Choose(4, "plainsize")]
		op.plain = fmt.Sprintf(`{"error":{"code":"internal","message":"operation %d: %s"}}`, i, strings.Repeat(string(rune('a'+i)), size))
		op.PlainLen = len(op.plain)
		op.ReadSize = []int{1, 5, 64, 4096, 1 << 17}[tape.Choose(5, "readsize")]
		for j := 0; j < op.DataMsgs; j++ {
			msg := compressWith(op.Encoding, bytes.Repeat([]byte{byte('A' + i)}, 10+j))
			var hdr [5]byte
			hdr[0] = 1
			binary.BigEndian.PutUint32(hdr[1:], uint32(len(msg)))
			op.body = append(append(op.body, hdr[:]...), msg...)
		}
		eos := compressWith(op.Encoding, []byte(op.plain))
		var hdr [5]byte
		hdr[0] = 3 // end-stream, compressed
		binary.BigEndian.PutUint32(hdr[1:], uint32(len(eos)))
		op.body = append(append(op.body, hdr[:]...), eos...)
		if len(op.body) > 4000 && op.ReadSize < 64 {
			op.ReadSize = 64 // keep the number of scheduler steps bounded
		}
		ops = append(ops, op)
	}
	res.Sample = map[string]any{"operations": ops, "same_encoding": same}

	sim := simrt.New(tape)
	defer sim.Detach()
	sim.KeepLog = o.KeepLog
	sim.MaxSteps = 400000
	sim.Goal = func() bool {
		for _, op := range ops {
			if !op.done {
				return false
			}
		}
		return true
	}
	for i := range ops {
		op := ops[i]
		name := fmt.Sprintf("Suite/op-%d", i)
		simrt.Go("c20t.operation", func() {
			defer func() { op.done = true }()
			rt := TracingRoundTripper(roundTripperFunc(func(r *http.Request) (*http.Response, error) {
				return &http.Response{StatusCode: 200, Status: "200 OK", Proto: "HTTP/1.1", ProtoMajor: 1, ProtoMinor: 1,
					Header:        http.Header{"Content-Type": {"application/connect+proto"}, "Connect-Content-Encoding": {op.Encoding}},
					Body:          io.NopCloser(bytes.NewReader(op.body)),
					ContentLength: -1, Request: r}, nil
			}), op.sink)
			req, _ := http.NewRequest(http.MethodPost, "http://example.test/svc/Method", http.NoBody)
			req.Header.Set("Content-Type", "application/connect+proto")
			req.Header.Set("X-Test-Case-Name", name)
			resp, err := rt.RoundTrip(req)
			if err != nil {
				op.err = err
				return
			}
			buf := make([]byte, op.ReadSize)
			for {
				_, err := simrt.Read(resp.Body, buf, "c20t.app.read")
				if err != nil {
					break
				}
			}
			_ = resp.Body.Close()
		})
	}
	end := sim.Run()
	res.Steps, res.Switches, res.Preempts = sim.Steps(), sim.Switches(), sim.Preempts()
	res.SimTime = sim.Elapsed()
	res.LogHash = sim.LogHash()
	res.End = end.String()
	res.Invalid = append(res.Invalid, sim.Invalid()...)
	res.Log = sim.Log()
	res.Nontrivial = sim.Preempts() > 0
	viol := func(class, format string, args ...any) {
		res.Violations = append(res.Violations, simwork.Violation{Class: class, Detail: fmt.Sprintf(format, args...)})
	}
	for _, pn := range sim.Panics() {
		viol("c20/tracer/panic", "%s", pn)
	}
	var cover []string
	for i, op := range ops {
		if !op.done {
			viol("c20/tracer/hang", "operation %d did not finish; end=%s; tasks: %s", i, end, strings.Join(sim.EndSites(), "; "))
			return
		}
		if op.err != nil {
			viol("c20/tracer/roundtrip", "operation %d: %v", i, op.err)
			continue
		}
		if len(op.sink.traces) != 1 {
			viol("c20/tracer/trace-count", "operation %d (%s) produced %d traces", i, op.Encoding, len(op.sink.traces))
			continue
		}
		var contents []string
		for _, ev := range op.sink.traces[0].Events {
			if e, ok := ev.(*ResponseBodyEndStream); ok {
				contents = append(contents, e.Content)
			}
		}
		if len(contents) != 1 || contents[0] != op.plain {
			got := "none"
			if len(contents) > 0 {
				got = fmt.Sprintf("%d bytes starting %q", len(contents[0]), trunc(contents[0]))
			}
			viol("c20/tracer/end-stream-content", "operation %d of %d concurrent ones (encoding %s, all same encoding: %v): the traced end-stream content is %s, the operation's own compressed end-stream message decodes to %d bytes starting %q",
				i, len(ops), op.Encoding, same, got, len(op.plain), trunc(op.plain))
		}
		cover = append(cover, "encoding="+op.Encoding)
	}
	if same {
		res.Probes["concurrent-operations-same-encoding:"+first]++
	}
	sort.Strings(cover)
	res.Cover = cover
}
