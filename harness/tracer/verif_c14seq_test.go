//go:build verif

package tracer

// Check C14, scenario c14-sequence: two bodies are traced one after the other in
// the same process. The first one ends in an unusual way (cut inside an
// end-stream message, inside a prefix, by an I/O error, or closed early); the
// second one is complete. Whatever the tracer keeps between bodies (pooled
// buffers, decompressors, counters) must not leak from the first into the
// second: the second body's events must be exactly those of its own bytes.

import (
	"bytes"
	"encoding/binary"
	"fmt"
	"io"
	"net/http"
	"strings"
	"testing"

	"connectrpc.com/conformance/internal/verifsim/simrt"
	"connectrpc.com/conformance/internal/verifsim/simwork"
)

func init() { verifScenarios["c14-sequence"] = c14seqRun }

func c14seqEnvelope(flags byte, payload []byte) []byte {
	var hdr [5]byte
	hdr[0] = flags
	binary.BigEndian.PutUint32(hdr[1:], uint32(len(payload)))
	return append(hdr[:], payload...)
}

func c14seqRun(t *testing.T, tape *simrt.Tape, o simwork.Opts) *simwork.Result {
	res := &simwork.Result{Faults: map[string]int{}, Probes: map[string]int{}, End: "done"}
	simrt.Bump()
	viol := func(class, format string, args ...any) {
		res.Violations = append(res.Violations, simwork.Violation{Class: class, Detail: fmt.Sprintf(format, args...)})
	}
	encs := []string{"", "gzip", "zstd", "br", "deflate", "snappy"}
	type bodySpec struct {
		Encoding   string `json:"encoding"`
		Compressed bool   `json:"end_stream_compressed"`
		DataMsgs   int    `json:"data_messages"`
		Plain      string `json:"end_stream_plain"`
		CutAt      int    `json:"cut_at"`
		Total      int    `json:"total"`
		ReadSize   int    `json:"read_size"`
		CloseEarly bool   `json:"closed_early"`
		body       []byte
	}
	mk := func(idx int) *bodySpec {
		b := &bodySpec{Encoding: encs[tape.Choose(len(encs), "enc")], DataMsgs: tape.Choose(3, "datamsgs"), CutAt: -1,
			ReadSize: []int{1, 3, 7, 64, 4096}[tape.Choose(5, "readsize")]}
		b.Plain = fmt.Sprintf(`{"error":{"code":"internal","message":"body %d: %s"}}`, idx, strings.Repeat(string(rune('p'+idx)), []int{5, 60, 700}[tape.Choose(3, "plainsize")]))
		for j := 0; j < b.DataMsgs; j++ {
			b.body = append(b.body, c14seqEnvelope(0, bytes.Repeat([]byte{byte('A' + idx)}, 3+j))...)
		}
		payload := []byte(b.Plain)
		flags := byte(2)
		if b.Encoding != "" && tape.Bool(2, 3, "compressed") {
			payload = compressWith(b.Encoding, payload)
			flags = 3
			b.Compressed = true
		}
		b.body = append(b.body, c14seqEnvelope(flags, payload)...)
		b.Total = len(b.body)
		return b
	}
	first, second := mk(0), mk(1)
	// how the first body ends
	// position of the end-stream envelope of the first body
	pos := 0
	for j := 0; j < first.DataMsgs; j++ {
		pos += 5 + 3 + j
	}
	switch tape.Choose(4, "first-end") {
	case 0: // cut inside the end-stream payload, after at least one payload byte
		if first.Total-pos > 6 {
			first.CutAt = pos + 5 + 1 + tape.Choose(first.Total-pos-6, "cut")
		}
	case 1: // cut inside the end-stream prefix
		first.CutAt = pos + 1 + tape.Choose(4, "cut")
	case 2: // closed early by the application
		first.CloseEarly = true
	case 3: // complete
	}
	res.Sample = map[string]any{"first": first, "second": second}
	run := func(b *bodySpec, name string) (*traceSink, error) {
		sink := &traceSink{}
		data := b.body
		if b.CutAt >= 0 && b.CutAt < len(data) {
			data = data[:b.CutAt]
		}
		hdr := http.Header{"Content-Type": {"application/connect+proto"}}
		if b.Encoding != "" {
			hdr.Set("Connect-Content-Encoding", b.Encoding)
		}
		rt := TracingRoundTripper(roundTripperFunc(func(r *http.Request) (*http.Response, error) {
			return &http.Response{StatusCode: 200, Status: "200 OK", Proto: "HTTP/1.1", ProtoMajor: 1, ProtoMinor: 1,
				Header: hdr, Body: io.NopCloser(bytes.NewReader(data)), ContentLength: -1, Request: r}, nil
		}), sink)
		req, _ := http.NewRequest(http.MethodPost, "http://example.test/svc/Method", http.NoBody)
		req.Header.Set("Content-Type", "application/connect+proto")
		req.Header.Set("X-Test-Case-Name", name)
		resp, err := rt.RoundTrip(req)
		if err != nil {
			return sink, err
		}
		buf := make([]byte, b.ReadSize)
		reads := 0
		for {
			if b.CloseEarly && reads >= 2 {
				break
			}
			_, err := resp.Body.Read(buf)
			reads++
			if err != nil {
				break
			}
		}
		_ = resp.Body.Close()
		return sink, nil
	}
	if _, err := run(first, "Suite/first"); err != nil {
		viol("c14/sequence/roundtrip", "first body: %v", err)
		return res
	}
	sink, err := run(second, "Suite/second")
	if err != nil {
		viol("c14/sequence/roundtrip", "second body: %v", err)
		return res
	}
	if len(sink.traces) != 1 {
		viol("c14/sequence/trace-count", "the second body produced %d traces", len(sink.traces))
		return res
	}
	var eos []string
	dataEvents := 0
	for _, ev := range sink.traces[0].Events {
		switch e := ev.(type) {
		case *ResponseBodyEndStream:
			eos = append(eos, e.Content)
		case *ResponseBodyData:
			dataEvents++
		}
	}
	if len(eos) != 1 || eos[0] != second.Plain {
		got := "none"
		if len(eos) > 0 {
			got = fmt.Sprintf("%q", trunc(eos[0]))
		}
		viol("c14/sequence/end-stream-content", "after a first body (encoding %q, cut at %d of %d, closed early %v) the second body's (encoding %q, compressed %v) end-stream content is traced as %s (%d event(s)), its own bytes say %q",
			first.Encoding, first.CutAt, first.Total, first.CloseEarly, second.Encoding, second.Compressed, got, len(eos), trunc(second.Plain))
	}
	if dataEvents != second.DataMsgs+1 {
		viol("c14/sequence/data-events", "the second body has %d data messages and an end-stream message, %d data events were traced", second.DataMsgs, dataEvents)
	}
	res.Probes["two-bodies-in-sequence"]++
	if first.CutAt >= 0 {
		res.Faults["first-body-truncated"]++
	}
	res.LogHash = uint64(tape.Pos())*2654435761 + uint64(first.Total)*31 + uint64(second.Total)
	res.Nontrivial = true
	return res
}
