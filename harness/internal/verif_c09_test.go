//go:build verif

package internal

import (
	"encoding/binary"
	"errors"
	"fmt"
	"io"
	"regexp"
	"runtime"
	"strconv"
	"strings"
	"testing"
	"time"

	conformancev1 "connectrpc.com/conformance/internal/gen/proto/go/connectrpc/conformance/v1"
	"connectrpc.com/conformance/internal/verifsim/simio"
	"connectrpc.com/conformance/internal/verifsim/simrt"
	"connectrpc.com/conformance/internal/verifsim/simwork"
	"google.golang.org/protobuf/proto"
	"google.golang.org/protobuf/types/known/wrapperspb"
)

func init() {
	verifScenarios["c09-delimited"] = c09DelimRun
	verifScenarios["c09-codec"] = c09CodecRun
}

// payloadOfSize returns a BytesValue whose encoding has exactly n bytes
// (n == 1 is impossible and is mapped to 2).
func payloadOfSize(n int, fill byte) *wrapperspb.BytesValue {
	if n <= 0 {
		return &wrapperspb.BytesValue{}
	}
	if n == 1 {
		n = 2
	}
	v := n - 2
	if n > 129 {
		v = n - 3
	}
	if n == 130 { // 128 value bytes need a two-byte length: 1+2+128 = 131; 130 is unreachable
		v = 127
	}
	b := make([]byte, v)
	for i := range b {
		b[i] = fill + byte(i%7)
	}
	return &wrapperspb.BytesValue{Value: b}
}

type c09Frame struct {
	Size     int    `json:"payload_size"`
	Oversize bool   `json:"oversize_prefix_only"`
	Prefix   uint32 `json:"prefix"`
}

type c09Case struct {
	Frames    []c09Frame `json:"frames"`
	MaxSize   int        `json:"max_size"`
	TimeoutMs int        `json:"timeout_ms"`
	CutAt     int        `json:"cut_at"` // -1: not cut
	End       int        `json:"end_kind"`
	EndName   string     `json:"end"`
	SegSizes  []int      `json:"segment_sizes"`
	SegDelays []string   `json:"segment_delays"`
	EndDelay  string     `json:"end_delay"`
	Small     bool       `json:"small_chunks"`
	PipeLike  bool       `json:"zero_length_read_blocks_like_io_pipe"`
}

var endNames = []string{"eof", "eof-with-data", "error", "stall", "error-with-data"}

type c09Call struct {
	Msg      []byte
	Err      error
	T0, T1   time.Duration
	BytesOut int
	Alloc    uint64
}

func c09DelimRun(t *testing.T, tape *simrt.Tape, o simwork.Opts) *simwork.Result {
	res := &simwork.Result{Faults: map[string]int{}, Probes: map[string]int{}}
	p := simwork.Bubble(t, func(t *testing.T) { c09DelimBody(tape, o, res) })
	if p != nil {
		res.Violations = append(res.Violations, simwork.Violation{Class: "panic-outside-task", Detail: fmt.Sprint(p)})
	}
	return res
}

var timeoutRE = regexp.MustCompile(`^timed out waiting for result from peer(: read (\d+)/(\d+) bytes of (length prefix|message))?$`)

func c09DelimBody(tape *simrt.Tape, o simwork.Opts, res *simwork.Result) {
	cs := &c09Case{CutAt: -1}
	res.Sample = cs
	maxMsgs := 3
	sizes := []int{0, 2, 3, 5, 17, 100}
	if o.Tier == "thorough" {
		maxMsgs = 5
		sizes = append(sizes, 1000, 65536)
	}
	cs.MaxSize = []int{256, 64, 4096}[tape.Choose(3, "maxsize")]
	if (o.Tier == "thorough" && tape.Bool(1, 4, "bigmax")) || (o.Tier != "thorough" && tape.Bool(1, 16, "bigmax")) {
		// messages of tens of KiB (several reads, more than one allocation step)
		cs.MaxSize = 70000
		sizes = append(sizes, 33000, 40000, 65536)
	}
	cs.TimeoutMs = []int{1000, 10000, 20000, 50}[tape.Choose(4, "timeout")]
	timeout := time.Duration(cs.TimeoutMs) * time.Millisecond
	n := tape.Choose(maxMsgs+1, "nmsgs")
	var stream []byte
	var bounds []int
	var payloads [][]byte
	for i := 0; i < n; i++ {
		var f c09Frame
		switch tape.Choose(8, "framekind") {
		case 0:
			f.Size = cs.MaxSize // exactly the limit
		case 1:
			f.Size = cs.MaxSize + 1 // a complete message one byte above the limit
		case 2:
			f.Oversize = true
			f.Prefix = []uint32{uint32(cs.MaxSize) + 1, 1 << 20, 1 << 28, 1<<32 - 1}[tape.Choose(4, "oversize")]
		default:
			f.Size = sizes[tape.Choose(len(sizes), "size")]
			if f.Size > cs.MaxSize {
				f.Size = cs.MaxSize - 1
			}
		}
		var data []byte
		if !f.Oversize {
			data, _ = proto.Marshal(payloadOfSize(f.Size, byte('a'+i)))
			f.Size = len(data)
			f.Prefix = uint32(len(data))
		}
		var hdr [4]byte
		binary.BigEndian.PutUint32(hdr[:], f.Prefix)
		stream = append(stream, hdr[:]...)
		bounds = append(bounds, len(stream))
		stream = append(stream, data...)
		bounds = append(bounds, len(stream))
		payloads = append(payloads, data)
		cs.Frames = append(cs.Frames, f)
		if f.Oversize {
			break
		}
	}
	if len(stream) > 0 && tape.Bool(1, 2, "cut") {
		cs.CutAt = tape.Choose(len(stream)+1, "cutat")
		if tape.Bool(1, 3, "cut-near-boundary") && len(bounds) > 0 {
			b := bounds[tape.Choose(len(bounds), "cutbound")] + tape.Choose(3, "cutdelta") - 1
			if b >= 0 && b <= len(stream) {
				cs.CutAt = b
			}
		}
		stream = stream[:cs.CutAt]
		res.Faults["truncate-at-byte"]++
	}
	cs.End = tape.Choose(5, "endkind")
	cs.EndName = endNames[cs.End]
	res.Faults["end:"+cs.EndName]++
	delays := []time.Duration{0, time.Millisecond, timeout / 2, timeout - time.Nanosecond, timeout, timeout + time.Nanosecond, 3 * timeout}
	segs := simio.Split(tape, stream, 6, delays)
	for _, s := range segs {
		cs.SegSizes = append(cs.SegSizes, len(s.Data))
		cs.SegDelays = append(cs.SegDelays, s.Delay.String())
		if s.Delay >= timeout {
			res.Faults["gap>=timeout"]++
		}
		if s.Delay == timeout {
			res.Faults["data-exactly-at-timeout"]++
		}
	}
	endDelay := time.Duration(0)
	if tape.Bool(1, 2, "enddelayed") {
		endDelay = delays[tape.Choose(len(delays), "enddelay")]
	}
	cs.EndDelay = endDelay.String()
	cs.Small = tape.Bool(1, 3, "smallchunks")
	cs.PipeLike = tape.Bool(1, 2, "pipelike")
	reader := &simio.Reader{Segs: segs, End: cs.End, EndDelay: endDelay, Boundaries: bounds, SmallChunks: cs.Small, ZeroReadBlocks: cs.PipeLike}

	sim := simrt.New(tape)
	defer sim.Detach()
	sim.KeepLog = o.KeepLog
	sim.Settle = time.Second
	var calls []c09Call
	done := false
	sim.Goal = func() bool { return done }
	simrt.Go("c09.main", func() {
		reader.Start()
		for i := 0; i < len(cs.Frames)+2; i++ {
			msg := &wrapperspb.BytesValue{}
			c := c09Call{T0: sim.Elapsed()}
			var m0 runtime.MemStats
			big := i < len(cs.Frames) && cs.Frames[i].Oversize && cs.Frames[i].Prefix >= 1<<20
			if big {
				runtime.ReadMemStats(&m0)
			}
			c.Err = ReadDelimitedMessage(reader, msg, "peer", timeout, cs.MaxSize)
			if big {
				var m1 runtime.MemStats
				runtime.ReadMemStats(&m1)
				c.Alloc = m1.TotalAlloc - m0.TotalAlloc
			}
			c.T1 = sim.Elapsed()
			c.BytesOut = reader.BytesOut
			if c.Err == nil {
				c.Msg, _ = proto.Marshal(msg)
			}
			calls = append(calls, c)
			if c.Err != nil {
				break
			}
		}
		done = true
	})
	end := sim.Run()
	_ = reader.Close()
	res.Steps, res.Switches, res.Preempts = sim.Steps(), sim.Switches(), sim.Preempts()
	res.SimTime = sim.Elapsed()
	res.LogHash = sim.LogHash()
	for _, ch := range reader.Chunks {
		sim.MixLog(strconv.Itoa(ch))
	}
	res.LogHash = sim.LogHash()
	res.End = end.String()
	res.Invalid = append(res.Invalid, sim.Invalid()...)
	res.Log = sim.Log()
	res.Nontrivial = len(reader.Chunks) > 1 || cs.CutAt >= 0 || cs.End != simio.EndEOF
	viol := func(class, format string, args ...any) {
		res.Violations = append(res.Violations, simwork.Violation{Class: class, Detail: fmt.Sprintf(format, args...)})
	}
	for _, p := range sim.Panics() {
		viol("c09/panic", "%s", p)
	}
	if !done {
		viol("c09/hang", "the reader loop did not finish (end=%s) after %s; tasks: %s", end, sim.Elapsed(), strings.Join(sim.EndSites(), "; "))
		return
	}

	// ---- reference model: walk the frames with the stream's own arrival times
	total := len(stream)
	arrivedBy := func(from, to int, deadline time.Duration, strict bool) int {
		// bytes of [from,to) that have arrived by the deadline
		k := 0
		for off := from; off < to && off < total; off++ {
			a := reader.ArrivalOf(off)
			if a < deadline || (!strict && a == deadline) {
				k++
			}
		}
		return k
	}
	endIsErr := cs.End == simio.EndError || cs.End == simio.EndErrorWithData
	S := time.Duration(0)
	pos := 0
	for i := 0; ; i++ {
		if i >= len(calls) {
			viol("c09/missing-call", "model expects call %d but the loop stopped after %d calls", i, len(calls))
			return
		}
		c := calls[i]
		if c.T0 != S {
			viol("c09/model-desync", "call %d started at %s, model says %s", i, c.T0, S)
			return
		}
		deadline := S + timeout
		// expectation for this call
		type exp struct {
			kind   string // "msg", "eof", "unexpected", "injected", "oversize", "timeout"
			at     time.Duration
			what   string
			lo, hi int
			of     int
			either bool
		}
		var e exp
		timeoutExp := func(prefixDone bool, from, to, of int) exp {
			lo := arrivedBy(from, to, deadline, true)
			hi := arrivedBy(from, to, deadline, false)
			w := "length prefix"
			if prefixDone {
				w = "message"
			}
			return exp{kind: "timeout", at: deadline, what: w, lo: lo, hi: hi, of: of}
		}
		endEvent := func(partial bool) exp {
			at := reader.EndAt()
			if at < S {
				at = S
			}
			if cs.End == simio.EndStall {
				return exp{kind: "stall"}
			}
			k := "eof"
			if partial {
				k = "unexpected"
			}
			if endIsErr {
				k = "injected"
			}
			return exp{kind: k, at: at}
		}
		var frameLen int
		switch {
		case pos == total:
			e = endEvent(false)
			if e.kind == "stall" || e.at > deadline {
				e = exp{kind: "timeout", at: deadline, what: "", of: 0}
			} else if e.at == deadline {
				e.either = true
			}
		case total < pos+4:
			e = endEvent(true)
			if e.kind == "stall" || e.at > deadline {
				e = timeoutExp(false, pos, pos+4, 4)
			} else if e.at == deadline {
				e.either = true
			}
		default:
			P := reader.ArrivalOf(pos + 3)
			if P < S {
				P = S
			}
			prefix := int(binary.BigEndian.Uint32(stream[pos : pos+4]))
			switch {
			case P > deadline:
				e = timeoutExp(false, pos, pos+4, 4)
			case P == deadline:
				e = exp{either: true}
			case prefix > cs.MaxSize:
				e = exp{kind: "oversize", at: P, of: prefix}
			case prefix == 0:
				e = exp{kind: "msg", at: P}
			case total < pos+4+prefix:
				e = endEvent(true)
				if e.kind == "stall" || e.at > deadline {
					e = timeoutExp(true, pos+4, pos+4+prefix, prefix)
				} else if e.at == deadline {
					e.either = true
				}
			default:
				M := reader.ArrivalOf(pos + 4 + prefix - 1)
				if M < P {
					M = P
				}
				switch {
				case M > deadline:
					e = timeoutExp(true, pos+4, pos+4+prefix, prefix)
				case M == deadline:
					e = exp{either: true}
				default:
					e = exp{kind: "msg", at: M}
				}
			}
			frameLen = 4 + prefix
		}
		if e.either {
			// data (or the end) shows up exactly at the timeout instant: either
			// outcome is legal; the call must still return by then and must not
			// return a torn message
			res.Probes["boundary-at-timeout-instant"]++
			if c.T1 > deadline {
				viol("c09/late-return", "call %d returned at %s, after its deadline %s", i, c.T1, deadline)
			}
			if c.Err == nil && pos+frameLen <= total && frameLen > 0 && string(c.Msg) != string(stream[pos+4:pos+frameLen]) {
				viol("c09/torn-message", "call %d returned %d bytes that are not the written message", i, len(c.Msg))
			}
			break
		}
		desc := fmt.Sprintf("call %d (stream offset %d of %d, end=%s, cut=%d)", i, pos, total, cs.EndName, cs.CutAt)
		if e.kind != "stall" && c.T1 != e.at {
			viol("c09/timing", "%s returned at %s, expected %s at %s (err=%v)", desc, c.T1, e.kind, e.at, c.Err)
		}
		switch e.kind {
		case "msg":
			if c.Err != nil {
				viol("c09/message-lost", "%s: a complete message of %d bytes was delivered but the call returned %v", desc, frameLen-4, c.Err)
				return
			}
			if string(c.Msg) != string(stream[pos+4:pos+frameLen]) {
				viol("c09/message-differs", "%s returned %d bytes that differ from the written message (%d bytes)", desc, len(c.Msg), frameLen-4)
			}
			S = e.at
			pos += frameLen
			continue
		case "eof":
			if !errors.Is(c.Err, io.EOF) || errors.Is(c.Err, io.ErrUnexpectedEOF) {
				viol("c09/clean-end", "%s: the stream ended between messages but the call returned %v (msg=%v)", desc, c.Err, c.Err == nil)
			}
		case "unexpected":
			if !errors.Is(c.Err, io.ErrUnexpectedEOF) {
				viol("c09/truncation-not-reported", "%s: the stream ended inside a prefix or message but the call returned %v (a message: %v)", desc, c.Err, c.Err == nil)
			}
		case "injected":
			if !errors.Is(c.Err, simio.ErrInjected) {
				viol("c09/io-error-lost", "%s: the stream failed with an I/O error but the call returned %v", desc, c.Err)
			}
		case "oversize":
			if c.Err == nil || !strings.Contains(c.Err.Error(), strconv.Itoa(e.of)) || !strings.Contains(c.Err.Error(), strconv.Itoa(cs.MaxSize)) {
				viol("c09/oversize-not-rejected", "%s: prefix %d exceeds the limit %d but the call returned %v", desc, e.of, cs.MaxSize, c.Err)
			}
			if c.BytesOut != pos+4 {
				viol("c09/read-after-oversize", "%s: %d bytes were consumed from the stream, the oversize prefix ends at %d", desc, c.BytesOut, pos+4)
			}
			if c.Alloc > 1<<20 {
				viol("c09/oversize-allocated", "%s: %d bytes were allocated while rejecting a %d byte prefix", desc, c.Alloc, e.of)
			}
			res.Probes["oversize-rejected"]++
		case "timeout":
			res.Probes["timeout-fired"]++
			if c.Err == nil {
				viol("c09/timeout-missing", "%s: the peer stalled but the call returned a message", desc)
				break
			}
			m := timeoutRE.FindStringSubmatch(c.Err.Error())
			if m == nil {
				viol("c09/timeout-text", "%s: expected a timeout error, got %q", desc, c.Err.Error())
				break
			}
			if m[1] == "" {
				if e.lo > 0 {
					viol("c09/timeout-progress", "%s: timeout error reports nothing read, but %d byte(s) of the %s had arrived", desc, e.lo, e.what)
				}
				break
			}
			got, _ := strconv.Atoi(m[2])
			of, _ := strconv.Atoi(m[3])
			if e.what == "" {
				viol("c09/timeout-progress", "%s: timeout error says %q but nothing of a further message had arrived", desc, c.Err.Error())
				break
			}
			if m[4] != e.what || of != e.of || got < e.lo || got > e.hi {
				viol("c09/timeout-progress", "%s: timeout error says %q, the stream had delivered %d..%d of %d bytes of the %s", desc, c.Err.Error(), e.lo, e.hi, e.of, e.what)
			}
		}
		break
	}
	res.Cover = append(res.Cover, fmt.Sprintf("end=%s cut=%v frames=%d timeout=%d", cs.EndName, cs.CutAt >= 0, len(cs.Frames), cs.TimeoutMs))
}

// ---------------------------------------------------------------------------
// peer-side stream codecs (both wire variants), framing and truncation clauses

type c09CodecCase struct {
	JSON   bool   `json:"json"`
	Sizes  []int  `json:"message_value_sizes"`
	CutAt  int    `json:"cut_at"`
	End    string `json:"end"`
	Small  bool   `json:"small_chunks"`
	Chunks []int  `json:"chunks"`
}

func c09CodecRun(t *testing.T, tape *simrt.Tape, o simwork.Opts) *simwork.Result {
	res := &simwork.Result{Faults: map[string]int{}, Probes: map[string]int{}, End: "done"}
	simrt.Bump()
	viol := func(class, format string, args ...any) {
		res.Violations = append(res.Violations, simwork.Violation{Class: class, Detail: fmt.Sprintf(format, args...)})
	}
	defer func() {
		if r := recover(); r != nil {
			viol("c09/codec-panic", "%v", r)
		}
	}()
	cs := &c09CodecCase{CutAt: -1}
	res.Sample = cs
	cs.JSON = tape.Bool(1, 2, "json")
	codec := NewCodec(cs.JSON)
	maxMsgs := 3
	if o.Tier == "thorough" {
		maxMsgs = 5
	}
	n := tape.Choose(maxMsgs+1, "nmsgs")
	w := simio.NewWriter()
	enc := codec.NewEncoder(w)
	// real protocol messages are JSON objects (a wrapper type would be a bare
	// JSON string, whose end a streaming JSON decoder cannot see without one
	// more byte)
	var msgs []*conformancev1.ConformancePayload
	var ends []int
	for i := 0; i < n; i++ {
		size := []int{0, 1, 2, 7, 40, 300, 5000}[tape.Choose(7, "size")]
		if tape.Bool(1, 128, "huge") && tape.Bool(1, 64, "huge2") {
			// a long-lived stream carries many megabytes in total
			size = 13 << 20
			res.Probes["stream-above-16MiB"]++
		}
		m := &conformancev1.ConformancePayload{Data: make([]byte, size)}
		for j := range m.Data {
			m.Data[j] = byte(i*31 + j)
		}
		if err := enc.Encode(m); err != nil {
			viol("c09/encode-error", "Encode failed on a healthy writer: %v", err)
			return res
		}
		msgs = append(msgs, m)
		ends = append(ends, len(w.Data))
		cs.Sizes = append(cs.Sizes, size)
	}
	stream := append([]byte(nil), w.Data...)
	if !cs.JSON {
		// the binary variant must be the documented framing
		var want []byte
		for _, m := range msgs {
			data, _ := proto.Marshal(m)
			var hdr [4]byte
			binary.BigEndian.PutUint32(hdr[:], uint32(len(data)))
			want = append(want, hdr[:]...)
			want = append(want, data...)
		}
		if string(want) != string(stream) {
			viol("c09/framing", "binary encoder output differs from 4-byte big-endian length + message")
		}
	}
	total := len(stream)
	if total > 0 && tape.Bool(1, 2, "cut") {
		cs.CutAt = tape.Choose(total+1, "cutat")
		if tape.Bool(1, 2, "cut-near-boundary") && len(ends) > 0 {
			b := ends[tape.Choose(len(ends), "cutbound")] + tape.Choose(7, "cutdelta") - 3
			if b >= 0 && b <= total {
				cs.CutAt = b
			}
		}
		stream = stream[:cs.CutAt]
		res.Faults["truncate-at-byte"]++
	}
	endKind := []int{simio.EndEOF, simio.EndEOFWithData, simio.EndError, simio.EndErrorWithData}[tape.Choose(4, "endkind")]
	cs.End = endNames[endKind]
	res.Faults["end:"+cs.End]++
	cs.Small = tape.Bool(1, 2, "smallchunks")
	var bounds []int
	prev := 0
	for _, e := range ends {
		if !cs.JSON {
			bounds = append(bounds, prev+4)
		}
		bounds = append(bounds, e)
		prev = e
	}
	reader := &simio.Reader{Segs: []simio.Segment{{Data: stream}}, End: endKind, Tape: tape, Boundaries: bounds, SmallChunks: cs.Small}
	if len(stream) == 0 {
		reader.Segs = nil
	}
	dec := codec.NewDecoder(reader)
	endIsErr := endKind == simio.EndError || endKind == simio.EndErrorWithData
	// how many messages are complete in the (cut) stream, and is the cut clean
	complete := 0
	prev = 0
	clean := true
	for i, e := range ends {
		last := e // offset after the message
		need := last
		if cs.JSON {
			need = last - 1 // the newline after the closing brace is optional
		}
		if len(stream) >= need {
			complete = i + 1
			prev = e
			continue
		}
		// cut inside message i: clean only if nothing of it (but white space) was delivered
		if len(stream) > prev {
			clean = false
		}
		break
	}
	// a caller may decode every message into one object (DecodeNext replaces
	// the target's content, like Unmarshal): the sequence read back is still
	// the sequence written
	reuse := tape.Bool(1, 3, "reuse-target")
	if reuse {
		res.Probes["codec-target-reused"]++
	}
	got := &conformancev1.ConformancePayload{}
	for i := 0; i <= complete; i++ {
		if !reuse {
			got = &conformancev1.ConformancePayload{}
		}
		err := dec.DecodeNext(got)
		if i < complete {
			if err != nil {
				viol("c09/codec-message-lost", "%s decoder: message %d of %d is complete in the stream (cut=%d, end=%s) but DecodeNext returned %v", variant(cs.JSON), i, complete, cs.CutAt, cs.End, err)
				return res
			}
			if !proto.Equal(got, msgs[i]) {
				viol("c09/codec-message-differs", "%s decoder: message %d differs from what was encoded", variant(cs.JSON), i)
			}
			continue
		}
		// after the last complete message
		switch {
		case err == nil:
			viol("c09/codec-phantom-message", "%s decoder returned a message after the %d complete ones (cut=%d)", variant(cs.JSON), complete, cs.CutAt)
		case clean && !endIsErr:
			if !errors.Is(err, io.EOF) || errors.Is(err, io.ErrUnexpectedEOF) {
				viol("c09/codec-clean-end", "%s decoder: stream ended between messages but DecodeNext returned %v", variant(cs.JSON), err)
			}
		case clean && endIsErr:
			if !errors.Is(err, simio.ErrInjected) {
				viol("c09/codec-io-error-lost", "%s decoder: stream failed between messages with an I/O error but DecodeNext returned %v", variant(cs.JSON), err)
			}
		case !clean && !endIsErr:
			if errors.Is(err, io.EOF) && !errors.Is(err, io.ErrUnexpectedEOF) && err == io.EOF {
				viol("c09/codec-truncation-not-reported", "%s decoder: stream ended inside message %d (cut=%d) but DecodeNext reported a clean end", variant(cs.JSON), complete, cs.CutAt)
			}
			if !cs.JSON && !errors.Is(err, io.ErrUnexpectedEOF) {
				viol("c09/codec-truncation-not-reported", "binary decoder: stream ended inside message %d (cut=%d) but DecodeNext returned %v", complete, cs.CutAt, err)
			}
		default:
			if err == io.EOF {
				viol("c09/codec-truncation-not-reported", "%s decoder: stream failed inside message %d but DecodeNext reported a clean end", variant(cs.JSON), complete)
			}
		}
	}
	cs.Chunks = reader.Chunks
	if len(cs.Chunks) > 12 {
		cs.Chunks = cs.Chunks[:12]
	}
	h := uint64(1469598103934665603)
	for _, c := range reader.Chunks {
		h = (h ^ uint64(c)) * 1099511628211
	}
	h = (h ^ uint64(cs.CutAt+1)) * 1099511628211
	h = (h ^ uint64(endKind)) * 1099511628211
	for _, s := range cs.Sizes {
		h = (h ^ uint64(s)) * 1099511628211
	}
	if cs.JSON {
		h ^= 0x5555
	}
	res.LogHash = h
	res.Nontrivial = len(reader.Chunks) > 1 || cs.CutAt >= 0
	res.Cover = append(res.Cover, fmt.Sprintf("%s end=%s cut=%v clean=%v complete=%d", variant(cs.JSON), cs.End, cs.CutAt >= 0, clean, complete))
	return res
}

func variant(json bool) string {
	if json {
		return "json"
	}
	return "binary"
}
