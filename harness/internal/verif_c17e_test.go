//go:build verif

package internal

// Check C17, scenario c17-encoders-concurrent: the raw body encoders are used
// by several connections at the same time (the reference server writes raw
// responses from concurrent handlers, the reference client sends raw requests
// from parallel RPCs). 2-3 tasks each encode their own raw body (a unary
// MessageContents or a stream of 1-3 items, uncompressed or gzip) into their
// own sink under the seeded scheduler; every Write to a sink is a scheduling
// point. Each sink must receive exactly its own body: the bytes the
// specification prescribes, nothing of another task's body and nothing missing.

import (
	"bytes"
	"compress/gzip"
	"encoding/binary"
	"fmt"
	"io"
	"strings"
	"testing"

	conformancev1 "connectrpc.com/conformance/internal/gen/proto/go/connectrpc/conformance/v1"
	"connectrpc.com/conformance/internal/verifsim/simrt"
	"connectrpc.com/conformance/internal/verifsim/simwork"
	"google.golang.org/protobuf/proto"
)

func init() { verifScenarios["c17-encoders-concurrent"] = c17eRun }

type c17eSink struct{ data []byte }

func (s *c17eSink) Write(p []byte) (int, error) {
	simrt.Yield("c17e.sink.write")
	s.data = append(s.data, p...)
	return len(p), nil
}

type c17eItem struct {
	Flags uint32 `json:"flags"`
	Gzip  bool   `json:"gzip"`
	Data  string `json:"data"`
}

type c17eBody struct {
	Stream bool       `json:"stream"`
	Items  []c17eItem `json:"items"`
	sink   *c17eSink
	err    error
	done   bool
}

func c17eRun(t *testing.T, tape *simrt.Tape, o simwork.Opts) *simwork.Result {
	res := &simwork.Result{Faults: map[string]int{}, Probes: map[string]int{}}
	p := simwork.Bubble(t, func(t *testing.T) { c17eBodyRun(tape, o, res) })
	if p != nil {
		res.Violations = append(res.Violations, simwork.Violation{Class: "panic-outside-task", Detail: fmt.Sprint(p)})
	}
	return res
}

func c17eBodyRun(tape *simrt.Tape, o simwork.Opts, res *simwork.Result) {
	n := tape.Range(2, 3, "bodies")
	var bodies []*c17eBody
	for i := 0; i < n; i++ {
		b := &c17eBody{Stream: tape.Bool(1, 2, "stream"), sink: &c17eSink{}}
		k := 1
		if b.Stream {
			k = tape.Range(1, 3, "items")
		}
		for j := 0; j < k; j++ {
			size := []int{0, 1, 7, 40, 300}[tape.Choose(5, "size")]
			b.Items = append(b.Items, c17eItem{Flags: uint32(tape.Choose(4, "flags")), Gzip: tape.Bool(1, 4, "gzip"),
				Data: strings.Repeat(string(rune('a'+i)), size) + fmt.Sprintf("<%d.%d>", i, j)})
		}
		bodies = append(bodies, b)
	}
	res.Sample = bodies
	sim := simrt.New(tape)
	defer sim.Detach()
	sim.KeepLog = o.KeepLog
	sim.Goal = func() bool {
		for _, b := range bodies {
			if !b.done {
				return false
			}
		}
		return true
	}
	contents := func(it c17eItem) *conformancev1.MessageContents {
		mc := &conformancev1.MessageContents{Data: &conformancev1.MessageContents_Binary{Binary: []byte(it.Data)}}
		if it.Gzip {
			mc.Compression = conformancev1.Compression_COMPRESSION_GZIP
		}
		return mc
	}
	for i := range bodies {
		b := bodies[i]
		simrt.Go("c17e.encoder", func() {
			defer func() { b.done = true }()
			if b.Stream {
				sc := &conformancev1.StreamContents{}
				for _, it := range b.Items {
					sc.Items = append(sc.Items, &conformancev1.StreamContents_StreamItem{Flags: it.Flags, Payload: contents(it)})
				}
				b.err = WriteRawStreamContents(sc, b.sink)
			} else {
				b.err = WriteRawMessageContents(contents(b.Items[0]), b.sink)
			}
		})
	}
	end := sim.Run()
	res.Steps, res.Switches, res.Preempts = sim.Steps(), sim.Switches(), sim.Preempts()
	res.SimTime = sim.Elapsed()
	res.LogHash = sim.LogHash()
	res.End = end.String()
	res.Invalid = append(res.Invalid, sim.Invalid()...)
	res.Log = sim.Log()
	res.Nontrivial = sim.Preempts() > 0
	viol := func(class, format string, args ...any) {
		res.Violations = append(res.Violations, simwork.Violation{Class: class, Detail: fmt.Sprintf(format, args...)})
	}
	for _, pn := range sim.Panics() {
		viol("c17/encoders/panic", "%s", pn)
	}
	gunzip := func(p []byte) ([]byte, error) {
		zr, err := gzip.NewReader(bytes.NewReader(p))
		if err != nil {
			return nil, err
		}
		return io.ReadAll(zr)
	}
	for i, b := range bodies {
		if !b.done {
			viol("c17/encoders/hang", "encoder %d did not finish; end=%s; tasks: %s", i, end, strings.Join(sim.EndSites(), "; "))
			return
		}
		if b.err != nil {
			viol("c17/encoders/error", "encoder %d returned %v", i, b.err)
			continue
		}
		got := b.sink.data
		bad := func(format string, args ...any) {
			viol("c17/encoders/body", "body %d of %d concurrently encoded ones (%s): %s; sink received %d bytes %q", i, len(bodies), c17eDescribe(b), fmt.Sprintf(format, args...), len(got), c17eTrunc(got))
		}
		if !b.Stream {
			it := b.Items[0]
			payload := got
			if it.Gzip {
				plain, err := gunzip(got)
				if err != nil {
					bad("not a gzip stream: %v", err)
					continue
				}
				payload = plain
			}
			if string(payload) != it.Data {
				bad("decodes to %q, specified %q", c17eTrunc(payload), it.Data)
			}
			continue
		}
		pos := 0
		for j, it := range b.Items {
			if len(got)-pos < 5 {
				bad("item %d: body ends inside the prefix", j)
				break
			}
			if uint32(got[pos]) != it.Flags {
				bad("item %d: flags %d, specified %d", j, got[pos], it.Flags)
				break
			}
			l := int(binary.BigEndian.Uint32(got[pos+1 : pos+5]))
			pos += 5
			if l > len(got)-pos {
				bad("item %d: length %d exceeds the remaining %d bytes", j, l, len(got)-pos)
				break
			}
			payload := got[pos : pos+l]
			pos += l
			if it.Gzip {
				plain, err := gunzip(payload)
				if err != nil {
					bad("item %d: payload is not a gzip stream: %v", j, err)
					break
				}
				payload = plain
			}
			if string(payload) != it.Data {
				bad("item %d decodes to %q, specified %q", j, c17eTrunc(payload), it.Data)
				break
			}
			if j == len(b.Items)-1 && pos != len(got) {
				bad("%d extra bytes after the last item", len(got)-pos)
			}
		}
	}
	res.Probes["concurrent-encoders"]++
	_ = proto.Size
}

func c17eDescribe(b *c17eBody) string {
	kind := "unary"
	if b.Stream {
		kind = fmt.Sprintf("stream of %d", len(b.Items))
	}
	var parts []string
	for _, it := range b.Items {
		c := "identity"
		if it.Gzip {
			c = "gzip"
		}
		parts = append(parts, fmt.Sprintf("%s/%dB", c, len(it.Data)))
	}
	return kind + " " + strings.Join(parts, ",")
}

func c17eTrunc(p []byte) string {
	if len(p) > 60 {
		return string(p[:60]) + "..."
	}
	return string(p)
}
