//go:build verif

// The cross-component half of C20 lives in the external test package of
// internal/compression: internal/tracer and internal (raw payload encoders)
// import the compression package, so package compression itself cannot import
// them.
package compression_test

import (
	"bytes"
	"compress/gzip"
	"encoding/binary"
	"fmt"
	"hash/fnv"
	"io"
	"runtime/debug"
	"strings"
	"testing"

	"connectrpc.com/conformance/internal"
	"connectrpc.com/conformance/internal/compression"
	conformancev1 "connectrpc.com/conformance/internal/gen/proto/go/connectrpc/conformance/v1"
	"connectrpc.com/conformance/internal/tracer"
	"connectrpc.com/conformance/internal/verifsim/simio"
	"connectrpc.com/conformance/internal/verifsim/simrt"
	"connectrpc.com/conformance/internal/verifsim/simwork"
	"connectrpc.com/connect"
	"google.golang.org/protobuf/types/known/anypb"
)

func init() { compression.VerifRegister("c20-names", c20NamesRun) }

type c20NamesEnc struct {
	Encoding string `json:"encoding"`
	Payload  string `json:"payload"`
	Form     string `json:"raw_payload_form"`
	Source   string `json:"decode_source"`
}

type c20NamesItem struct {
	Encoding string `json:"encoding"`
	Payload  string `json:"payload"`
	Flags    uint32 `json:"flags"`
	Length   string `json:"length"`
}

type c20NamesCase struct {
	Encodings []c20NamesEnc  `json:"per_encoding"`
	Stream    []c20NamesItem `json:"raw_stream_items"`
}

// what the reference peers register: the repository's constructors under the
// repository's name constants; gzip is connect-go's built-in (compress/gzip);
// identity means the bytes travel as they are
type c20Peer struct {
	comp   func() connect.Compressor
	decomp func() connect.Decompressor
}

var c20Peers = map[string]c20Peer{
	compression.Brotli:  {compression.NewBrotliCompressor, compression.NewBrotliDecompressor},
	compression.Deflate: {compression.NewDeflateCompressor, compression.NewDeflateDecompressor},
	compression.Snappy:  {compression.NewSnappyCompressor, compression.NewSnappyDecompressor},
	compression.Zstd:    {compression.NewZstdCompressor, compression.NewZstdDecompressor},
	compression.Gzip: {
		func() connect.Compressor { return gzip.NewWriter(io.Discard) },
		func() connect.Decompressor { return &gzip.Reader{} },
	},
}

type c20NamesExec struct {
	tape   *simrt.Tape
	res    *simwork.Result
	hash   func(string)
	chunks int
}

func (x *c20NamesExec) viol(class, format string, args ...any) {
	x.res.Violations = append(x.res.Violations, simwork.Violation{Class: class, Detail: fmt.Sprintf(format, args...)})
}

func (x *c20NamesExec) guard(what string, f func()) {
	defer func() {
		if r := recover(); r != nil {
			st := strings.Split(string(debug.Stack()), "\n")
			var fr []string
			for _, l := range st {
				if strings.Contains(l, "connectrpc.com/conformance/internal") && !strings.HasPrefix(l, "\t") && !strings.Contains(l, "c20NamesExec") {
					if i := strings.LastIndex(l, "("); i > 0 {
						l = l[:i]
					}
					fr = append(fr, l[strings.LastIndex(l, "/")+1:])
				}
			}
			if len(fr) > 4 {
				fr = fr[:4]
			}
			x.viol("c20/panic", "%s: panic: %v [%s]", what, r, strings.Join(fr, " < "))
		}
	}()
	f()
}

func c20Compress(c connect.Compressor, p []byte) ([]byte, error) {
	var buf bytes.Buffer
	c.Reset(&buf)
	if _, err := c.Write(p); err != nil {
		return nil, fmt.Errorf("Write: %w", err)
	}
	if err := c.Close(); err != nil {
		return nil, fmt.Errorf("Close: %w", err)
	}
	return buf.Bytes(), nil
}

// decode reads stream through d (source: bytes.Reader or a chunked simio stream).
func (x *c20NamesExec) decode(d connect.Decompressor, stream []byte, chunked bool) ([]byte, error) {
	var src io.Reader = bytes.NewReader(stream)
	var sr *simio.Reader
	if chunked {
		sr = &simio.Reader{Tape: x.tape, End: simio.EndEOF}
		if len(stream) > 0 {
			sr.Segs = []simio.Segment{{Data: append([]byte(nil), stream...)}}
		}
		src = sr
	}
	if err := d.Reset(src); err != nil {
		return nil, fmt.Errorf("Reset: %w", err)
	}
	out, err := io.ReadAll(d)
	_ = d.Close()
	if sr != nil {
		x.chunks += len(sr.Chunks)
		x.hash(fmt.Sprint(sr.Chunks))
	}
	return out, err
}

func c20Same(got []byte, err error, want []byte) string {
	if err != nil {
		return fmt.Sprintf("error %q after %d of %d bytes", err.Error(), len(got), len(want))
	}
	if !bytes.Equal(got, want) {
		return fmt.Sprintf("got %d bytes, want %d", len(got), len(want))
	}
	return ""
}

func c20NamesRun(t *testing.T, tape *simrt.Tape, o simwork.Opts) *simwork.Result {
	simrt.Bump()
	compression.C20PinProcs()
	res := &simwork.Result{Faults: map[string]int{}, Probes: map[string]int{}}
	cs := &c20NamesCase{}
	res.Sample = cs
	h := fnv.New64a()
	x := &c20NamesExec{tape: tape, res: res, hash: func(s string) { h.Write([]byte(s)); h.Write([]byte{0}) }}

	type drawn struct {
		enc     compression.C20Enc
		payload []byte
		desc    string
	}
	var all []drawn
	for _, enc := range compression.C20Encs {
		p, desc := compression.C20Payload(tape, o.Tier)
		form := []string{"binary", "text", "binary_message"}[tape.Choose(3, "names.form")]
		chunked := tape.Bool(1, 2, "names.chunked")
		src := "bytes.Reader"
		if chunked {
			src = "simio"
		}
		cs.Encodings = append(cs.Encodings, c20NamesEnc{Encoding: enc.Name, Payload: desc, Form: form, Source: src})
		all = append(all, drawn{enc, p, desc})
		x.hash(enc.Name + desc + form + src)
		if compression.C20Excluded(enc.Name) {
			continue
		}
		if len(p) == 0 {
			res.Probes["empty-payload:"+enc.Name]++
		}
		res.Cover = append(res.Cover, fmt.Sprintf("names: %s raw-form=%s empty=%v chunked=%v", enc.Name, form, len(p) == 0, chunked))
		tag := fmt.Sprintf("encoding=%s payload=%s", enc.Name, desc)

		// (A) runner's compressor for the enum value -> wire tracer's decompressor for the name
		var runnerOut []byte
		x.guard(tag+" runner->tracer", func() {
			c, err := compression.GetCompressor(enc.Enum)
			if err != nil {
				x.viol("c20/names/runner-to-tracer", "%s: GetCompressor(%v): %v", tag, enc.Enum, err)
				return
			}
			runnerOut, err = c20Compress(c, p)
			if err != nil {
				x.viol("c20/names/runner-to-tracer", "%s: compressing with GetCompressor(%v): %v", tag, enc.Enum, err)
				runnerOut = nil
				return
			}
			got, derr := x.decode(tracer.GetDecompressor(enc.Name), runnerOut, chunked)
			if d := c20Same(got, derr, p); d != "" {
				x.viol("c20/names/runner-to-tracer", "%s: %d bytes written by compression.GetCompressor(%v), read by tracer.GetDecompressor(%q): %s", tag, len(runnerOut), enc.Enum, enc.Name, d)
			}
		})

		// (B) what the reference peers register under this name
		x.guard(tag+" peers", func() {
			if enc.Name == "identity" {
				if compression.Identity != "identity" {
					x.viol("c20/names/peer", "compression.Identity = %q", compression.Identity)
				}
				if runnerOut != nil && !bytes.Equal(runnerOut, p) {
					x.viol("c20/names/peer", "%s: the identity compressor changed the bytes (%d -> %d)", tag, len(p), len(runnerOut))
				}
				for _, e := range []conformancev1.Compression{conformancev1.Compression_COMPRESSION_UNSPECIFIED} {
					c, err := compression.GetCompressor(e)
					if err != nil {
						x.viol("c20/names/peer", "%s: GetCompressor(%v): %v", tag, e, err)
						continue
					}
					out, err := c20Compress(c, p)
					if err != nil || !bytes.Equal(out, p) {
						x.viol("c20/names/peer", "%s: GetCompressor(%v) is not the identity (err=%v, %d -> %d bytes)", tag, e, err, len(p), len(out))
					}
				}
				return
			}
			peer, ok := c20Peers[enc.Name]
			if !ok {
				x.viol("c20/names/peer", "no name constant of internal/compression equals the IANA name %q", enc.Name)
				return
			}
			peerOut, err := c20Compress(peer.comp(), p)
			if err != nil {
				x.viol("c20/names/peer", "%s: the compressor the reference peers register under %q failed: %v", tag, enc.Name, err)
				return
			}
			got, derr := x.decode(tracer.GetDecompressor(enc.Name), peerOut, chunked)
			if d := c20Same(got, derr, p); d != "" {
				x.viol("c20/names/peer", "%s: written by the peers' compressor for %q, read by tracer.GetDecompressor(%q): %s", tag, enc.Name, enc.Name, d)
			}
			rd, err := compression.GetDecompressor(enc.Enum)
			if err != nil {
				x.viol("c20/names/peer", "%s: GetDecompressor(%v): %v", tag, enc.Enum, err)
				return
			}
			got, derr = x.decode(rd, peerOut, chunked)
			if d := c20Same(got, derr, p); d != "" {
				x.viol("c20/names/peer", "%s: written by the peers' compressor for %q, read by compression.GetDecompressor(%v): %s", tag, enc.Name, enc.Enum, d)
			}
			if runnerOut != nil {
				got, derr = x.decode(peer.decomp(), runnerOut, chunked)
				if d := c20Same(got, derr, p); d != "" {
					x.viol("c20/names/peer", "%s: written by compression.GetCompressor(%v), read by the peers' decompressor for %q: %s", tag, enc.Enum, enc.Name, d)
				}
			}
		})

		// (C) raw payload encoder (one message) -> tracer's decompressor for the name
		x.guard(tag+" raw message", func() {
			mc := &conformancev1.MessageContents{Compression: enc.Enum}
			rawP := p
			if len(p) == 0 {
				// present but empty: a nil and a zero-length slice are the same payload
				// (after a trip through protobuf an empty bytes field is nil)
				if tape.Bool(1, 2, "names.empty-as-nil") {
					rawP = nil
					res.Probes["empty-payload-nil"]++
				} else {
					rawP = []byte{}
				}
			}
			switch form {
			case "binary":
				mc.Data = &conformancev1.MessageContents_Binary{Binary: rawP}
			case "text":
				mc.Data = &conformancev1.MessageContents_Text{Text: string(p)}
			default:
				mc.Data = &conformancev1.MessageContents_BinaryMessage{BinaryMessage: &anypb.Any{TypeUrl: "type.googleapis.com/connectrpc.conformance.v1.UnaryResponse", Value: rawP}}
			}
			var buf bytes.Buffer
			if err := internal.WriteRawMessageContents(mc, &buf); err != nil {
				x.viol("c20/names/raw-message", "%s form=%s: WriteRawMessageContents: %v", tag, form, err)
				return
			}
			got, derr := x.decode(tracer.GetDecompressor(enc.Name), buf.Bytes(), chunked)
			if d := c20Same(got, derr, p); d != "" {
				x.viol("c20/names/raw-message", "%s form=%s: %d bytes written by WriteRawMessageContents (compression %v), read by tracer.GetDecompressor(%q): %s", tag, form, buf.Len(), enc.Enum, enc.Name, d)
			}
		})
	}

	// (C') a name that denotes no algorithm in the runner, the peers and the raw
	// encoders denotes none in the tracer either: whatever is read through it,
	// nothing comes out as "decoded" (an error or no bytes are both fine)
	x.guard("foreign name", func() {
		foreign := []struct{ name, like string }{
			{"unspecified", ""}, {"UNSPECIFIED", ""}, {"\u017fnappy", "snappy"}, {"z\u017ftd", "zstd"}, {"gz\u0131p", "gzip"},
			{"x-gzip", "gzip"}, {"gzip ", "gzip"}, {"compress", ""}, {"zlib", "deflate"}, {"lz4", ""}, {"identity2", ""},
		}
		f := foreign[tape.Choose(len(foreign), "names.foreign")]
		x.hash("foreign:" + f.name)
		data := []byte("payload read through a name that is no encoding name: " + f.name)
		stream := data
		for _, enc := range compression.C20Encs {
			if enc.Name == f.like && !compression.C20Excluded(enc.Name) {
				if c, err := compression.GetCompressor(enc.Enum); err == nil {
					if out, err := c20Compress(c, data); err == nil {
						stream = out
					}
				}
			}
		}
		got, _ := x.decode(tracer.GetDecompressor(f.name), stream, false)
		res.Probes["foreign-encoding-name"]++
		if len(got) > 0 {
			x.viol("c20/names/foreign-name", "tracer.GetDecompressor(%q) decoded %d bytes (%q...) although %q is not the name of an encoding anywhere else", f.name, len(got), c20Trunc(got), f.name)
		}
	})

	// (D) raw stream encoder with per-item compression
	nItems := tape.Range(1, 3, "names.items")
	type item struct {
		d     drawn
		flags uint32
		last  bool
	}
	var items []item
	sc := &conformancev1.StreamContents{}
	skip := false
	for i := 0; i < nItems; i++ {
		d := all[tape.Choose(len(all), "names.item.enc")]
		flags := []uint32{1, 0, 3, 0x81}[tape.Choose(4, "names.item.flags")]
		si := &conformancev1.StreamContents_StreamItem{Flags: flags,
			Payload: &conformancev1.MessageContents{Data: &conformancev1.MessageContents_Binary{Binary: d.payload}, Compression: d.enc.Enum}}
		length := "computed"
		// an explicit (arbitrary) length only on the last item: what follows its prefix is its payload
		if tape.Bool(1, 4, "names.item.length") && i == nItems-1 {
			l := uint32(tape.Choose(1<<16, "names.item.lengthval"))
			si.Length = &l
			length = fmt.Sprintf("declared %d", l)
		} else {
			tape.Choose(1, "names.item.lengthval")
		}
		sc.Items = append(sc.Items, si)
		items = append(items, item{d: d, flags: flags, last: si.Length != nil})
		cs.Stream = append(cs.Stream, c20NamesItem{Encoding: d.enc.Name, Payload: d.desc, Flags: flags, Length: length})
		x.hash(fmt.Sprint(d.enc.Name, d.desc, flags, length))
		if compression.C20Excluded(d.enc.Name) {
			skip = true
		}
	}
	chunked := tape.Bool(1, 2, "names.stream.chunked")
	if !skip {
		x.guard("raw stream", func() {
			var buf bytes.Buffer
			if err := internal.WriteRawStreamContents(sc, &buf); err != nil {
				x.viol("c20/names/raw-stream", "WriteRawStreamContents(%d items): %v", nItems, err)
				return
			}
			rest := buf.Bytes()
			for i, it := range items {
				tag := fmt.Sprintf("item %d of %d encoding=%s payload=%s", i+1, nItems, it.d.enc.Name, it.d.desc)
				if len(rest) < 5 {
					x.viol("c20/names/raw-stream", "%s: only %d bytes left, no prefix", tag, len(rest))
					return
				}
				if uint32(rest[0]) != it.flags {
					x.viol("c20/names/raw-stream", "%s: flags byte %#x, want %#x", tag, rest[0], it.flags)
				}
				n := int(binary.BigEndian.Uint32(rest[1:5]))
				rest = rest[5:]
				if it.last {
					n = len(rest)
				}
				if n > len(rest) {
					x.viol("c20/names/raw-stream", "%s: prefix announces %d bytes, %d left", tag, n, len(rest))
					return
				}
				got, derr := x.decode(tracer.GetDecompressor(it.d.enc.Name), rest[:n], chunked)
				if d := c20Same(got, derr, it.d.payload); d != "" {
					x.viol("c20/names/raw-stream", "%s: %d bytes written by WriteRawStreamContents (compression %v), read by tracer.GetDecompressor(%q): %s", tag, n, it.d.enc.Enum, it.d.enc.Name, d)
				}
				rest = rest[n:]
			}
			if len(rest) != 0 {
				x.viol("c20/names/raw-stream", "%d bytes left after the last item", len(rest))
			}
		})
	}
	res.End = "done"
	res.LogHash = h.Sum64()
	res.Nontrivial = x.chunks > 0
	res.Steps = x.chunks
	res.Cover = append(res.Cover, fmt.Sprintf("names: stream-items=%d", nItems))
	return res
}

func c20Trunc(b []byte) string {
	if len(b) > 24 {
		b = b[:24]
	}
	return string(b)
}
