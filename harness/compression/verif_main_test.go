//go:build verif

package compression

import (
	"testing"

	"connectrpc.com/conformance/internal/verifsim/simwork"
)

var verifScenarios = map[string]simwork.RunFunc{}

// VerifRegister adds a scenario from the external test package of this
// directory (package compression_test): the cross-component scenario has to
// import internal/tracer and internal, which import this package, so it
// cannot live in package compression itself (import cycle).
func VerifRegister(name string, fn simwork.RunFunc) { verifScenarios[name] = fn }

// TestVerif is the worker entry point used by /verif/vcheck.
func TestVerif(t *testing.T) {
	simwork.Main(t, verifScenarios)
}
