//go:build verif

package compression

import (
	"bytes"
	"errors"
	"fmt"
	"io"
	"net/http"
	"os"
	"runtime"
	"runtime/debug"
	"strings"
	"sync"
	"testing"
	"time"

	conformancev1 "connectrpc.com/conformance/internal/gen/proto/go/connectrpc/conformance/v1"
	"connectrpc.com/conformance/internal/verifsim/simio"
	"connectrpc.com/conformance/internal/verifsim/simrt"
	"connectrpc.com/conformance/internal/verifsim/simwork"
	"connectrpc.com/connect"
)

func init() {
	verifScenarios["c20-pool"] = c20PoolRun
}

// C20Enc is one supported encoding: IANA name and enum value.
type C20Enc struct {
	Name string
	Enum conformancev1.Compression
}

// C20Encs lists the six supported encodings; index 0 is the simplest one.
var C20Encs = []C20Enc{
	{"identity", conformancev1.Compression_COMPRESSION_IDENTITY},
	{"gzip", conformancev1.Compression_COMPRESSION_GZIP},
	{"br", conformancev1.Compression_COMPRESSION_BR},
	{"zstd", conformancev1.Compression_COMPRESSION_ZSTD},
	{"deflate", conformancev1.Compression_COMPRESSION_DEFLATE},
	{"snappy", conformancev1.Compression_COMPRESSION_SNAPPY},
}

// C20Excluded reports whether an encoding was excluded through the debugging
// knob VERIF_C20_EXCLUDE (comma separated names; empty by default: nothing is
// skipped). Runs that draw an excluded encoding end at once; the tape layout
// does not change, so replay files stay valid with and without the knob.
func C20Excluded(name string) bool {
	for _, x := range strings.Split(os.Getenv("VERIF_C20_EXCLUDE"), ",") {
		if x != "" && x == name {
			return true
		}
	}
	return false
}

// C20Bytes derives n incompressible bytes from a seed (splitmix64).
func C20Bytes(seed uint64, n int) []byte {
	out := make([]byte, 0, n+8)
	s := seed
	for len(out) < n {
		s += 0x9e3779b97f4a7c15
		z := s
		z = (z ^ (z >> 30)) * 0xbf58476d1ce4e5b9
		z = (z ^ (z >> 27)) * 0x94d049bb133111eb
		z ^= z >> 31
		for i := 0; i < 8; i++ {
			out = append(out, byte(z>>(8*i)))
		}
	}
	return out[:n]
}

// C20Payload draws one payload (always the same number of tape entries).
func C20Payload(tape *simrt.Tape, tier string) ([]byte, string) {
	kind := tape.Choose(8, "payload.kind")
	seed := tape.Choose(1<<30, "payload.seed")
	big := 64 << 10
	if tier == "thorough" {
		big = 1 << 20
	}
	switch kind {
	case 0:
		return []byte{}, "empty"
	case 1:
		return []byte{byte(seed)}, fmt.Sprintf("1 byte 0x%02x", byte(seed))
	case 2, 3:
		p := []byte("hello, compression! " + strings.Repeat("ab", seed%9))
		return p, fmt.Sprintf("short text (%d bytes)", len(p))
	case 4, 5:
		return C20Bytes(uint64(seed), 4096), fmt.Sprintf("4 KiB incompressible (seed %d)", seed)
	case 6:
		p := bytes.Repeat([]byte(fmt.Sprintf("line %d of a repetitive text\n", seed%97)), 40+seed%80)
		return p, fmt.Sprintf("repetitive text (%d bytes)", len(p))
	default:
		if seed%41 == 1 {
			// a highly compressible message above 8 MiB (zero padding of the
			// message-size suites): tiny compressed form, huge decoded form
			return make([]byte, 9<<20), "9 MiB zeros"
		}
		if seed%3 == 0 {
			// just above the sizes at which block-based codecs switch to several
			// blocks / a larger window (zstd: 128 KiB blocks), like the ~200 KB
			// messages of the message-size suites
			n := []int{128 << 10, 128<<10 + 1, 200 << 10}[(seed/3)%3]
			return bytes.Repeat([]byte("0123456789abcdef"), n/16+1)[:n], fmt.Sprintf("%d bytes of repetitive text", n)
		}
		return make([]byte, big), fmt.Sprintf("%d KiB zeros", big>>10)
	}
}

var c20Procs sync.Once

// C20PinProcs pins the process to one P. klauspost/zstd picks its threading
// mode from GOMAXPROCS when an instance is created; one P (the workers'
// setting) keeps every step of a run on the caller's own goroutine, whatever
// the environment says.
func C20PinProcs() { c20Procs.Do(func() { runtime.GOMAXPROCS(1) }) }

// ---------------------------------------------------------------------------

type c20Job struct {
	Task     int    `json:"task"`
	Seq      int    `json:"seq"`
	Kind     string `json:"kind"` // round-trip | faulty | abandon
	Payload  string `json:"payload"`
	Pieces   int    `json:"write_pieces"`
	PreComp  string `json:"abandoned_compression_before,omitempty"`
	CompPut  string `json:"compressor_put"`
	Fault    string `json:"fault,omitempty"`
	PosMode  string `json:"fault_position,omitempty"`
	Source   string `json:"source"`
	Segs     int    `json:"segments"`
	DelayUs  int    `json:"segment_gap_us"`
	End      string `json:"stream_end"`
	ReadBuf  int    `json:"read_buffer"`
	DecPut   string `json:"decompressor_put"`
	endKind  int
	posSeed  int
	bitSeed  int
	garbLen  int
	garbSeed int
	cutSeed  int
	abSeed   int
	pieceSd  int
	payload  []byte
}

type c20Case struct {
	Encoding      string      `json:"encoding"`
	Compressors   int         `json:"pooled_compressors"`
	Decompressors int         `json:"pooled_decompressors"`
	Tasks         [][]*c20Job `json:"tasks"`
}

func c20GenJob(tape *simrt.Tape, tier string, task, seq int) *c20Job {
	j := &c20Job{Task: task, Seq: seq}
	switch k := tape.Choose(8, "job.kind"); {
	case k <= 3:
		j.Kind = "round-trip"
	case k <= 6:
		j.Kind = "faulty"
	default:
		j.Kind = "abandon"
	}
	j.payload, j.Payload = C20Payload(tape, tier)
	j.Pieces = 1 + tape.Choose(3, "job.pieces")
	j.pieceSd = tape.Choose(1<<20, "job.pieceseed")
	j.PreComp = []string{"", "", "", "", "", "", "no-close", "sink-error"}[tape.Choose(8, "job.precomp")]
	j.CompPut = []string{"close", "close+reset-discard"}[tape.Choose(2, "job.compput")]
	fault := []string{"truncate", "bit-flip", "trailing-garbage", "garbage", "empty-input", "io-error"}[tape.Choose(6, "job.fault")]
	posMode := []string{"head", "anywhere", "tail"}[tape.Choose(3, "job.posmode")]
	j.posSeed = tape.Choose(1<<20, "job.posseed")
	j.bitSeed = tape.Choose(8, "job.bit")
	j.garbLen = 1 + tape.Choose(48, "job.garbagelen")
	j.garbSeed = tape.Choose(1<<30, "job.garbageseed")
	j.Source = []string{"bytes.Buffer", "simio", "simio"}[tape.Choose(3, "job.source")]
	j.Segs = 1 + tape.Choose(2, "job.segs")
	j.cutSeed = tape.Choose(1<<20, "job.cut")
	j.DelayUs = []int{0, 0, 1000}[tape.Choose(3, "job.delay")]
	endSel := tape.Choose(2, "job.end")
	small := len(j.payload) <= 256
	if small {
		j.ReadBuf = []int{4096, 1, 7, 512}[tape.Choose(4, "job.readbuf")]
	} else if len(j.payload) > 64<<10 {
		j.ReadBuf = []int{32 << 10, 4096, 64 << 10, 1024}[tape.Choose(4, "job.readbuf")]
	} else {
		j.ReadBuf = []int{4096, 512, 32 << 10, 100}[tape.Choose(4, "job.readbuf")]
	}
	j.DecPut = []string{"close", "close+reset-nobody", "close-twice", "no-close"}[tape.Choose(4, "job.decput")]
	tape.Choose(3, "job.reserved")
	j.abSeed = tape.Choose(1<<20, "job.abandon")
	if j.Kind == "faulty" {
		j.Fault, j.PosMode = fault, posMode
	}
	j.endKind = []int{simio.EndEOF, simio.EndEOFWithData}[endSel]
	j.End = []string{"eof", "eof-with-data"}[endSel]
	if j.Fault == "io-error" {
		j.Source = "simio"
		j.endKind = []int{simio.EndError, simio.EndErrorWithData}[endSel]
		j.End = []string{"error", "error-with-data"}[endSel]
	}
	if j.Source != "simio" {
		j.Segs, j.DelayUs, j.End = 1, 0, "eof"
	}
	return j
}

func c20Pos(mode string, seed, n int) int {
	w := n
	if w > 16 {
		w = 16
	}
	switch mode {
	case "head":
		return seed % w
	case "tail":
		return n - 1 - seed%w
	}
	return seed % n
}

// c20Stream derives the bytes a decode job is fed with from the valid stream.
func (j *c20Job) stream(valid []byte) (stream []byte, isValid bool, what string) {
	cp := append([]byte(nil), valid...)
	switch j.Kind {
	case "round-trip", "abandon":
		return cp, true, "valid"
	}
	garbage := C20Bytes(uint64(j.garbSeed), j.garbLen)
	switch j.Fault {
	case "truncate":
		if len(cp) == 0 {
			return cp, true, "valid (nothing to truncate)"
		}
		k := c20Pos(j.PosMode, j.posSeed, len(cp))
		return cp[:k], false, fmt.Sprintf("truncated at %d of %d", k, len(cp))
	case "bit-flip":
		if len(cp) == 0 {
			return garbage[:1], false, "one garbage byte instead of the empty stream"
		}
		k := c20Pos(j.PosMode, j.posSeed, len(cp))
		cp[k] ^= 1 << uint(j.bitSeed)
		return cp, false, fmt.Sprintf("bit %d of byte %d of %d flipped", j.bitSeed, k, len(cp))
	case "trailing-garbage":
		return append(cp, garbage...), false, fmt.Sprintf("valid %d bytes + %d garbage bytes", len(cp), len(garbage))
	case "garbage":
		return garbage, false, fmt.Sprintf("%d garbage bytes", len(garbage))
	case "empty-input":
		if len(cp) == 0 {
			return cp, true, "valid (the valid stream is empty)"
		}
		return nil, false, "empty input"
	case "io-error":
		k := 0
		if len(cp) > 0 {
			k = c20Pos(j.PosMode, j.posSeed, len(cp)+1)
			if k > len(cp) {
				k = len(cp)
			}
		}
		return cp[:k], false, fmt.Sprintf("I/O error after %d of %d bytes", k, len(cp))
	}
	return cp, true, "valid"
}

// ---------------------------------------------------------------------------
// pooled instances

type c20CInst struct {
	id   int
	c    connect.Compressor
	hist []string
}

type c20DInst struct {
	id    int
	d     connect.Decompressor
	hist  []string
	dirty bool   // some earlier job on this instance fed it bad input or abandoned a stream
	last  string // short form of the last job (for coverage keys)
}

type c20Pool[T any] struct {
	sem  chan struct{}
	free []T
}

func newC20Pool[T any](items []T) *c20Pool[T] {
	p := &c20Pool[T]{sem: make(chan struct{}, len(items)), free: items}
	for range items {
		p.sem <- struct{}{}
	}
	return p
}

func (p *c20Pool[T]) get(sim *simrt.Sim, site string) T {
	simrt.Recv(p.sem, site)
	idx := 0
	if len(p.free) > 1 {
		idx = sim.Choose(len(p.free), "c20.pool.pick")
	}
	x := p.free[idx]
	p.free = append(p.free[:idx:idx], p.free[idx+1:]...)
	return x
}

func (p *c20Pool[T]) put(x T) {
	p.free = append(p.free, x)
	p.sem <- struct{}{}
}

type c20failWriter struct {
	ok  int
	n   int
	err error
}

func (w *c20failWriter) Write(p []byte) (int, error) {
	if w.n+len(p) > w.ok {
		k := w.ok - w.n
		if k < 0 {
			k = 0
		}
		w.n += k
		return k, w.err
	}
	w.n += len(p)
	return len(p), nil
}

var errC20Sink = errors.New("c20: injected sink error")
var errC20Limit = errors.New("c20: output limit reached")

type c20Exec struct {
	sim   *simrt.Sim
	enc   C20Enc
	res   *simwork.Result
	cpool *c20Pool[*c20CInst]
	dpool *c20Pool[*c20DInst]
}

func (x *c20Exec) viol(class, format string, args ...any) {
	x.res.Violations = append(x.res.Violations, simwork.Violation{Class: class, Detail: "encoding=" + x.enc.Name + " " + fmt.Sprintf(format, args...)})
}

// c20Guard runs f and turns a panic into a description.
func c20Guard(f func()) (p string) {
	defer func() {
		if r := recover(); r != nil {
			p = fmt.Sprintf("%v [%s]", r, c20Frames(debug.Stack()))
		}
	}()
	f()
	return ""
}

func c20Frames(stack []byte) string {
	var out []string
	seen := false
	for _, l := range strings.Split(string(stack), "\n") {
		if l == "" || strings.HasPrefix(l, "\t") || strings.HasPrefix(l, "goroutine ") {
			continue
		}
		if strings.HasPrefix(l, "panic(") {
			seen = true
			continue
		}
		if !seen {
			continue
		}
		if i := strings.LastIndex(l, "("); i > 0 {
			l = l[:i]
		}
		if i := strings.LastIndex(l, "/"); i >= 0 {
			l = l[i+1:]
		}
		out = append(out, l)
		if len(out) == 5 {
			break
		}
	}
	return strings.Join(out, " < ")
}

func c20Hist(h []string) string {
	if len(h) == 0 {
		return "fresh instance"
	}
	return strings.Join(h, "; ")
}

func (x *c20Exec) newCompressor() connect.Compressor {
	c, err := GetCompressor(x.enc.Enum)
	if err != nil {
		panic("GetCompressor: " + err.Error())
	}
	return c
}

func (x *c20Exec) newDecompressor() connect.Decompressor {
	d, err := GetDecompressor(x.enc.Enum)
	if err != nil {
		panic("GetDecompressor: " + err.Error())
	}
	return d
}

// freshDecode decodes stream with a decompressor nobody has used before.
func (x *c20Exec) freshDecode(stream []byte) (out []byte, err error, panicked string) {
	panicked = c20Guard(func() {
		d := x.newDecompressor()
		if err = d.Reset(bytes.NewReader(stream)); err != nil {
			err = fmt.Errorf("Reset: %w", err)
			return
		}
		out, err = io.ReadAll(d)
		_ = d.Close()
	})
	return out, err, panicked
}

// compress produces the valid stream of a job on a pooled compressor.
func (x *c20Exec) compress(j *c20Job) ([]byte, bool) {
	if j.PreComp != "" {
		// a compression that is given up half way (the sink failed, or the
		// caller went away): the instance goes back to the pool
		ci := x.cpool.get(x.sim, "c20.compress.get")
		half := j.payload[:len(j.payload)/2]
		p := c20Guard(func() {
			switch j.PreComp {
			case "no-close":
				var sink bytes.Buffer
				ci.c.Reset(&sink)
				_, _ = ci.c.Write(half)
			case "sink-error":
				ci.c.Reset(&c20failWriter{ok: j.pieceSd % 8, err: errC20Sink})
				_, _ = ci.c.Write(j.payload)
				_ = ci.c.Close()
			}
		})
		simrt.AfterBlock("c20.compress.abandoned")
		x.res.Faults["compress-"+j.PreComp]++
		if p != "" {
			x.viol("c20/panic", "compressor c%d (%s) panicked in an abandoned compression (%s) of %s: %s", ci.id, c20Hist(ci.hist), j.PreComp, j.Payload, p)
			ci.c, ci.hist = x.newCompressor(), nil
		} else {
			ci.hist = append(ci.hist, "abandoned("+j.PreComp+")")
		}
		x.cpool.put(ci)
	}
	ci := x.cpool.get(x.sim, "c20.compress.get")
	defer x.cpool.put(ci)
	var buf bytes.Buffer
	var werr error
	p := c20Guard(func() {
		ci.c.Reset(&buf)
		rest := j.payload
		for i := 0; i < j.Pieces && werr == nil; i++ {
			n := len(rest)
			if i < j.Pieces-1 && len(rest) > 0 {
				n = (j.pieceSd >> uint(4*i)) % (len(rest) + 1)
			}
			if i > 0 {
				simrt.Yield("c20.compress.write")
			}
			var w int
			w, werr = ci.c.Write(rest[:n])
			if werr == nil && w != n {
				werr = fmt.Errorf("short write %d of %d without error", w, n)
			}
			rest = rest[n:]
		}
		if werr == nil {
			if werr = ci.c.Close(); werr != nil {
				werr = fmt.Errorf("Close: %w", werr)
			}
			if werr == nil && j.pieceSd%5 == 0 {
				// the `defer c.Close()` + `return c.Close()` idiom: a second Close
				// must not add anything to the finished stream
				x.res.Probes["compressor-closed-twice"]++
				if err2 := ci.c.Close(); err2 != nil {
					x.res.Probes["second-close-reports-error"]++
				}
			}
		}
	})
	simrt.AfterBlock("c20.compress.done")
	class := "c20/round-trip"
	if len(ci.hist) > 0 {
		class = "c20/compressor-reuse"
		x.res.Probes["compressor-reused"]++
	}
	if p != "" {
		x.viol("c20/panic", "compressor c%d (%s) panicked compressing %s: %s", ci.id, c20Hist(ci.hist), j.Payload, p)
		ci.c, ci.hist = x.newCompressor(), nil
		return nil, false
	}
	if werr != nil {
		x.viol(class, "compressor c%d (%s) failed on %s written in %d piece(s) to a buffer: %v", ci.id, c20Hist(ci.hist), j.Payload, j.Pieces, werr)
		ci.hist = append(ci.hist, "failed")
		return nil, false
	}
	stream := append([]byte(nil), buf.Bytes()...)
	out, err, fp := x.freshDecode(stream)
	simrt.AfterBlock("c20.compress.verify")
	switch {
	case fp != "":
		x.viol("c20/panic", "a fresh decompressor panicked on the %d-byte output of compressor c%d (%s) for %s: %s", len(stream), ci.id, c20Hist(ci.hist), j.Payload, fp)
		return nil, false
	case err != nil || !bytes.Equal(out, j.payload):
		x.viol(class, "output (%d bytes) of compressor c%d (%s) for %s does not decode to the input with a fresh decompressor: %s", len(stream), ci.id, c20Hist(ci.hist), j.Payload, c20Diff(out, err, j.payload))
		ci.hist = append(ci.hist, "bad-output")
		return nil, false
	}
	if j.CompPut == "close+reset-discard" {
		if p := c20Guard(func() { ci.c.Reset(io.Discard) }); p != "" {
			x.viol("c20/panic", "compressor c%d (%s) panicked in Reset(io.Discard) after Close: %s", ci.id, c20Hist(ci.hist), p)
			ci.c, ci.hist = x.newCompressor(), nil
			return stream, true
		}
	}
	ci.hist = append(ci.hist, "ok/"+j.CompPut)
	return stream, true
}

func c20Diff(got []byte, err error, want []byte) string {
	if err != nil && err != io.EOF {
		return fmt.Sprintf("error %q after %d of %d bytes", err.Error(), len(got), len(want))
	}
	if bytes.Equal(got, want) {
		if err == nil {
			return fmt.Sprintf("all %d bytes returned but no EOF followed", len(want))
		}
		return "equal"
	}
	n := len(got)
	if len(want) < n {
		n = len(want)
	}
	first := n
	for i := 0; i < n; i++ {
		if got[i] != want[i] {
			first = i
			break
		}
	}
	return fmt.Sprintf("got %d bytes, want %d, first difference at offset %d (end: %v)", len(got), len(want), first, err)
}

// readSome reads from d until an error, the limit, or (want >= 0) want bytes.
func c20Read(d io.Reader, bufSize, limit, want int) (out []byte, err error, stalled bool) {
	buf := make([]byte, bufSize)
	zero := 0
	for {
		b := buf
		if want >= 0 {
			if len(out) >= want {
				return out, nil, false
			}
			if want-len(out) < len(b) {
				b = b[:want-len(out)]
			}
		}
		n, e := simrt.Read(d, b, "c20.read")
		out = append(out, b[:n]...)
		if e != nil {
			return out, e, false
		}
		if n == 0 {
			zero++
			if zero > 64 {
				return out, nil, true
			}
		} else {
			zero = 0
		}
		if len(out) > limit {
			return out, errC20Limit, false
		}
	}
}

// decode runs the decompression half of a job on a pooled decompressor.
func (x *c20Exec) decode(j *c20Job, valid []byte) {
	stream, isValid, what := j.stream(valid)
	if j.Fault != "" && !isValid {
		x.res.Faults[j.Fault]++
	}
	if j.Kind == "abandon" {
		x.res.Faults["abandon"]++
	}
	di := x.dpool.get(x.sim, "c20.decode.get")
	defer x.dpool.put(di)
	var src io.Reader
	var sr *simio.Reader
	if j.Source == "simio" {
		sr = &simio.Reader{End: j.endKind}
		if j.Segs == 2 && len(stream) >= 2 {
			cut := 1 + j.cutSeed%(len(stream)-1)
			sr.Segs = []simio.Segment{{Data: stream[:cut]}, {Data: stream[cut:], Delay: time.Duration(j.DelayUs) * time.Microsecond}}
		} else if len(stream) > 0 {
			sr.Segs = []simio.Segment{{Data: stream}}
		}
		src = sr
	} else {
		src = bytes.NewBuffer(stream)
	}
	if z, ok := di.d.(*zstdDecompressor); ok && z.decoder == nil {
		x.res.Probes["zstd-decoder-recreated-on-reset"]++
	}
	class := "c20/round-trip"
	prev := "fresh"
	switch {
	case di.dirty:
		class = "c20/after-bad-input"
		prev = di.last
	case len(di.hist) > 0:
		class = "c20/reuse"
		prev = di.last
	}
	var resetErr, readErr error
	var out []byte
	var stalled bool
	outcome := ""
	p := c20Guard(func() {
		simrt.Yield("c20.decode.reset")
		resetErr = di.d.Reset(src)
		simrt.AfterBlock("c20.decode.reset")
		if resetErr != nil {
			// as in connect-go's pool, an instance whose Reset reported an
			// error is neither read from nor closed
			outcome = "reset-error"
			return
		}
		switch j.Kind {
		case "abandon":
			want := 0
			if len(j.payload) > 0 {
				want = j.abSeed % len(j.payload)
			}
			out, readErr, stalled = c20Read(di.d, j.ReadBuf, len(j.payload)+1024, want)
			outcome = fmt.Sprintf("left after %d of %d bytes", len(out), len(j.payload))
		default:
			limit := len(j.payload) + 1024
			if !isValid {
				limit = 4 << 20
			}
			out, readErr, stalled = c20Read(di.d, j.ReadBuf, limit, -1)
		}
	})
	entry := j.Kind
	if j.Fault != "" {
		entry += "(" + what + ")"
	}
	short := j.Kind
	if j.Fault != "" && !isValid {
		short = j.Fault
	} else if j.Fault != "" {
		short = "intact-stream" // the corruption had nothing to act on (empty valid stream)
	}
	if p != "" {
		x.viol("c20/panic", "decompressor d%d (%s) panicked in job %s [%s, source %s, read buffer %d] on payload %s: %s", di.id, c20Hist(di.hist), entry, what, j.Source, j.ReadBuf, j.Payload, p)
		di.d, di.hist, di.dirty, di.last = x.newDecompressor(), nil, false, ""
		return
	}
	switch {
	case j.Kind == "abandon":
		// a valid stream: Reset must succeed and what was read must be a prefix
		if resetErr != nil {
			x.viol(class, "decompressor d%d (%s): Reset onto a valid %d-byte stream of %s returned %q", di.id, c20Hist(di.hist), len(stream), j.Payload, resetErr.Error())
		} else if (readErr != nil && readErr != io.EOF) || !bytes.HasPrefix(j.payload, out) {
			x.viol(class, "decompressor d%d (%s): partial read of a valid stream of %s: %s", di.id, c20Hist(di.hist), j.Payload, c20Diff(out, readErr, j.payload[:len(out)]))
		}
	case isValid:
		x.res.Probes["valid-after:"+strings.SplitN(prev, "/", 2)[0]]++
		x.res.Cover = append(x.res.Cover, x.enc.Name+": "+prev+" -> valid")
		switch {
		case resetErr != nil:
			x.viol(class, "decompressor d%d (%s): Reset onto a valid %d-byte stream of %s (source %s) returned %q", di.id, c20Hist(di.hist), len(stream), j.Payload, j.Source, resetErr.Error())
		case stalled:
			x.viol(class, "decompressor d%d (%s): valid stream of %s: Read kept returning (0, nil) after %d bytes", di.id, c20Hist(di.hist), j.Payload, len(out))
		case readErr != io.EOF || !bytes.Equal(out, j.payload):
			x.viol(class, "decompressor d%d (%s): valid %d-byte stream of %s (source %s, read buffer %d, end %s) decoded differently: %s", di.id, c20Hist(di.hist), len(stream), j.Payload, j.Source, j.ReadBuf, j.End, c20Diff(out, readErr, j.payload))
		}
		outcome = "valid"
	default:
		switch {
		case outcome != "":
			x.res.Probes["bad-input-rejected-by-reset"]++
		case stalled:
			outcome = "stalled"
			x.res.Probes["bad-input-read-stalls"]++
		case readErr == io.EOF && bytes.Equal(out, j.payload):
			outcome = "not-noticed-same-bytes"
			x.res.Probes["bad-input-not-noticed"]++
		case readErr == io.EOF:
			outcome = "not-noticed-other-bytes"
			x.res.Probes["bad-input-not-noticed"]++
		case readErr == errC20Limit:
			outcome = "output-limit"
			x.res.Probes["bad-input-output-limit"]++
		default:
			outcome = "read-error"
			x.res.Probes["bad-input-rejected-by-read"]++
		}
		x.res.Cover = append(x.res.Cover, x.enc.Name+": "+j.Fault+" => "+outcome)
	}
	// hand the instance back the way the job says
	simrt.Yield("c20.decode.put")
	put := j.DecPut
	if resetErr != nil {
		// Close is part of the pool protocol only after a Reset that succeeded
		// (connect-go drops such an instance; here it goes back to the pool)
		put = map[string]string{"close": "no-close", "close-twice": "no-close", "no-close": "no-close", "close+reset-nobody": "reset-nobody"}[j.DecPut]
	}
	p = c20Guard(func() {
		switch put {
		case "reset-nobody":
			_ = di.d.Reset(http.NoBody)
		case "close":
			_ = di.d.Close()
		case "close+reset-nobody":
			_ = di.d.Close()
			_ = di.d.Reset(http.NoBody)
		case "close-twice":
			_ = di.d.Close()
			_ = di.d.Close()
		case "no-close":
		}
	})
	simrt.AfterBlock("c20.decode.put")
	if p != "" {
		x.viol("c20/panic", "decompressor d%d (%s) panicked when handed back (%s) after job %s [%s]: %s", di.id, c20Hist(di.hist), put, entry, outcome, p)
		di.d, di.hist, di.dirty, di.last = x.newDecompressor(), nil, false, ""
		return
	}
	if !isValid || j.Kind == "abandon" {
		di.dirty = true
	}
	di.hist = append(di.hist, entry+"="+outcome+"/"+put)
	di.last = short + "/" + put
	x.sim.MixLog(fmt.Sprintf("d%d %s %s %d", di.id, short, outcome, len(out)))
	if sr != nil {
		x.sim.MixLog(fmt.Sprint(sr.Chunks))
	}
}

func (x *c20Exec) runJob(j *c20Job) {
	simrt.Yield("c20.job")
	valid, ok := x.compress(j)
	if !ok {
		return
	}
	x.decode(j, valid)
}

func c20PoolRun(t *testing.T, tape *simrt.Tape, o simwork.Opts) *simwork.Result {
	C20PinProcs()
	res := &simwork.Result{Faults: map[string]int{}, Probes: map[string]int{}}
	p := simwork.Bubble(t, func(t *testing.T) { c20PoolBody(tape, o, res) })
	if p != nil {
		res.Violations = append(res.Violations, simwork.Violation{Class: "panic-outside-task", Detail: fmt.Sprint(p)})
	}
	return res
}

func c20PoolBody(tape *simrt.Tape, o simwork.Opts, res *simwork.Result) {
	cs := &c20Case{}
	res.Sample = cs
	enc := C20Encs[[]int{0, 1, 2, 3, 4, 5, 1, 2, 3, 4, 5}[tape.Choose(11, "encoding")]]
	cs.Encoding = enc.Name
	cs.Compressors = tape.Range(1, 2, "ncomp")
	cs.Decompressors = tape.Range(1, 2, "ndecomp")
	nTasks := tape.Range(2, 4, "ntasks")
	maxHist := 4
	if o.Tier == "thorough" {
		maxHist = 8
	}
	perTask := maxHist * cs.Decompressors / nTasks
	if perTask < 1 {
		perTask = 1
	}
	seq := 0
	for ti := 0; ti < nTasks; ti++ {
		n := tape.Range(1, perTask, "njobs")
		var jobs []*c20Job
		for i := 0; i < n; i++ {
			seq++
			jobs = append(jobs, c20GenJob(tape, o.Tier, ti, seq))
		}
		cs.Tasks = append(cs.Tasks, jobs)
	}
	if C20Excluded(enc.Name) {
		res.End = "encoding-excluded-by-env"
		return
	}
	sim := simrt.New(tape)
	defer sim.Detach()
	sim.KeepLog = o.KeepLog
	sim.Settle = time.Second
	sim.MaxSteps = 400000
	x := &c20Exec{sim: sim, enc: enc, res: res}
	var cis []*c20CInst
	for i := 0; i < cs.Compressors; i++ {
		cis = append(cis, &c20CInst{id: i, c: x.newCompressor()})
	}
	var dis []*c20DInst
	for i := 0; i < cs.Decompressors; i++ {
		dis = append(dis, &c20DInst{id: i, d: x.newDecompressor()})
	}
	x.cpool, x.dpool = newC20Pool(cis), newC20Pool(dis)
	done := 0
	sim.Goal = func() bool { return done == nTasks }
	for ti := range cs.Tasks {
		jobs := cs.Tasks[ti]
		simrt.Go("c20.handler", func() {
			for _, j := range jobs {
				x.runJob(j)
			}
			done++
		})
	}
	end := sim.Run()
	res.Steps, res.Switches, res.Preempts = sim.Steps(), sim.Switches(), sim.Preempts()
	res.SimTime = sim.Elapsed()
	res.LogHash = sim.LogHash()
	res.End = end.String()
	res.Invalid = append(res.Invalid, sim.Invalid()...)
	res.Log = sim.Log()
	nfaults := 0
	for _, n := range res.Faults {
		nfaults += n
	}
	res.Nontrivial = sim.Preempts() > 0 || nfaults > 0
	for _, p := range sim.Panics() {
		x.viol("c20/panic", "outside any job: %s", p)
	}
	if done != nTasks && len(sim.Panics()) == 0 {
		x.viol("c20/hang", "%d of %d handler tasks finished (end=%s); tasks: %s", done, nTasks, end, strings.Join(sim.EndSites(), "; "))
	}
}
