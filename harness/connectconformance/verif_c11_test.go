//go:build verif

package connectconformance

import (
	"context"
	"errors"
	"fmt"
	"sort"
	"strings"
	"testing"
	"time"

	conformancev1 "connectrpc.com/conformance/internal/gen/proto/go/connectrpc/conformance/v1"
	"connectrpc.com/conformance/internal/verifsim/simrt"
	"connectrpc.com/conformance/internal/verifsim/simwork"
)

func init() { verifScenarios["c11"] = c11Run }

type c11Case struct {
	N           int          `json:"cases"`
	UseTLS      bool         `json:"use_tls"`
	ClientCerts bool         `json:"client_certs"`
	RefServer   bool         `json:"is_reference_server"`
	RefClient   bool         `json:"is_reference_client"`
	Server      serverScript `json:"server_script"`
	ServerFault string       `json:"server_fault"`
	Client      clientScript `json:"client_script"`
	ClientFault string       `json:"client_fault"`
	LogEach     bool         `json:"log_each"`
	FairBound   int          `json:"fair_scheduler_bound"`
	SlowNode    int          `json:"slow_node_permille"`
}

func c11Name(i int) string { return fmt.Sprintf("Batch/%d/case", i) }

func c11TestCases(n int) []*conformancev1.TestCase {
	var tcs []*conformancev1.TestCase
	for i := 0; i < n; i++ {
		req := &conformancev1.ClientCompatRequest{TestName: c11Name(i)}
		// every fourth case is a raw-request case: one without headers of its
		// own (legal), one with a header of its own - the runner adds the test
		// name (and, for the reference server, its expectations) to those too
		switch i % 4 {
		case 1:
			req.RawRequest = &conformancev1.RawHTTPRequest{Verb: "POST", Uri: "/raw"}
		case 3:
			req.RawRequest = &conformancev1.RawHTTPRequest{Verb: "POST", Uri: "/raw", Headers: []*conformancev1.Header{{Name: "x-own", Value: []string{"v"}}}}
		}
		tcs = append(tcs, &conformancev1.TestCase{
			Request: req,
			ExpectedResponse: &conformancev1.ClientResponseResult{
				Payloads: []*conformancev1.ConformancePayload{{Data: []byte(fmt.Sprintf("data-%d", i))}},
			},
		})
	}
	return tcs
}

// genClientForBatch draws a client script for n requests (fewer stream fault
// kinds than C10: the multiplexer's own guarantees are C10's business).
func genClientForBatch(tape *simrt.Tape, n int, refClient bool) (clientScript, string) {
	sc := clientScript{ExitAfterRead: -1, StopReadingAt: -1}
	for i := 0; i < n; i++ {
		var p answerPlan
		switch tape.Choose(6, "c.latency") {
		case 1, 2:
			p.DelayMs = 1 + tape.Choose(50, "c.ms")
		case 3:
			p.DelayMs = 1000 + tape.Choose(9000, "c.ms")
		}
		p.Kind = []int{akPass, akPass, akPass, akAssertFail, akClientError, akNeither}[tape.Choose(6, "c.kind")]
		if refClient && p.Kind <= akAssertFail {
			p.Feedback = tape.Bool(1, 5, "c.feedback")
		}
		sc.Answers = append(sc.Answers, p)
	}
	sc.AbortDelayMs = []int{0, 0, 1, 100, 2999, 3000, 4999, 5001}[tape.Choose(8, "c.abortdelay")]
	fault := "none"
	if tape.Bool(1, 2, "c.faulty") {
		switch tape.Choose(6, "c.faultkind") {
		case 0:
			sc.Fault = cfCut
			sc.CutAt = tape.Choose(60*n+8, "c.cutat")
			fault = cfNames[cfCut]
		case 1:
			sc.Fault = cfGarbage
			sc.FaultAfter = 1 + tape.Choose(n, "c.after")
			fault = cfNames[cfGarbage]
		case 2:
			sc.ExitAfterRead = tape.Choose(n+1, "c.exitafter")
			sc.ExitNonZero = tape.Bool(1, 2, "c.nonzero")
			fault = "exit-early"
		case 3:
			sc.StopReadingAt = tape.Choose(n+1, "c.stopreading")
			fault = "stop-reading-stdin"
		case 4:
			k := 1 + tape.Choose(n, "c.nevercount")
			for j := 0; j < k; j++ {
				sc.Answers[tape.Choose(n, "c.never")].Never = true
			}
			fault = "never-answered"
		case 5:
			sc.Fault = cfUnknown
			sc.FaultAfter = 1 + tape.Choose(n, "c.after")
			fault = cfNames[cfUnknown]
		}
	}
	return sc, fault
}

func genStderr(tape *simrt.Tape, n int) []stderrLine {
	var lines []stderrLine
	k := tape.Choose(5, "s.nlines")
	for i := 0; i < k; i++ {
		var l stderrLine
		switch tape.Choose(6, "s.linekind") {
		case 0, 1:
			l.Name = c11Name(tape.Choose(n, "s.linename"))
			l.Msg = fmt.Sprintf("feedback %d: with colon", i)
			l.Text = l.Name + ": " + l.Msg
			l.Sideband = true
		case 2:
			l.Text = fmt.Sprintf("Other/%d/case: not in this batch", i)
		case 3:
			l.Text = fmt.Sprintf("plain log line %d", i)
			if tape.Bool(1, 2, "s.percent") {
				l.Text = fmt.Sprintf("log line %d: 100%% done, path /Unary%%2Fx, bad escape %%zz %%d %%s", i)
			}
		case 4:
			l.Text = "   "
		case 5:
			l.Text = fmt.Sprintf("  %s:no space after colon %d", c11Name(0), i)
		}
		if tape.Bool(1, 16, "s.longline") {
			// a line longer than any fixed line buffer (bufio.Scanner gives up at 64 KiB)
			l = stderrLine{Text: fmt.Sprintf("long log line %d ", i) + strings.Repeat("x", 65536+tape.Choose(3, "s.longextra")*70000)}
		}
		l.AtExit = tape.Bool(1, 3, "s.atexit")
		lines = append(lines, l)
	}
	// only the very last line written may be unterminated
	if k > 0 && tape.Bool(1, 3, "s.nonl") {
		last := -1
		for i := range lines {
			if lines[i].AtExit {
				last = i
			}
		}
		if last < 0 {
			// no at-exit lines: an unterminated line at start is followed by nothing
			lines[k-1].AtExit = true
			last = k - 1
		}
		lines[last].NoNL = true
	}
	return lines
}

func genServer(tape *simrt.Tape, n int, useTLS bool, refServer bool, id int) (serverScript, string) {
	sc := serverScript{ExitAfterK: -1, Host: []string{"127.0.0.1", "", "localhost"}[tape.Choose(3, "s.host")], Port: uint32(10000 + id*7 + tape.Choose(5, "s.port"))}
	sc.WithCert = useTLS
	if !useTLS && tape.Bool(1, 8, "s.cert-without-tls") {
		sc.WithCert = true
	}
	switch tape.Choose(5, "s.latency") {
	case 1:
		sc.LatencyMs = 1 + tape.Choose(100, "s.ms")
	case 2:
		sc.LatencyMs = 9990 + tape.Choose(20, "s.ms") // around the 10 s server response timeout
	}
	// (the last two: a server that takes very long to stop, or practically never does)
	sc.AbortDelayMs = []int{0, 0, 1, 100, 2999, 4999, 5001, 60000, 3600000}[tape.Choose(9, "s.abortdelay")]
	if refServer && sc.AbortDelayMs > 5001 {
		// the runner reads a reference server's stderr to its end, i.e. until the
		// server is gone: a reference server that does not stop is outside the
		// fault set of the property (and would be waited for, by design)
		sc.AbortDelayMs = 5001
	}
	sc.ExitNonZero = tape.Bool(1, 4, "s.nonzero")
	fault := "none"
	if tape.Bool(1, 2, "s.faulty") {
		switch tape.Choose(9, "s.faultkind") {
		case 0:
			sc.Resp = srStartError
		case 1:
			sc.Resp = srCloseStdin
		case 2:
			sc.Resp = srTruncated
			sc.TruncAt = tape.Choose(64, "s.truncat")
		case 3:
			sc.Resp = srOversize
			sc.TruncAt = tape.Choose(3, "s.oversizeby") * 1000003
		case 4:
			sc.Resp = srEmpty
		case 5:
			sc.Resp = srGarbage
		case 6:
			sc.Resp = srNever
		case 7:
			sc.Resp = srNoCert
		case 8:
			sc.ExitAfterK = tape.Choose(n+1, "s.exitafter")
		}
		fault = srNames[sc.Resp]
		if sc.ExitAfterK >= 0 {
			fault = "server-dies-mid-batch"
		}
	}
	if refServer {
		sc.Stderr = genStderr(tape, n)
	}
	return sc, fault
}

func c11Gen(tape *simrt.Tape, tier string) *c11Case {
	maxN := 4
	if tier == "thorough" {
		maxN = 8
	}
	c := &c11Case{}
	c.N = tape.Range(1, maxN, "ncases")
	if tape.Bool(1, 4, "bigbatch") {
		c.N += 2 * maxN // longer batches: what happens after a mid-batch fault has room to show
	}
	c.UseTLS = tape.Bool(1, 2, "tls")
	if c.UseTLS {
		c.ClientCerts = tape.Bool(1, 2, "clientcerts")
	}
	c.RefServer = tape.Bool(1, 2, "refserver")
	c.RefClient = tape.Bool(1, 2, "refclient")
	c.LogEach = tape.Bool(1, 4, "logeach")
	c.Server, c.ServerFault = genServer(tape, c.N, c.UseTLS, c.RefServer, 0)
	c.Client, c.ClientFault = genClientForBatch(tape, c.N, c.RefClient)
	if tape.Bool(1, 8, "slownode") {
		c.SlowNode = 1 + tape.Choose(20, "slowpermille")
	} else if tape.Bool(1, 3, "fair") {
		c.FairBound = []int{3, 6, 12}[tape.Choose(3, "fairbound")]
	}
	return c
}

func c11Run(t *testing.T, tape *simrt.Tape, o simwork.Opts) *simwork.Result {
	res := &simwork.Result{Faults: map[string]int{}, Probes: map[string]int{}}
	p := simwork.Bubble(t, func(t *testing.T) { c11Body(tape, o, res) })
	if p != nil {
		res.Violations = append(res.Violations, simwork.Violation{Class: "panic-outside-task", Detail: fmt.Sprint(p)})
	}
	return res
}

// batchAnswerFn builds the scripted client's answers for cases with expected
// payload "data-i".
func batchAnswerFn(client *simClient, expected map[string]*conformancev1.ClientResponseResult, planOf func(name string) answerPlan, serverGone func(name string) bool) func(string, int) *conformancev1.ClientCompatResponse {
	return func(name string, serial int) *conformancev1.ClientCompatResponse {
		exp := expected[name]
		if exp == nil {
			return nil
		}
		plan := planOf(name)
		resp := &conformancev1.ClientCompatResponse{TestName: name}
		if serverGone != nil && serverGone(name) && plan.Kind == akPass {
			// no client gets the expected response out of a dead server
			plan.Kind = akClientError
		}
		switch plan.Kind {
		case akPass, akAssertFail:
			r := &conformancev1.ClientResponseResult{}
			for _, p := range exp.Payloads {
				r.Payloads = append(r.Payloads, &conformancev1.ConformancePayload{Data: append([]byte(nil), p.Data...)})
			}
			if plan.Kind == akAssertFail {
				r.Payloads[0].Data = append(r.Payloads[0].Data, '!')
			}
			if plan.Feedback {
				r.Feedback = []string{fmt.Sprintf("client feedback %d", serial)}
			}
			resp.Result = &conformancev1.ClientCompatResponse_Response{Response: r}
		case akClientError:
			resp.Result = &conformancev1.ClientCompatResponse_Error{Error: &conformancev1.ClientErrorResult{Message: fmt.Sprintf("client error %d", serial)}}
		case akNeither:
		}
		return resp
	}
}

// recordingRunner notes at which scheduler step each request was handed over.
type recordingRunner struct {
	clientRunner
	sim   *simrt.Sim
	enter map[string]int
}

func (r *recordingRunner) sendRequest(req *conformancev1.ClientCompatRequest, whenDone func(string, *conformancev1.ClientCompatResponse, error)) error {
	r.enter[req.TestName] = r.sim.Steps()
	return r.clientRunner.sendRequest(req, whenDone)
}

func c11Body(tape *simrt.Tape, o simwork.Opts, res *simwork.Result) {
	cs := c11Gen(tape, o.Tier)
	res.Sample = cs
	sim := simrt.New(tape)
	defer sim.Detach()
	sim.KeepLog = o.KeepLog
	sim.SlowNodePermille = cs.SlowNode
	sim.FairBound = cs.FairBound
	viol := func(class, format string, args ...any) {
		res.Violations = append(res.Violations, simwork.Violation{Class: class, Detail: fmt.Sprintf(format, args...)})
	}

	testCases := c11TestCases(cs.N)
	expected := map[string]*conformancev1.ClientResponseResult{}
	for _, tc := range testCases {
		expected[tc.Request.TestName] = tc.ExpectedResponse
	}
	client := newSimClient(sim, cs.Client)
	arrival := map[string]int{}
	server := newSimServer(sim, 0, cs.Server)
	goneAtAnswer := map[string]bool{}
	client.answerFn = batchAnswerFn(client, expected, func(name string) answerPlan { return client.planFor(arrival[name]) },
		func(name string) bool {
			if server.exited {
				goneAtAnswer[name] = true
			}
			return server.exited
		})
	client.onReceive = func(n int, req *conformancev1.ClientCompatRequest) {
		arrival[req.TestName] = n - 1
		if cs.Server.ExitAfterK >= 0 && n >= cs.Server.ExitAfterK {
			server.trigger()
		}
	}
	if cs.Server.ExitAfterK == 0 {
		// dies right after announcing itself
		client.onReceive(0, &conformancev1.ClientCompatRequest{TestName: "\x00none"})
		delete(arrival, "\x00none")
	}
	results := newResults(cs.N, &testTrie{}, &testTrie{}, nil)
	logP, errP := &recPrinter{}, &recPrinter{}
	meta := serverInstance{
		protocol:          conformancev1.Protocol_PROTOCOL_CONNECT,
		httpVersion:       conformancev1.HTTPVersion_HTTP_VERSION_1,
		useTLS:            cs.UseTLS,
		useTLSClientCerts: cs.ClientCerts,
	}
	serverCreds := &conformancev1.TLSCreds{Cert: []byte("server-cert"), Key: []byte("server-key")}
	clientCreds := &conformancev1.TLSCreds{Cert: []byte("client-cert"), Key: []byte("client-key")}

	var (
		runner          clientRunner
		rec             *recordingRunner
		startErr        error
		returned        bool
		returnedAt      time.Duration
		mainDone        bool
		abortedAtReturn bool
		startedAtReturn bool
		exitedAtReturn  bool
	)
	// invariant: an outcome, once recorded, is never replaced by a different one
	seen := map[string]testOutcome{}
	cancelStep, exitStep := -1, -1
	stopSeen := false
	var missingAtStop []string
	sim.Invariant = func() string {
		if cancelStep < 0 && server.ctx != nil && server.ctx.Err() != nil {
			cancelStep = sim.Steps()
		}
		if exitStep < 0 && server.exited {
			exitStep = sim.Steps()
		}
		if !stopSeen && server.ctx != nil && server.ctx.Err() != nil {
			// the first step at which the server is seen asked to stop
			stopSeen = true
			if !server.exited && !server.died {
				// the runner stops a server that is still serving: by then the
				// batch must be over
				for _, tc := range testCases {
					if _, ok := results.outcomes[tc.Request.TestName]; !ok {
						missingAtStop = append(missingAtStop, tc.Request.TestName)
					}
				}
			}
		}
		for name, oc := range results.outcomes {
			prev, ok := seen[name]
			if !ok {
				seen[name] = oc
				continue
			}
			if prev.setupError != oc.setupError || (prev.actualFailure == nil) != (oc.actualFailure == nil) ||
				(prev.actualFailure != nil && prev.actualFailure.Error() != oc.actualFailure.Error()) {
				return fmt.Sprintf("outcome of %q replaced: was {setup=%v err=%v}, now {setup=%v err=%v}", name, prev.setupError, prev.actualFailure, oc.setupError, oc.actualFailure)
			}
		}
		if len(results.outcomes) < len(seen) {
			return "an outcome disappeared"
		}
		return ""
	}
	sim.Goal = func() bool { return mainDone }
	simrt.Go("c11.main", func() {
		ctx, cancel := context.WithCancel(context.Background())
		defer cancel()
		runner, startErr = runClient(ctx, runInProcess([]string{"scripted-client"}, client.impl))
		if startErr != nil {
			mainDone = true
			return
		}
		rec = &recordingRunner{clientRunner: runner, sim: sim, enter: map[string]int{}}
		runTestCasesForServer(ctx, cs.RefClient, cs.RefServer, meta, testCases, serverCreds, clientCreds,
			server.starter(), logP, errP, results, rec, nil, cs.LogEach)
		returned = true
		returnedAt = sim.Elapsed()
		startedAtReturn = server.started
		exitedAtReturn = server.exited
		abortedAtReturn = server.ctx != nil && server.ctx.Err() != nil
		sim.MixLog("batch-returned")
		// what run() does after the last batch
		runner.closeSend()
		_ = runner.waitForResponses()
		simrt.Sleep(30*time.Second, "c11.main.settle")
		runner.stop()
		mainDone = true
	})
	end := sim.Run()

	res.Steps, res.Switches, res.Preempts = sim.Steps(), sim.Switches(), sim.Preempts()
	res.SimTime = sim.Elapsed()
	res.LogHash = sim.LogHash()
	res.End = end.String()
	res.Invalid = append(res.Invalid, sim.Invalid()...)
	res.Log = sim.Log()
	for k, v := range client.faultFired {
		res.Faults["client:"+k] += v
	}
	for k, v := range server.fired {
		res.Faults["server:"+k] += v
	}
	if sim.DelayedRunnable > 0 {
		res.Faults["slow-node-delay"] += sim.DelayedRunnable
	}
	res.Nontrivial = len(client.faultFired) > 0 || len(server.fired) > 0 || sim.Preempts() > 0
	for _, p := range sim.Panics() {
		viol("c11/panic", "%s", p)
	}
	if msg := sim.InvariantMsg(); msg != "" {
		viol("c11/outcome-replaced", "%s", msg)
		return
	}
	if end == simrt.EndBudget {
		viol("c11/liveness/step-budget", "run did not finish within %d steps; tasks: %s", sim.MaxSteps, strings.Join(sim.EndSites(), "; "))
		return
	}
	if startErr != nil {
		res.Invalid = append(res.Invalid, "runClient failed: "+startErr.Error())
		return
	}
	if !returned || end == simrt.EndIdle {
		viol("c11/liveness/hang", "runTestCasesForServer returned=%v end=%s after %s; tasks: %s", returned, end, sim.Elapsed(), strings.Join(sim.EndSites(), "; "))
		return
	}
	// bounded time: assembled from the package's constants
	var maxDelay time.Duration
	for _, a := range cs.Client.Answers {
		if d := time.Duration(a.DelayMs) * time.Millisecond; d > maxDelay {
			maxDelay = d
		}
	}
	bound := time.Duration(cs.Server.LatencyMs)*time.Millisecond + serverResponseTimeout + maxDelay + 2*clientResponseTimeout +
		3*time.Second + 3*gracefulShutdownPeriod + min(time.Duration(cs.Server.AbortDelayMs)*time.Millisecond, gracefulShutdownPeriod+time.Millisecond) +
		min(time.Duration(cs.Client.AbortDelayMs)*time.Millisecond, gracefulShutdownPeriod) + time.Second +
		time.Duration(sim.DelayedRunnable)*5*time.Second
	if returnedAt > bound {
		viol("c11/liveness/bound", "runTestCasesForServer took %s, bound %s", returnedAt, bound)
	}

	// ---- exactly the batch's names, each once
	var names []string
	for name := range results.outcomes {
		names = append(names, name)
	}
	sort.Strings(names)
	for _, tc := range testCases {
		if _, ok := results.outcomes[tc.Request.TestName]; !ok {
			viol("c11/missing-outcome", "no outcome for %q after the batch and the client have ended (server fault=%s client fault=%s); outcomes: %v", tc.Request.TestName, cs.ServerFault, cs.ClientFault, names)
		}
	}
	for _, name := range names {
		if _, ok := expected[name]; !ok {
			viol("c11/foreign-outcome", "outcome recorded for %q, which is not in the batch", name)
		}
	}

	// ---- verdicts
	margin := time.Duration(sim.DelayedRunnable) * 5 * time.Second
	timedOut := false
	delivered := map[string]bool{} // complete answer certainly delivered
	maybe := map[string]bool{}     // complete answer written, delivery not certain
	for _, w := range client.written {
		if w.Gap >= clientResponseTimeout-margin {
			timedOut = true
		}
		if w.BeforeFault && !timedOut {
			delivered[w.Name] = true
		} else {
			maybe[w.Name] = true
		}
	}
	serverUp := server.responded && !(cs.UseTLS && !cs.Server.WithCert) && (cs.Server.Resp == srOK || (cs.Server.Resp == srNoCert && !cs.UseTLS))
	wantHost, wantPort := cs.Server.Host, cs.Server.Port
	if cs.Server.Resp == srEmpty && !cs.UseTLS {
		// a zero-length response is a valid (all defaults) announcement
		serverUp = true
		wantHost, wantPort = "", 0
	}
	if wantHost == "" {
		wantHost = "127.0.0.1"
	}
	for i, tc := range testCases {
		name := tc.Request.TestName
		oc, ok := results.outcomes[name]
		if !ok {
			continue
		}
		plan := answerPlan{}
		if idx, got := arrival[name]; got {
			plan = client.planFor(idx)
		}
		var noRun *couldNotRunError
		isNoRun := errors.As(oc.actualFailure, &noRun)
		switch {
		case delivered[name]:
			// answered: keeps its own verdict
			if goneAtAnswer[name] && plan.Kind == akPass {
				plan.Kind = akClientError
			}
			switch plan.Kind {
			case akPass:
				if oc.actualFailure != nil || oc.setupError {
					viol("c11/verdict", "case %d was answered with the expected response but its outcome is {setup=%v err=%v}", i, oc.setupError, oc.actualFailure)
				}
			default:
				if oc.actualFailure == nil {
					viol("c11/verdict", "case %d was answered with %s but its outcome is a pass", i, akNames[plan.Kind])
				} else if oc.setupError {
					viol("c11/verdict", "case %d was answered with %s but is recorded as a setup error: %v", i, akNames[plan.Kind], oc.actualFailure)
				}
			}
		case maybe[name]:
			if oc.actualFailure == nil && plan.Kind != akPass {
				viol("c11/verdict", "case %d (answer %s, possibly lost) is recorded as a pass", i, akNames[plan.Kind])
			}
		default:
			// never answered: must be a setup error / could-not-run, never a pass
			if oc.actualFailure == nil {
				viol("c11/unanswered-pass", "case %d was never answered (server fault=%s, client fault=%s, server up=%v) but its outcome is a pass", i, cs.ServerFault, cs.ClientFault, serverUp)
			} else if !oc.setupError && !isNoRun {
				viol("c11/unanswered-not-setup-error", "case %d was never answered but is recorded as an ordinary failure: %v", i, oc.actualFailure)
			}
		}
		if !serverUp && !oc.setupError {
			viol("c11/server-fault-not-setup-error", "server fault %s but case %d is not a setup error: {err=%v}", cs.ServerFault, i, oc.actualFailure)
		}
	}
	// if the server never came up no request may have reached the client
	if !serverUp && len(client.received) > 0 {
		viol("c11/request-without-server", "server fault %s but the client was handed %d request(s)", cs.ServerFault, len(client.received))
	}
	// requests carry the server's address and the test name header
	for _, req := range client.received {
		if req.Host != wantHost || req.Port != wantPort {
			viol("c11/address", "request %q addressed to %s:%d, server announced %s:%d", req.TestName, req.Host, req.Port, wantHost, wantPort)
		}
		found := false
		for _, h := range req.RequestHeaders {
			if strings.EqualFold(h.Name, "x-test-case-name") && len(h.Value) == 1 && h.Value[0] == req.TestName {
				found = true
			}
		}
		if !found {
			viol("c11/test-name-header", "request %q lacks its x-test-case-name header", req.TestName)
		}
		if req.RawRequest != nil {
			res.Probes["raw-request-handed-to-client"]++
			n := 0
			for _, h := range req.RawRequest.Headers {
				if strings.EqualFold(h.Name, "x-test-case-name") && len(h.Value) == 1 && h.Value[0] == req.TestName {
					n++
				}
			}
			if n != 1 {
				viol("c11/test-name-header", "raw request of %q (%d header(s) of its own or added) carries its x-test-case-name header %d times, not once", req.TestName, len(req.RawRequest.Headers), n)
			}
		}
		if cs.ClientCerts != (req.ClientTlsCreds != nil) {
			viol("c11/client-creds", "request %q: client creds present=%v, batch uses client certs=%v", req.TestName, req.ClientTlsCreds != nil, cs.ClientCerts)
		}
	}
	if server.request != nil {
		r := server.request
		if r.UseTls != cs.UseTLS || (r.ServerCreds != nil) != cs.UseTLS || (len(r.ClientTlsCert) > 0) != cs.ClientCerts || !server.requestEOF {
			viol("c11/server-request", "server request tls=%v creds=%v clientcert=%v eof=%v for batch tls=%v clientcerts=%v", r.UseTls, r.ServerCreds != nil, len(r.ClientTlsCert) > 0, server.requestEOF, cs.UseTLS, cs.ClientCerts)
		}
	}

	// ---- once the runner knows that the server is gone (its process context is
	// cancelled) it hands no further request to the client. The check in the
	// send loop and the hand-over happen within one scheduler step, so a
	// request entered at a later step than the cancellation was sent knowingly.
	if rec != nil && cancelStep >= 0 {
		for name, st := range rec.enter {
			if st > cancelStep+1 {
				viol("c11/sent-after-server-death", "request %q was handed to the client at step %d although the server's process context was cancelled by step %d", name, st, cancelStep)
			}
		}
	}

	// ---- bounded progress under a fair scheduler: once the server process has
	// ended, the runner notices within a bounded number of steps (every runnable
	// task is released within FairBound steps; noticing takes the watcher task a
	// handful of its own steps) and stops handing requests to the client.
	// The step bound uses the largest scheduling delay measured in this run, so
	// it is sound for any schedule (and vacuous for unfair ones): between the
	// end of the server process and the cancellation lie at most 8 scheduling
	// points (stderr line, three pipe closes, done channel, watcher task).
	if rec != nil && exitStep >= 0 {
		limit := exitStep + 8*(sim.MaxWait+2)
		for name, st := range rec.enter {
			if st > limit && (cancelStep < 0 || cancelStep > limit) {
				viol("c11/server-death-unnoticed", "no task waited more than %d steps in this run (fair bound %d), the server process ended at step %d, but request %q was still handed to the client at step %d and the server's process context was not cancelled by then (cancelled at step %d)",
					sim.MaxWait, cs.FairBound, exitStep, name, st, cancelStep)
				break
			}
		}
	}

	// ---- the server is asked to stop afterwards: when the runner stops a server
	// that is still serving, every case of the batch has its outcome (requests
	// handed to the client are still being answered by that server until then)
	if len(missingAtStop) > 0 {
		viol("c11/server-stopped-before-outcomes", "the runner asked the running server to stop while %d case(s) of the batch had no outcome yet: %v (server fault=%s client fault=%s)", len(missingAtStop), missingAtStop, cs.ServerFault, cs.ClientFault)
	}

	// ---- the server is asked to stop
	if startedAtReturn && !exitedAtReturn && !abortedAtReturn {
		viol("c11/server-not-stopped", "runTestCasesForServer returned while the server was running and its context was not cancelled")
	}
	if server.started && !server.exited && time.Duration(cs.Server.AbortDelayMs)*time.Millisecond <= gracefulShutdownPeriod+time.Millisecond {
		// (a server that needs longer than the grace period is abandoned: a real
		// process would be killed by the process abstraction, which is not simulated)
		viol("c11/server-leaked", "server process still running at the end of the run (ctx cancelled at %s)", server.ctxDoneAt)
	}

	// ---- stderr side band
	if cs.RefServer && server.started {
		wantSide := map[string]string{}
		var wantPass []string
		for _, l := range server.linesOut {
			if strings.TrimSpace(l.Text) == "" {
				continue
			}
			if l.Sideband {
				wantSide[l.Name] = l.Msg
			} else {
				wantPass = append(wantPass, l.Text)
			}
		}
		for name, msg := range wantSide {
			got, ok := results.serverSideband[name]
			if ok && cs.RefClient && strings.HasPrefix(got, "client feedback ") {
				continue // the reference client's feedback for the same case was recorded later
			}
			if !ok || got != msg {
				viol("c11/sideband", "feedback line for %q (%q) recorded as %q (present=%v)", name, msg, got, ok)
			}
		}
		for name := range results.serverSideband {
			if _, ok := wantSide[name]; !ok && !cs.RefClient {
				viol("c11/sideband-extra", "feedback recorded for %q which the server never wrote", name)
			}
		}
		var gotPass []string
		wrapperLines := 0
		for _, l := range errP.lines {
			if strings.HasPrefix(l, "referenceserver: scripted server:") {
				// the in-process seam prints the error the process ended with to the
				// process's stderr: that is stderr output like any other
				wrapperLines++
				if server.retErr == nil || !strings.Contains(l, server.retErr.Error()) {
					viol("c11/stderr-passthrough", "unexpected line %q (the server process ended with %v)", l, server.retErr)
				}
				continue
			}
			if strings.HasPrefix(l, "referenceserver: ") {
				gotPass = append(gotPass, strings.TrimSuffix(strings.TrimPrefix(l, "referenceserver: "), "\n"))
			}
		}
		if server.exited && server.retErr != nil && wrapperLines != 1 && !server.killed {
			viol("c11/stderr-passthrough", "the server process ended with the error %q, which the in-process seam prints to its stderr; it was passed through %d times", server.retErr, wrapperLines)
		}
		if strings.Join(gotPass, "\x00") != strings.Join(wantPass, "\x00") {
			viol("c11/stderr-passthrough", "stderr lines passed through: %q, want %q", gotPass, wantPass)
		}
	}
	// ---- reference client feedback
	if cs.RefClient {
		for name := range delivered {
			plan := client.planFor(arrival[name])
			if plan.Feedback && plan.Kind <= akAssertFail && !(goneAtAnswer[name] && plan.Kind == akPass) {
				if _, ok := results.serverSideband[name]; !ok {
					viol("c11/client-feedback", "feedback of the reference client for %q was not recorded", name)
				}
			}
		}
	}
	if len(results.outcomes) < cs.N && returned {
		res.Probes["outcomes-incomplete-at-return"]++
	}
	c11Report(cs, results, testCases, viol, res)
	res.Cover = append(res.Cover, fmt.Sprintf("server=%s client=%s ref=%v/%v tls=%v", cs.ServerFault, cs.ClientFault, cs.RefServer, cs.RefClient, cs.UseTLS))
}

// c11Report produces the report, which merges the recorded feedback into the
// outcomes: feedback adds to a case's outcome, it does not turn a setup error
// into an ordinary failure, a failure into a pass or touch other cases.
func c11Report(cs *c11Case, results *testResults, testCases []*conformancev1.TestCase, viol func(string, string, ...any), res *simwork.Result) {
	before := map[string]testOutcome{}
	for k, v := range results.outcomes {
		before[k] = v
	}
	side := map[string]string{}
	for k, v := range results.serverSideband {
		side[k] = v
	}
	rp := &recPrinter{}
	ok := results.report(rp)
	wantOK := len(before) == cs.N && len(side) == 0
	for _, oc := range before {
		if oc.actualFailure != nil {
			wantOK = false
		}
	}
	if ok != wantOK {
		viol("c11/report", "report() = %v with %d outcomes for %d cases, %d feedback entries, failing outcomes present=%v", ok, len(before), cs.N, len(side), !wantOK && len(side) == 0 && len(before) == cs.N)
	}
	for _, tc := range testCases {
		name := tc.Request.TestName
		b, had := before[name]
		a, has := results.outcomes[name]
		msg, fb := side[name]
		switch {
		case had && !has:
			viol("c11/report", "the outcome of %q disappeared while the report was produced", name)
		case !had && has && !fb:
			viol("c11/report", "an outcome for %q appeared while the report was produced although no feedback names it", name)
		case has && fb:
			res.Probes["feedback-merged"]++
			if a.actualFailure == nil || !strings.Contains(a.actualFailure.Error(), msg) {
				viol("c11/feedback-not-merged", "feedback %q for %q is not part of its outcome after the report: %v", msg, name, a.actualFailure)
			}
			if had && b.setupError != a.setupError {
				viol("c11/feedback-changes-setup-error", "merging feedback into the outcome of %q changed setupError from %v to %v (outcome before: %v)", name, b.setupError, a.setupError, b.actualFailure)
			}
			if had && b.setupError {
				res.Probes["feedback-merged-into-setup-error"]++
			}
			if had && b.actualFailure != nil && !strings.Contains(a.actualFailure.Error(), b.actualFailure.Error()) {
				viol("c11/feedback-not-merged", "the failure of %q (%v) was lost when feedback was merged: %v", name, b.actualFailure, a.actualFailure)
			}
		case has && had:
			if b.setupError != a.setupError || (b.actualFailure == nil) != (a.actualFailure == nil) {
				viol("c11/report", "the outcome of %q changed while the report was produced without feedback for it", name)
			}
		}
	}
}
