//go:build verif

package connectconformance

// Check C04, scenario c04-printer: peer feedback travels as lines
// "<test name>: <message>" through internal.NewPrinter (the reference server's
// error printer, the runner's own printers). Several tasks print at the same
// time under the seeded scheduler; the sink must receive whole lines, each
// exactly one of the lines that were printed - a feedback line that is torn
// apart is no longer attributed to its test case.

import (
	"fmt"
	"sort"
	"strings"
	"testing"

	"connectrpc.com/conformance/internal"
	"connectrpc.com/conformance/internal/verifsim/simrt"
	"connectrpc.com/conformance/internal/verifsim/simwork"
)

func init() { verifScenarios["c04-printer"] = c04pRun }

type c04pSink struct{ data []byte }

func (s *c04pSink) Write(p []byte) (int, error) {
	simrt.Yield("c04p.sink.write") // a write to a pipe is a scheduling point
	s.data = append(s.data, p...)
	return len(p), nil
}

func c04pRun(t *testing.T, tape *simrt.Tape, o simwork.Opts) *simwork.Result {
	res := &simwork.Result{Faults: map[string]int{}, Probes: map[string]int{}}
	p := simwork.Bubble(t, func(t *testing.T) {
		sim := simrt.New(tape)
		defer sim.Detach()
		sim.KeepLog = o.KeepLog
		sink := &c04pSink{}
		printer := internal.NewPrinter(sink)
		ntasks := tape.Range(2, 4, "tasks")
		var want []string
		type job struct {
			prefix, msg string
			nl          bool
		}
		plans := make([][]job, ntasks)
		for i := range plans {
			n := tape.Range(1, 3, "prints")
			for j := 0; j < n; j++ {
				jb := job{msg: fmt.Sprintf("message %d-%d with: a colon", i, j)}
				if tape.Bool(2, 3, "prefixed") {
					jb.prefix = fmt.Sprintf("Suite/%d/case", i)
				}
				jb.nl = tape.Bool(1, 3, "own-newline")
				line := jb.msg
				if jb.prefix != "" {
					line = jb.prefix + ": " + jb.msg
				}
				want = append(want, line)
				plans[i] = append(plans[i], jb)
			}
		}
		done := 0
		sim.Goal = func() bool { return done == ntasks }
		for i := range plans {
			plan := plans[i]
			simrt.Go("c04p.printer-user", func() {
				for _, jb := range plan {
					msg := jb.msg
					if jb.nl {
						msg += "\n"
					}
					if jb.prefix != "" {
						printer.PrefixPrintf(jb.prefix, "%s", msg)
					} else {
						printer.Printf("%s", msg)
					}
				}
				done++
			})
		}
		end := sim.Run()
		res.Steps, res.Switches, res.Preempts = sim.Steps(), sim.Switches(), sim.Preempts()
		res.SimTime = sim.Elapsed()
		res.LogHash = sim.LogHash()
		res.End = end.String()
		res.Invalid = append(res.Invalid, sim.Invalid()...)
		res.Log = sim.Log()
		res.Nontrivial = sim.Preempts() > 0
		for _, pn := range sim.Panics() {
			res.Violations = append(res.Violations, simwork.Violation{Class: "c04/printer/panic", Detail: pn})
		}
		if done != ntasks {
			res.Violations = append(res.Violations, simwork.Violation{Class: "c04/printer/hang", Detail: fmt.Sprintf("%d of %d printing tasks finished; end=%s; tasks: %s", done, ntasks, end, strings.Join(sim.EndSites(), "; "))})
			return
		}
		out := string(sink.data)
		if !strings.HasSuffix(out, "\n") && out != "" {
			res.Violations = append(res.Violations, simwork.Violation{Class: "c04/printer/torn-line", Detail: fmt.Sprintf("output does not end with a newline: %q", out)})
			return
		}
		got := strings.Split(strings.TrimSuffix(out, "\n"), "\n")
		sort.Strings(got)
		sort.Strings(want)
		if strings.Join(got, "\n") != strings.Join(want, "\n") {
			res.Violations = append(res.Violations, simwork.Violation{Class: "c04/printer/torn-line", Detail: fmt.Sprintf("lines received by the sink %q differ from the lines printed %q (raw output %q)", got, want, out)})
		}
		res.Sample = map[string]any{"tasks": ntasks, "lines": want}
		res.Probes["concurrent-printers"]++
	})
	if p != nil {
		res.Violations = append(res.Violations, simwork.Violation{Class: "panic-outside-task", Detail: fmt.Sprint(p)})
	}
	return res
}
