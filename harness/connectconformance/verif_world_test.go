//go:build verif

package connectconformance

import (
	"context"
	"fmt"
	"hash/fnv"
	"io"
	"os"
	"path/filepath"
	"sort"
	"strings"
	"time"

	conformancev1 "connectrpc.com/conformance/internal/gen/proto/go/connectrpc/conformance/v1"
	"connectrpc.com/conformance/internal/verifsim/simrt"
	"connectrpc.com/conformance/internal/verifsim/simwork"
	"google.golang.org/protobuf/encoding/protojson"
	"google.golang.org/protobuf/proto"
	"google.golang.org/protobuf/types/known/anypb"
)

// A "world" drives connectconformance.Run itself with scripted peers in the
// client and server slots (DESIGN.md sect. 4, C04 and C05).

type worldCase struct {
	NCases       int            `json:"cases"`
	SuiteName    string         `json:"suite_name,omitempty"` // "" = "Verif"; may equal the name of a case
	Versions     []int32        `json:"http_versions"`
	Protocols    []int32        `json:"protocols"`
	Codecs       []int32        `json:"codecs"`
	TLS          bool           `json:"supports_tls"`
	ClientCerts  bool           `json:"supports_tls_client_certs"`
	RefClient    bool           `json:"reference_client_slots"`
	RefServer    bool           `json:"reference_server_slots"`
	MaxServers   uint           `json:"max_servers"`
	Verbose      bool           `json:"verbose"`
	Fates        []answerPlan   `json:"fate_table"` // permutation name hash -> fate
	ServerFB     []bool         `json:"server_feedback_table"`
	Markings     []int          `json:"markings_per_case"` // 0 unmarked, 1 known failing, 2 known flaky
	ExactMark    bool           `json:"marked_cases_also_listed_by_exact_name"`
	SerialSlowClient bool       `json:"serial_slow_client"`
	RunPatterns  []string       `json:"run_patterns"`
	SkipPatterns []string       `json:"skip_patterns"`
	Client       clientScript   `json:"client_process"`
	ClientFault  string         `json:"client_fault"`
	Servers      []serverScript `json:"server_scripts_by_start_order"`
	ServerFaults []string       `json:"server_faults"`
	SlowNode     int            `json:"slow_node_permille"`
}

type worldServer struct {
	stopSeenAt time.Duration // when the invariant first saw the server's context cancelled (0: not yet)
	stopSeen   bool
	*simServer
	slot   string
	handed int // requests addressed to this server that reached a client
}

type world struct {
	cs      *worldCase
	sim     *simrt.Sim
	dir     string
	clients map[string]*simClient // by slot
	servers []*worldServer        // by start order
	byPort  map[uint32]*worldServer
	live    int
	maxLive int
	// sideband lines the scripted servers were asked to emit, by test name
	fbWritten map[string]bool
	logP      *recPrinter
	errP      *recPrinter
}

func hashName(name string) uint32 {
	h := fnv.New32a()
	h.Write([]byte(name))
	return h.Sum32()
}

func caseIndex(name string) int {
	i := strings.LastIndex(name, "/")
	var idx int
	if _, err := fmt.Sscanf(name[i+1:], "c%d", &idx); err != nil {
		return -1
	}
	return idx
}

func (w *world) fate(name string) answerPlan {
	return w.cs.Fates[int(hashName(name))%len(w.cs.Fates)]
}

func (w *world) serverFeedback(name string) bool {
	return w.cs.RefServer && w.cs.ServerFB[int(hashName(name)>>8)%len(w.cs.ServerFB)]
}

func expectedFor(idx int) *conformancev1.ClientResponseResult {
	return &conformancev1.ClientResponseResult{
		Payloads: []*conformancev1.ConformancePayload{{Data: []byte(fmt.Sprintf("data-%d", idx))}},
	}
}

func (c *worldCase) suiteName() string {
	if c.SuiteName == "" {
		return "Verif"
	}
	return c.SuiteName
}

// files writes the config and suite files of this world.
func (w *world) files() (configFile string, suiteFiles []string, err error) {
	cfg := &conformancev1.Config{Features: &conformancev1.Features{
		SupportsTls:            proto.Bool(w.cs.TLS),
		SupportsH2C:            proto.Bool(len(w.cs.Versions) > 1),
		SupportsTlsClientCerts: proto.Bool(w.cs.ClientCerts),
		SupportsConnectGet:     proto.Bool(false),
		Compressions:           []conformancev1.Compression{conformancev1.Compression_COMPRESSION_IDENTITY},
		StreamTypes:            []conformancev1.StreamType{conformancev1.StreamType_STREAM_TYPE_UNARY},
	}}
	for _, v := range w.cs.Versions {
		cfg.Features.Versions = append(cfg.Features.Versions, conformancev1.HTTPVersion(v))
	}
	for _, p := range w.cs.Protocols {
		cfg.Features.Protocols = append(cfg.Features.Protocols, conformancev1.Protocol(p))
	}
	for _, c := range w.cs.Codecs {
		cfg.Features.Codecs = append(cfg.Features.Codecs, conformancev1.Codec(c))
	}
	suite := &conformancev1.TestSuite{Name: w.cs.suiteName()}
	for i := 0; i < w.cs.NCases; i++ {
		msg, err := anypb.New(&conformancev1.UnaryRequest{ResponseDefinition: &conformancev1.UnaryResponseDefinition{
			Response: &conformancev1.UnaryResponseDefinition_ResponseData{ResponseData: []byte(fmt.Sprintf("data-%d", i))},
		}})
		if err != nil {
			return "", nil, err
		}
		suite.TestCases = append(suite.TestCases, &conformancev1.TestCase{
			Request: &conformancev1.ClientCompatRequest{
				TestName:        fmt.Sprintf("c%d", i),
				StreamType:      conformancev1.StreamType_STREAM_TYPE_UNARY,
				RequestMessages: []*anypb.Any{msg},
			},
			ExpectedResponse: expectedFor(i),
		})
	}
	cfgData, err := protojson.Marshal(cfg)
	if err != nil {
		return "", nil, err
	}
	suiteData, err := protojson.Marshal(suite)
	if err != nil {
		return "", nil, err
	}
	configFile = filepath.Join(w.dir, "config.yaml")
	suiteFile := filepath.Join(w.dir, "suite.yaml")
	if err := os.WriteFile(configFile, cfgData, 0o644); err != nil {
		return "", nil, err
	}
	if err := os.WriteFile(suiteFile, suiteData, 0o644); err != nil {
		return "", nil, err
	}
	suiteFiles = []string{suiteFile}
	if w.cs.ClientCerts {
		// the same cases once more as a suite that relies on TLS client certificates
		certs := proto.Clone(suite).(*conformancev1.TestSuite)
		certs.Name = "VerifCerts"
		certs.ReliesOnTls = true
		certs.ReliesOnTlsClientCerts = true
		data, err := protojson.Marshal(certs)
		if err != nil {
			return "", nil, err
		}
		// same base name as the first suite file, another directory
		if err := os.MkdirAll(filepath.Join(w.dir, "certs"), 0o755); err != nil {
			return "", nil, err
		}
		certFile := filepath.Join(w.dir, "certs", "suite.yaml")
		if err := os.WriteFile(certFile, data, 0o644); err != nil {
			return "", nil, err
		}
		suiteFiles = append(suiteFiles, certFile)
	}
	return configFile, suiteFiles, nil
}


func (w *world) flags(configFile string, suiteFiles []string) *Flags {
	f := &Flags{
		ConfigFile:   configFile,
		TestFiles:    suiteFiles,
		MaxServers:   w.cs.MaxServers,
		Parallelism:  4,
		Verbose:      w.cs.Verbose,
		RunPatterns:  w.cs.RunPatterns,
		SkipPatterns: w.cs.SkipPatterns,
	}
	if !w.cs.RefClient {
		f.ClientCommand = []string{"scripted-client"}
	}
	if !w.cs.RefServer {
		f.ServerCommand = []string{"scripted-server"}
	}
	for i, m := range w.cs.Markings {
		switch m {
		case 1:
			f.KnownFailingPatterns = append(f.KnownFailingPatterns, fmt.Sprintf("**/c%d", i))
		case 2:
			f.KnownFlakyPatterns = append(f.KnownFlakyPatterns, fmt.Sprintf("**/c%d", i))
		}
	}
	return f
}

// hook substitutes scripted peers for every process slot of run().
func (w *world) hook(kind string, args []string) verifImpl {
	slot := args[0]
	switch slot {
	case "scripted-client", "reference-client", "grpc-reference-client":
		return func(ctx context.Context, a []string, in io.ReadCloser, out, errw io.WriteCloser) error {
			sc := clientScript{ExitAfterRead: -1, StopReadingAt: -1}
			if slot != "grpc-reference-client" {
				sc = w.cs.Client
			}
			sc.SerialBase = 100000 * len(w.clients)
			c := newSimClient(w.sim, sc)
			c.name = slot
			w.clients[slot] = c
			c.planFn = func(req *conformancev1.ClientCompatRequest) answerPlan { return w.fate(req.TestName) }
			c.answerFn = func(name string, serial int) *conformancev1.ClientCompatResponse {
				return w.answer(slot, name, serial)
			}
			c.onReceive = func(_ int, req *conformancev1.ClientCompatRequest) {
				s := w.byPort[req.Port]
				c.aliveAtReceipt[req.TestName] = s != nil && !s.exited && s.ctx != nil && s.ctx.Err() == nil
				// a reference server reports feedback about a request when it receives
				// the RPC, whether or not the client ever reports a result
				if w.serverFeedback(req.TestName) {
					// the last thing a dying server writes may lack its newline (the
					// reference server prints prefix, message and newline separately)
					dying := s != nil && s.sc.ExitAfterK >= 0 && s.handed+1 >= s.sc.ExitAfterK && !s.died
					w.emitServerFeedback(c, req.TestName, dying && w.sim.Choose(2, "world.feedback.nonl") == 1)
				}
				if s != nil {
					s.handed++
					if s.sc.ExitAfterK >= 0 && s.handed >= s.sc.ExitAfterK {
						s.trigger()
					}
				}
			}
			return c.impl(ctx, a, in, out, errw)
		}
	case "scripted-server", "reference-server", "grpc-reference-server":
		return func(ctx context.Context, a []string, in io.ReadCloser, out, errw io.WriteCloser) error {
			idx := len(w.servers)
			sc := serverScript{ExitAfterK: -1, Host: "127.0.0.1", WithCert: true}
			if idx < len(w.cs.Servers) {
				sc = w.cs.Servers[idx]
			}
			sc.Port = uint32(20000 + idx)
			s := &worldServer{simServer: newSimServer(w.sim, idx, sc), slot: slot}
			s.errw = errw
			w.servers = append(w.servers, s)
			w.byPort[sc.Port] = s
			if sc.ExitAfterK == 0 {
				s.trigger() // dies right after announcing itself
			}
			return s.impl(ctx, a, in, out, errw)
		}
	}
	return nil
}

func (w *world) answer(slot, name string, serial int) *conformancev1.ClientCompatResponse {
	idx := caseIndex(name)
	if idx < 0 {
		return nil
	}
	plan := w.fate(name)
	resp := &conformancev1.ClientCompatResponse{TestName: name}
	if c := w.clients[slot]; c != nil {
		for _, r := range c.received {
			if r.TestName == name {
				if s := w.byPort[r.Port]; s != nil && s.exited {
					// no client gets the expected response out of a dead server
					c.goneAtAnswer[name] = true
					if plan.Kind == akPass {
						plan.Kind = akClientError
					}
				}
			}
		}
	}
	switch plan.Kind {
	case akPass, akAssertFail:
		r := expectedFor(idx)
		if plan.Kind == akAssertFail {
			r.Payloads[0].Data = append(r.Payloads[0].Data, '!')
		}
		if plan.Feedback && slot == "reference-client" {
			r.Feedback = []string{fmt.Sprintf("client feedback %d", serial)}
		}
		resp.Result = &conformancev1.ClientCompatResponse_Response{Response: r}
	case akClientError:
		// a client error is a failure whatever its text is: also without any
		// message, or with one that is only white space
		msg := []string{fmt.Sprintf("client error %d", serial), "", " \r\n\t\n", "\n"}[(serial/3)%4]
		resp.Result = &conformancev1.ClientCompatResponse_Error{Error: &conformancev1.ClientErrorResult{Message: msg}}
	}
	return resp
}

// emitServerFeedback writes "<test name>: msg" to the stderr of the server the
// request was addressed to (if it is a reference server that is still up).
func (w *world) emitServerFeedback(c *simClient, name string, unterminated bool) {
	var req *conformancev1.ClientCompatRequest
	for _, r := range c.received {
		if r.TestName == name {
			req = r
		}
	}
	if req == nil {
		return
	}
	s := w.byPort[req.Port]
	if s == nil || s.slot != "reference-server" || s.exited || s.errw == nil || s.errw == os.Stderr {
		return
	}
	line := name + ": scripted server feedback: with a colon: or two\n"
	if unterminated {
		line = strings.TrimSuffix(line, "\n")
		s.fired["feedback-line-unterminated-at-exit"]++
	}
	n, err := simrt.Write(s.errw, []byte(line), "world.feedback")
	if err == nil && n == len(line) && !s.exited {
		w.fbWritten[name] = true
	}
}

func sortedKeys[V any](m map[string]V) []string {
	keys := make([]string, 0, len(m))
	for k := range m {
		keys = append(keys, k)
	}
	sort.Strings(keys)
	return keys
}

// worldC05 evaluates the C05 clauses on a finished run.
func worldC05(w *world, cs *worldCase, selected map[string]*conformancev1.TestCase, viol func(string, string, ...any), res *simwork.Result) {
	count := map[string]int{}
	// a slow node (a runnable peer that is not scheduled for seconds) can make a
	// server miss the runner's start timeout: its cases are then setup failures
	clean := cs.ClientFault == "none" && w.sim.DelayedRunnable == 0
	for _, s := range w.servers {
		if len(s.fired) > 0 {
			clean = false
		}
	}
	for _, slot := range sortedKeys(w.clients) {
		c := w.clients[slot]
		if clientMisbehaved(c) {
			clean = false
		}
		for i, req := range c.received {
			name := req.TestName
			count[name]++
			tc, ok := selected[name]
			if !ok {
				viol("c05/not-selected", "client %s was handed %q, which is not a selected permutation", slot, name)
				continue
			}
			s := w.byPort[req.Port]
			switch {
			case s == nil:
				viol("c05/address", "request %q is addressed to port %d, which no started server announced", name, req.Port)
			case s.request == nil:
				viol("c05/address", "request %q is addressed to a server that never got its own request", name)
			default:
				sr := s.request
				if sr.Protocol != tc.Request.Protocol || sr.HttpVersion != tc.Request.HttpVersion ||
					sr.UseTls != (len(tc.Request.ServerTlsCert) > 0) || (len(sr.ClientTlsCert) > 0) != (tc.Request.ClientTlsCreds != nil) {
					viol("c05/server-mismatch", "request %q (%s, %s, tls=%v, client certificate=%v) was addressed to a server started for (%s, %s, tls=%v, client certificate=%v)",
						name, tc.Request.Protocol, tc.Request.HttpVersion, len(tc.Request.ServerTlsCert) > 0, tc.Request.ClientTlsCreds != nil, sr.Protocol, sr.HttpVersion, sr.UseTls, len(sr.ClientTlsCert) > 0)
				}
				if req.Protocol != tc.Request.Protocol || req.HttpVersion != tc.Request.HttpVersion || req.Codec != tc.Request.Codec {
					viol("c05/request-altered", "request %q carries (%s, %s, %s), its permutation is (%s, %s, %s)", name,
						req.Protocol, req.HttpVersion, req.Codec, tc.Request.Protocol, tc.Request.HttpVersion, tc.Request.Codec)
				}
				if want := tc.Request.ClientTlsCreds != nil; want != (req.ClientTlsCreds != nil && len(req.ClientTlsCreds.Cert) > 0 && len(req.ClientTlsCreds.Key) > 0) {
					viol("c05/client-certificate", "request %q: permutation uses a client certificate = %v, but the request handed to the client carries credentials = %v", name, want, req.ClientTlsCreds != nil)
				}
				if tc.Request.ClientTlsCreds != nil && req.ClientTlsCreds != nil && string(sr.ClientTlsCert) != string(req.ClientTlsCreds.Cert) {
					viol("c05/client-certificate", "request %q: the client certificate in the request is not the one its server was started with", name)
				}
				if tc.Request.ClientTlsCreds != nil {
					res.Probes["c05-client-cert-permutation"]++
				}
				if req.Host != "127.0.0.1" {
					viol("c05/address", "request %q has host %q, server announced 127.0.0.1", name, req.Host)
				}
				if sr.UseTls && string(req.ServerTlsCert) != string(s.pemCert) {
					viol("c05/certificate", "request %q does not carry the certificate its server announced", name)
				}
				if !sr.UseTls && len(req.ServerTlsCert) > 0 && !s.sc.WithCert {
					viol("c05/certificate", "request %q carries a certificate although its server announced none", name)
				}
				if len(s.fired) == 0 && !clientMisbehaved(c) && !c.aliveAtReceipt[name] {
					viol("c05/server-not-alive", "request %q reached the client while its (fault-free) server was already stopped", name)
				}
				if len(s.fired) == 0 && !clientMisbehaved(c) && c.goneAtAnswer[name] && w.sim.DelayedRunnable == 0 && steady(c) {
					viol("c05/server-stopped-early", "request %q was handed to the client in time, but its (fault-free) server had been stopped before the (well-behaved, steadily answering) client got to the case", name)
				}
				grpcServer := strings.Contains(name, grpcImplMarker) || strings.Contains(name, grpcServerImplMarker)
				if grpcServer != (s.slot == "grpc-reference-server") {
					viol("c05/grpc-marker", "request %q was addressed to server slot %s", name, s.slot)
				}
			}
			grpcClient := strings.Contains(name, grpcImplMarker) || strings.Contains(name, grpcClientImplMarker)
			if grpcClient != (slot == "grpc-reference-client") {
				viol("c05/grpc-marker", "request %q was handed to client slot %s", name, slot)
			}
			found := 0
			for _, h := range req.RequestHeaders {
				if strings.EqualFold(h.Name, "x-test-case-name") {
					found++
					if len(h.Value) != 1 || h.Value[0] != name {
						viol("c05/test-name-header", "request %q has x-test-case-name %v", name, h.Value)
					}
				}
			}
			if found != 1 {
				viol("c05/test-name-header", "request %q has %d x-test-case-name headers", name, found)
			}
			_ = i
		}
	}
	for _, name := range sortedKeys(count) {
		if n := count[name]; n > 1 {
			viol("c05/duplicate", "permutation %q was handed to a client %d times", name, n)
		}
	}
	if clean {
		for _, name := range sortedKeys(selected) {
			if count[name] != 1 {
				viol("c05/dropped", "no peer misbehaved, but selected permutation %q was handed to a client %d times", name, count[name])
				break
			}
		}
	} else {
		res.Probes["c05-faulty-run"]++
	}
	if w.maxLive > int(cs.MaxServers) {
		viol("c05/max-servers", "%d servers alive at once, --max-servers is %d", w.maxLive, cs.MaxServers)
	}
	for _, s := range w.servers {
		if s.started && !s.exited {
			viol("c05/server-not-stopped", "server #%d (%s) was still running when Run had returned and the system was quiescent", s.id, s.slot)
		}
	}
	for _, slot := range sortedKeys(w.clients) {
		if c := w.clients[slot]; c.started && !c.exited {
			viol("c05/client-not-stopped", "client %s was still running when Run had returned and the system was quiescent", slot)
		}
	}
	if cs.SerialSlowClient {
		res.Probes["c05-serial-slow-client"]++
		if w.maxLive >= 2 {
			res.Probes["c05-serial-slow-client-with-concurrent-batches"]++
		}
	}
	res.Probes[fmt.Sprintf("c05-servers-started-%d", len(w.servers))]++
	if w.maxLive >= 2 {
		res.Probes["c05-concurrent-servers"]++
	}
}

// clientMisbehaved reports whether a scripted client did anything a correct
// client would not do (being an in-process, serial or slow client is not).
func clientMisbehaved(c *simClient) bool {
	for k, v := range c.faultFired {
		if v > 0 && k != "in-process-peer" {
			return true
		}
	}
	return false
}

// steady reports whether the client's output never paused for (nearly) the
// runner's client response timeout: the runner declares a client dead that is
// silent for that long - also while the runner itself kept it waiting - and
// then tears everything down, which is its documented policy.
func steady(c *simClient) bool {
	limit := clientResponseTimeout - time.Second
	for _, wr := range c.written {
		if wr.Gap >= limit {
			return false
		}
	}
	return c.elapsed()-c.lastOutput < limit || c.exited
}
