//go:build verif

package connectconformance

import (
	"context"
	"encoding/binary"
	"errors"
	"io"
	"os"
	"time"

	conformancev1 "connectrpc.com/conformance/internal/gen/proto/go/connectrpc/conformance/v1"
	"connectrpc.com/conformance/internal/verifsim/simrt"
	"google.golang.org/protobuf/proto"
)

// ---------------------------------------------------------------------------
// scripted server process

// what a scripted server does with the ServerCompatRequest
const (
	srOK         = iota // a complete, valid ServerCompatResponse
	srStartError        // the process cannot be started at all
	srCloseStdin        // exits before reading its request (stdin closed under the writer)
	srTruncated         // response cut after TruncAt bytes, then exit
	srOversize          // length prefix above the runner's limit
	srEmpty             // zero-length message (no host, no port, no cert)
	srGarbage           // well-framed bytes that are no protobuf
	srNever             // reads the request, never answers (stall)
	srNoCert            // valid response that lacks the certificate although TLS was requested
	srKinds
)

var srNames = []string{"ok", "start-error", "server-exits-before-request", "response-truncated", "response-oversize",
	"response-empty", "response-garbage", "response-never", "missing-cert"}

type stderrLine struct {
	Text     string // without newline
	NoNL     bool   // unterminated (only meaningful for the last line)
	AtExit   bool   // written when the process ends instead of at start
	Sideband bool   // expected to be attributed to Name
	Name     string
	Msg      string
}

type serverScript struct {
	Resp         int  // sr*
	LatencyMs    int  // before the response is written
	TruncAt      int  // srTruncated: bytes of the response that get out
	WithCert     bool // response carries a certificate
	ExitAfterK   int  // >=0: dies when the client has been handed k requests of this batch
	ExitNonZero  bool
	AbortDelayMs int
	Stderr       []stderrLine
	Host         string
	Port         uint32
}

type simServer struct {
	sc  serverScript
	sim *simrt.Sim
	id  int

	// observations
	ctx        context.Context
	errw       io.WriteCloser
	pemCert    []byte
	started    bool
	startedAt  time.Duration
	request    *conformancev1.ServerCompatRequest
	requestEOF bool // stdin reached EOF after the request
	responded  bool
	exited     bool
	exitedAt   time.Duration
	ctxDoneAt  time.Duration // when the stub observed its context cancelled (-1: never)
	aborted    bool
	killed     bool
	fired      map[string]int
	linesOut   []stderrLine  // stderr lines that were written completely
	dieCh      chan struct{} // closed by the scenario to make the server die
	died       bool
	startStep  int
	endStep    int
	retErr     error // what the process body returned (the in-process seam prints it to the process's stderr)
}

func newSimServer(sim *simrt.Sim, id int, sc serverScript) *simServer {
	return &simServer{sc: sc, sim: sim, id: id, fired: map[string]int{}, dieCh: make(chan struct{}), ctxDoneAt: -1}
}

// trigger makes the server die (used for "exit after k requests").
func (s *simServer) trigger() {
	if !s.died {
		s.died = true
		close(s.dieCh)
	}
}

// starter returns the processStarter for this server.
func (s *simServer) starter() processStarter {
	if s.sc.Resp == srStartError {
		return func(context.Context, bool) (*process, error) {
			s.fired[srNames[srStartError]]++
			return nil, errors.New("scripted server: cannot start")
		}
	}
	return runInProcess([]string{"scripted-server"}, s.impl)
}

func (s *simServer) writeLines(errw io.Writer, atExit bool) {
	if errw == os.Stderr || errw == nil {
		return
	}
	for _, l := range s.sc.Stderr {
		if l.AtExit != atExit {
			continue
		}
		text := l.Text
		if !l.NoNL {
			text += "\n"
		}
		n, err := simrt.Write(errw, []byte(text), "simserver.stderr")
		if err != nil || n != len(text) {
			return
		}
		s.linesOut = append(s.linesOut, l)
	}
}

func (s *simServer) impl(ctx context.Context, _ []string, in io.ReadCloser, out, errw io.WriteCloser) (err error) {
	s.started = true
	s.ctx = ctx
	s.startedAt = s.sim.Elapsed()
	s.startStep = s.sim.Steps()
	s.sim.MixLog("server-start")
	defer func() {
		s.retErr = err
		s.exited = true
		s.exitedAt = s.sim.Elapsed()
		s.endStep = s.sim.Steps()
		if ctx.Err() != nil && s.ctxDoneAt < 0 {
			s.ctxDoneAt = s.sim.Elapsed()
		}
		s.sim.MixLog("server-exit")
	}()
	status := func() error {
		if n := len(s.linesOut); n > 0 && s.linesOut[n-1].NoNL {
			// the in-process wrapper prints a returned error to the same
			// stderr; keep the unterminated last line the last thing written
			return nil
		}
		if s.killed {
			return errors.New("scripted server: terminated by signal")
		}
		if s.sc.ExitNonZero {
			return errors.New("scripted server: exit status 1")
		}
		return nil
	}
	if s.sc.Resp == srStartError {
		// through the in-process seam a start failure is a process that dies at once
		s.fired[srNames[srStartError]]++
		return errors.New("scripted server: cannot start")
	}
	s.writeLines(errw, false)
	if s.sc.Resp == srCloseStdin {
		s.fired[srNames[srCloseStdin]]++
		s.writeLines(errw, true)
		return status()
	}
	// read the request (killable: the pipe is closed when the context ends)
	stop := make(chan struct{})
	simrt.Go("simserver.watch", func() {
		simrt.Yield("simserver.watch.wait")
		select {
		case <-ctx.Done():
			simrt.AfterBlock("simserver.watch.wait")
			s.ctxDoneAt = s.sim.Elapsed()
			s.aborted = true
		case <-stop:
			simrt.AfterBlock("simserver.watch.wait")
			return
		}
		if s.sc.AbortDelayMs > 0 {
			simrt.Sleep(time.Duration(s.sc.AbortDelayMs)*time.Millisecond, "simserver.watch.delay")
		}
		s.killed = true
		_ = in.Close()
		_ = out.Close()
		if errw != os.Stderr {
			_ = errw.Close()
		}
		s.trigger()
	})
	defer close(stop)
	var hdr [4]byte
	if _, err := simrt.ReadFull(in, hdr[:], "simserver.read"); err != nil {
		return status()
	}
	buf := make([]byte, binary.BigEndian.Uint32(hdr[:]))
	if _, err := simrt.ReadFull(in, buf, "simserver.read"); err != nil {
		return status()
	}
	req := &conformancev1.ServerCompatRequest{}
	if err := proto.Unmarshal(buf, req); err != nil {
		return errors.New("scripted server: bad request")
	}
	s.request = req
	var one [1]byte
	if n, err := simrt.Read(in, one[:], "simserver.read-eof"); n == 0 && err == io.EOF {
		s.requestEOF = true
	}
	if s.sc.LatencyMs > 0 {
		if simrt.SleepCtx(ctx, time.Duration(s.sc.LatencyMs)*time.Millisecond, "simserver.latency") {
			s.waitDeath(ctx)
			s.writeLines(errw, true)
			return status()
		}
	}
	resp := &conformancev1.ServerCompatResponse{Host: s.sc.Host, Port: s.sc.Port}
	if s.sc.WithCert && s.sc.Resp != srNoCert {
		resp.PemCert = []byte("-----BEGIN CERTIFICATE-----\nscripted-" + string(rune('A'+s.id%26)) + "\n-----END CERTIFICATE-----\n")
	}
	s.pemCert = resp.PemCert
	data, _ := proto.Marshal(resp)
	full := frame(data)
	switch s.sc.Resp {
	case srOK, srNoCert:
		if s.sc.Resp == srNoCert && req.UseTls {
			s.fired[srNames[srNoCert]]++
		}
		if n, err := simrt.Write(out, full, "simserver.write"); err == nil && n == len(full) {
			s.responded = true
		}
	case srTruncated:
		s.fired[srNames[srTruncated]]++
		k := s.sc.TruncAt % len(full)
		if k > 0 {
			_, _ = simrt.Write(out, full[:k], "simserver.write")
		}
		s.writeLines(errw, true)
		return status()
	case srOversize:
		s.fired[srNames[srOversize]]++
		b := make([]byte, 4)
		binary.BigEndian.PutUint32(b, uint32(maxServerResponseSize+1+s.sc.TruncAt))
		_, _ = simrt.Write(out, b, "simserver.write")
	case srEmpty:
		s.fired[srNames[srEmpty]]++
		_, _ = simrt.Write(out, frame(nil), "simserver.write")
	case srGarbage:
		s.fired[srNames[srGarbage]]++
		_, _ = simrt.Write(out, frame([]byte{0xff, 0xff, 0xff, 0xff, 0x0f, 0x01}), "simserver.write")
	case srNever:
		s.fired[srNames[srNever]]++
	}
	s.waitDeath(ctx)
	s.writeLines(errw, true)
	return status()
}

// waitDeath blocks until the process is told to die (abort + delay, or the
// scenario's exit-after-k trigger).
func (s *simServer) waitDeath(_ context.Context) {
	simrt.Recv(s.dieCh, "simserver.serve")
	if !s.killed {
		s.fired["server-dies-mid-batch"]++
	}
}
