//go:build verif

package connectconformance

// Check C16, scenario c16-fetch: the consumer side of the trace hand-off as
// the runner uses it. results.go starts a waiter for every recorded outcome
// (fetchTrace: Await with a TraceTimeout context, then Clear) while the
// producers (the tracing transport of the reference peers) complete traces at
// arbitrary instants. Per run 1-3 test names; for each, the instant of the
// outcome, the kind of outcome, and the instant at which the trace is completed
// (before the outcome, shortly after, just inside / just outside the waiter's
// timeout, never, twice) come from the tape, and so does every interleaving of
// the instrumented tracer, results and waiter code.
//
// Oracle (property text): a waiter obtains the first trace completed for its
// test name whether completion happens before or after the wait begins - so a
// failing, unmarked case whose trace is completed clearly inside the timeout is
// reported WITH that trace (the first one completed, not a later one); a wait
// never outlives its context - report() returns no later than the last outcome
// plus TraceTimeout (the constant is read from the package); afterwards the
// slot is cleared, so a further wait fails immediately and a late Complete has
// no effect.

import (
	"context"
	"fmt"
	"sort"
	"strings"
	"testing"
	"time"

	conformancev1 "connectrpc.com/conformance/internal/gen/proto/go/connectrpc/conformance/v1"
	"connectrpc.com/conformance/internal/tracer"
	"connectrpc.com/conformance/internal/verifsim/simrt"
	"connectrpc.com/conformance/internal/verifsim/simwork"
)

func init() { verifScenarios["c16-fetch"] = c16fRun }

type c16fName struct {
	Name       string `json:"name"`
	Outcome    string `json:"outcome"` // fail, pass, setup-error, known-failing
	OutcomeAt  int64  `json:"outcome_at_ms"`
	CompleteAt int64  `json:"complete_at_ms"` // -1 never
	Second     int64  `json:"second_complete_at_ms"`
	NoInit     bool   `json:"slot_never_initialised"`
}

type c16fCase struct {
	Names    []c16fName `json:"names"`
	SlowNode int        `json:"slow_node_permille"`
}

func c16fGen(tape *simrt.Tape) *c16fCase {
	c := &c16fCase{}
	n := tape.Range(1, 3, "names")
	timeout := tracer.TraceTimeout.Milliseconds()
	for i := 0; i < n; i++ {
		nm := c16fName{Name: fmt.Sprintf("Fetch/%d/case", i), Second: -1}
		nm.Outcome = []string{"fail", "fail", "fail", "pass", "setup-error", "known-failing"}[tape.Choose(6, "outcome")]
		nm.OutcomeAt = []int64{0, 0, 1, 50, 1000, 7000}[tape.Choose(6, "outcome.at")]
		switch tape.Choose(8, "complete") {
		case 0:
			nm.CompleteAt = 0 // at the very start (usually before the outcome)
		case 1:
			nm.CompleteAt = nm.OutcomeAt // racing the outcome
		case 2:
			nm.CompleteAt = nm.OutcomeAt + 1 + int64(tape.Choose(200, "complete.ms"))
		case 3:
			nm.CompleteAt = nm.OutcomeAt + timeout - 100 // just inside the waiter's timeout
		case 4:
			nm.CompleteAt = nm.OutcomeAt + timeout + 100 // just outside
		case 5:
			nm.CompleteAt = -1
		case 6:
			nm.CompleteAt = nm.OutcomeAt + 1000 + int64(tape.Choose(3000, "complete.ms"))
		case 7:
			nm.CompleteAt = nm.OutcomeAt / 2
		}
		if nm.CompleteAt >= 0 && tape.Bool(1, 4, "second") {
			nm.Second = nm.CompleteAt + int64(tape.Choose(300, "second.ms"))
		}
		nm.NoInit = tape.Bool(1, 12, "noinit")
		c.Names = append(c.Names, nm)
	}
	if tape.Bool(1, 8, "slownode") {
		c.SlowNode = 1 + tape.Choose(10, "slowpermille")
	}
	return c
}

func c16fRun(t *testing.T, tape *simrt.Tape, o simwork.Opts) *simwork.Result {
	res := &simwork.Result{Faults: map[string]int{}, Probes: map[string]int{}}
	p := simwork.Bubble(t, func(t *testing.T) { c16fBody(tape, o, res) })
	if p != nil {
		res.Violations = append(res.Violations, simwork.Violation{Class: "panic-outside-task", Detail: fmt.Sprint(p)})
	}
	return res
}

func c16fTrace(name string, serial int) tracer.Trace {
	return tracer.Trace{TestName: name, Err: fmt.Errorf("marker"), Events: []tracer.Event{&tracer.ResponseError{Err: fmt.Errorf("/trace-%d", serial)}}}
}

func c16fBody(tape *simrt.Tape, o simwork.Opts, res *simwork.Result) {
	cs := c16fGen(tape)
	res.Sample = cs
	sim := simrt.New(tape)
	defer sim.Detach()
	sim.KeepLog = o.KeepLog
	sim.SlowNodePermille = cs.SlowNode
	viol := func(class, format string, args ...any) {
		res.Violations = append(res.Violations, simwork.Violation{Class: class, Detail: fmt.Sprintf(format, args...)})
	}
	tr := &tracer.Tracer{}
	knownFailing := parsePatterns([]string{"KnownFailing/**"})
	results := newResults(len(cs.Names), knownFailing, &testTrie{}, tr)
	out := &recPrinter{}
	var (
		reportDone  bool
		reportAt    time.Duration
		lastOutcome time.Duration
		afterErrs   = map[string]error{}
		afterImm    = map[string]bool{}
		mainDone    bool
	)
	sim.Goal = func() bool { return mainDone }
	simrt.Go("c16f.main", func() {
		outDone := make(chan int, len(cs.Names))
		prodDone := make(chan int, len(cs.Names))
		for i := range cs.Names {
			nm := cs.Names[i]
			name := nm.Name
			if nm.Outcome == "known-failing" {
				name = "KnownFailing/" + name
				cs.Names[i].Name = name
			}
			if !nm.NoInit {
				tr.Init(name)
			}
			simrt.Go("c16f.runner", func() {
				if nm.OutcomeAt > 0 {
					simrt.Sleep(time.Duration(nm.OutcomeAt)*time.Millisecond, "c16f.runner.wait")
				}
				switch nm.Outcome {
				case "fail", "known-failing":
					results.failed(name, &conformancev1.ClientErrorResult{Message: "scripted failure"})
				case "pass":
					results.setOutcome(name, false, nil)
				case "setup-error":
					results.setOutcome(name, true, fmt.Errorf("scripted setup error"))
				}
				if e := sim.Elapsed(); e > lastOutcome {
					lastOutcome = e
				}
				simrt.Send(outDone, i, "c16f.runner.done")
			})
			simrt.Go("c16f.producer", func() {
				if nm.CompleteAt >= 0 {
					if nm.CompleteAt > 0 {
						simrt.Sleep(time.Duration(nm.CompleteAt)*time.Millisecond, "c16f.producer.wait")
					}
					tr.Complete(c16fTrace(name, 1))
					sim.MixLog("complete:" + name)
					if nm.Second >= 0 {
						if d := nm.Second - nm.CompleteAt; d > 0 {
							simrt.Sleep(time.Duration(d)*time.Millisecond, "c16f.producer.wait2")
						}
						tr.Complete(c16fTrace(name, 2))
					}
				}
				simrt.Send(prodDone, i, "c16f.producer.done")
			})
		}
		// the runner reports when every outcome is in (the producers may lag)
		for range cs.Names {
			simrt.Recv(outDone, "c16f.main.join")
		}
		results.report(out)
		reportDone = true
		reportAt = sim.Elapsed()
		// the slots are cleared: waiting again fails at once
		for _, nm := range cs.Names {
			ctx, cancel := context.WithTimeout(context.Background(), time.Hour)
			before := sim.Elapsed()
			_, err := tr.Await(ctx, nm.Name)
			cancel()
			afterErrs[nm.Name] = err
			afterImm[nm.Name] = sim.Elapsed() == before || sim.DelayedRunnable > 0 // a slow node may be held up anywhere
		}
		for range cs.Names {
			simrt.Recv(prodDone, "c16f.main.join2")
		}
		mainDone = true
	})
	end := sim.Run()

	res.Steps, res.Switches, res.Preempts = sim.Steps(), sim.Switches(), sim.Preempts()
	res.SimTime = sim.Elapsed()
	res.LogHash = sim.LogHash()
	res.End = end.String()
	res.Invalid = append(res.Invalid, sim.Invalid()...)
	res.Log = sim.Log()
	if sim.DelayedRunnable > 0 {
		res.Faults["slow-node-delay"] += sim.DelayedRunnable
	}
	res.Nontrivial = sim.Preempts() > 0
	for _, p := range sim.Panics() {
		viol("c16/fetch/panic", "%s", p)
	}
	if end == simrt.EndBudget {
		viol("c16/fetch/step-budget", "run did not finish within %d steps; tasks: %s", sim.MaxSteps, strings.Join(sim.EndSites(), "; "))
		return
	}
	if !reportDone || !mainDone {
		viol("c16/fetch/hang", "report returned=%v end=%s after %s; tasks: %s", reportDone, end, sim.Elapsed(), strings.Join(sim.EndSites(), "; "))
		return
	}
	slack := time.Duration(sim.DelayedRunnable) * 5 * time.Second
	// a wait never outlives its context
	if reportAt > lastOutcome+tracer.TraceTimeout+slack {
		viol("c16/fetch/wait-outlives-timeout", "report returned at %s, the last outcome was recorded at %s and the trace timeout is %s", reportAt, lastOutcome, tracer.TraceTimeout)
	}
	text := strings.Join(out.lines, "\n")
	var cover []string
	for _, nm := range cs.Names {
		// which trace, if any, is printed for this name?
		printed := 0
		if i := strings.Index(text, "FAILED: "+nm.Name+":"); i >= 0 {
			rest := text[i+len("FAILED: "+nm.Name+":"):]
			if j := strings.Index(rest, "FAILED: "); j >= 0 {
				rest = rest[:j]
			}
			if k := strings.Index(rest, "---- HTTP Trace ----"); k >= 0 {
				switch {
				case strings.Contains(rest[k:], "/trace-1"):
					printed = 1
				case strings.Contains(rest[k:], "/trace-2"):
					printed = 2
				default:
					printed = -1
				}
			}
		} else if strings.Contains(text, nm.Name+"\n---- HTTP Trace") {
			printed = -1
		}
		margin := int64(20) + slack.Milliseconds() // waiter start and completion are separate steps
		inside := nm.CompleteAt >= 0 && nm.CompleteAt <= nm.OutcomeAt+tracer.TraceTimeout.Milliseconds()-margin
		outside := nm.CompleteAt < 0 || nm.CompleteAt >= nm.OutcomeAt+tracer.TraceTimeout.Milliseconds()+margin
		state := "open"
		switch {
		case nm.NoInit:
			state = "no-slot"
			if printed != 0 {
				viol("c16/fetch/trace-without-slot", "%s: slot never initialised, but a trace was printed", nm.Name)
			}
		case nm.Outcome != "fail":
			state = "not-a-reported-failure"
			if printed != 0 {
				viol("c16/fetch/trace-for-non-failure", "%s: outcome %s, but a trace was printed", nm.Name, nm.Outcome)
			}
		case inside && sim.DelayedRunnable == 0:
			state = "must-have-trace"
			res.Probes["trace-completed-inside-timeout"]++
			if nm.CompleteAt > nm.OutcomeAt {
				res.Probes["trace-completed-after-wait-began"]++
			} else {
				res.Probes["trace-completed-before-wait-began"]++
			}
			if printed == 0 {
				viol("c16/fetch/trace-not-obtained", "%s failed at %d ms, its trace was completed at %d ms (timeout %s), but the report shows no trace for it", nm.Name, nm.OutcomeAt, nm.CompleteAt, tracer.TraceTimeout)
			} else if printed != 1 {
				viol("c16/fetch/wrong-trace", "%s: the report shows trace %d, the first completed trace is 1", nm.Name, printed)
			}
		case outside:
			state = "must-not-have-trace"
			res.Probes["trace-completed-outside-timeout-or-never"]++
			if printed != 0 {
				viol("c16/fetch/late-trace", "%s failed at %d ms, its trace was completed at %d ms (-1 = never; timeout %s), but the report shows a trace", nm.Name, nm.OutcomeAt, nm.CompleteAt, tracer.TraceTimeout)
			}
		}
		if printed == 2 {
			viol("c16/fetch/wrong-trace", "%s: the report shows the second completed trace", nm.Name)
		}
		if err := afterErrs[nm.Name]; err == nil {
			viol("c16/fetch/not-cleared", "%s: a wait after the report succeeded, the slot was not cleared", nm.Name)
		} else if !afterImm[nm.Name] {
			viol("c16/fetch/not-cleared", "%s: a wait after the report did not fail immediately: %v", nm.Name, err)
		}
		cover = append(cover, fmt.Sprintf("outcome=%s %s second=%v", nm.Outcome, state, nm.Second >= 0))
	}
	sort.Strings(cover)
	res.Cover = cover
}
