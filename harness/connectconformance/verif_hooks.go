//go:build verif

package connectconformance

import (
	"context"
	"io"
)

// verifImpl is the signature of an in-process peer.
type verifImpl = func(ctx context.Context, args []string, in io.ReadCloser, out, err io.WriteCloser) error

// verifStarterHook, when set by a harness, may substitute a scripted peer for
// the process that run() is about to describe. kind is "cmd" for
// runCommand(command) and "inproc" for runInProcess(args, impl); args[0]
// identifies the slot. Returning nil keeps the original.
var verifStarterHook func(kind string, args []string) verifImpl

func verifRunCommand(command []string) processStarter {
	if h := verifStarterHook; h != nil {
		if impl := h("cmd", command); impl != nil {
			return runInProcess(command, impl)
		}
	}
	return runCommand(command)
}

func verifRunInProcess(args []string, impl verifImpl) processStarter {
	if h := verifStarterHook; h != nil {
		if repl := h("inproc", args); repl != nil {
			return runInProcess(args, repl)
		}
	}
	return runInProcess(args, impl)
}
