//go:build verif

package connectconformance

import (
	"fmt"
	"os"
	"regexp"
	"sort"
	"strconv"
	"strings"
	"testing"
	"time"

	conformancev1 "connectrpc.com/conformance/internal/gen/proto/go/connectrpc/conformance/v1"
	"connectrpc.com/conformance/internal/verifsim/simrt"
	"connectrpc.com/conformance/internal/verifsim/simwork"
)

func init() {
	verifScenarios["c04"] = func(t *testing.T, tape *simrt.Tape, o simwork.Opts) *simwork.Result {
		return worldRun(t, tape, o, "c04")
	}
	verifScenarios["c05"] = func(t *testing.T, tape *simrt.Tape, o simwork.Opts) *simwork.Result {
		return worldRun(t, tape, o, "c05")
	}
}

var worldDir string

func worldGen(tape *simrt.Tape, tier, focus string) *worldCase {
	c := &worldCase{}
	maxCases := 3
	if tier == "thorough" {
		maxCases = 5
	}
	c.NCases = tape.Range(1, maxCases, "ncases")
	if tape.Bool(1, 6, "suite-named-like-a-case") {
		// the simple name of a case also occurs earlier in its full name
		c.SuiteName = "c0"
	}
	c.Versions = []int32{1}
	if tape.Bool(1, 2, "http2") {
		c.Versions = append(c.Versions, 2)
	}
	c.Protocols = []int32{int32(conformancev1.Protocol_PROTOCOL_CONNECT)}
	c.Codecs = []int32{int32(conformancev1.Codec_CODEC_PROTO)}
	if focus == "c05" {
		// more server instances and gRPC-peer permutations
		if tape.Bool(2, 3, "grpc") {
			c.Protocols = append(c.Protocols, int32(conformancev1.Protocol_PROTOCOL_GRPC))
			if len(c.Versions) == 1 {
				c.Versions = append(c.Versions, 2)
			}
		}
		if tape.Bool(1, 2, "grpcweb") {
			c.Protocols = append(c.Protocols, int32(conformancev1.Protocol_PROTOCOL_GRPC_WEB))
		}
		if tape.Bool(1, 3, "json") {
			c.Codecs = append(c.Codecs, int32(conformancev1.Codec_CODEC_JSON))
		}
	}
	c.TLS = tape.Bool(1, 24, "tls")
	if focus == "c05" {
		// TLS and TLS-with-client-certificate server instances next to the plain ones
		if tape.Bool(1, 8, "tls-more") {
			c.TLS = true
		}
		c.ClientCerts = c.TLS && tape.Bool(1, 2, "tls-client-certs")
	}
	c.RefClient = tape.Bool(1, 2, "refclient")
	c.RefServer = tape.Bool(1, 2, "refserver")
	c.MaxServers = uint(tape.Range(1, 3, "maxservers"))
	if focus == "c05" && tier == "thorough" {
		c.MaxServers = uint(tape.Range(1, 4, "maxservers"))
	}
	c.Verbose = tape.Bool(1, 2, "verbose")
	c.ExactMark = tape.Bool(1, 3, "exactmark")
	// fate table
	nf := 8
	for i := 0; i < nf; i++ {
		var p answerPlan
		switch tape.Choose(6, "f.latency") {
		case 1, 2:
			p.DelayMs = 1 + tape.Choose(50, "f.ms")
		case 3:
			p.DelayMs = 500 + tape.Choose(3000, "f.ms")
		}
		if focus == "c04" {
			switch tape.Choose(10, "f.kind") {
			case 0, 1, 2, 3, 4:
				p.Kind = akPass
			case 5, 6:
				p.Kind = akAssertFail
			case 7:
				p.Kind = akClientError
			case 8:
				p.Kind = akNeither
			case 9:
				p.Never = true
			}
			p.Feedback = tape.Bool(1, 6, "f.clientfb")
		} else if tape.Bool(1, 6, "f.fail") {
			p.Kind = akAssertFail
		}
		c.Fates = append(c.Fates, p)
		c.ServerFB = append(c.ServerFB, focus == "c04" && tape.Bool(1, 6, "f.serverfb"))
	}
	for i := 0; i < c.NCases; i++ {
		m := 0
		if focus == "c04" {
			m = []int{0, 0, 0, 1, 2}[tape.Choose(5, "marking")]
		}
		c.Markings = append(c.Markings, m)
	}
	if c.NCases >= 2 && tape.Bool(1, 4, "skip") {
		c.SkipPatterns = []string{fmt.Sprintf("**/c%d", tape.Choose(c.NCases, "skipcase"))}
	}
	if focus == "c05" && tape.Bool(1, 3, "exactpat") {
		// patterns that tell a permutation from its gRPC-peer siblings: an exact
		// full name (resolved against the expansion below) or a marker component
		pat := []string{"@exact:" + strconv.Itoa(tape.Choose(64, "exactidx")), "**/(grpc server impl)/**", "**/(grpc client impl)/**",
			"@exact:" + strconv.Itoa(tape.Choose(64, "exactidx2"))}[tape.Choose(4, "exactkind")]
		if tape.Bool(1, 2, "exact-as-skip") {
			c.SkipPatterns = append(c.SkipPatterns, pat)
		} else {
			c.RunPatterns = append(c.RunPatterns, pat)
		}
	} else if focus == "c05" && tape.Bool(1, 4, "runpat") {
		switch tape.Choose(4, "runpatkind") {
		case 3:
			// two patterns that share a prefix and have a literal and a '*' at the same
			// position: a name is selected if ANY pattern matches it
			v := c.Versions[tape.Choose(len(c.Versions), "runpat.version")]
			p := conformancev1.Protocol(c.Protocols[tape.Choose(len(c.Protocols), "runpat.protocol")])
			c.RunPatterns = []string{
				fmt.Sprintf("%s/HTTPVersion:%d/**/c%d", c.suiteName(), v, tape.Choose(c.NCases, "runcase")),
				fmt.Sprintf("%s/*/Protocol:%s/**", c.suiteName(), p),
			}
			if tape.Bool(1, 2, "runpat.swap") {
				c.RunPatterns[0], c.RunPatterns[1] = c.RunPatterns[1], c.RunPatterns[0]
			}
		case 0:
			c.RunPatterns = []string{fmt.Sprintf("**/c%d", tape.Choose(c.NCases, "runcase"))}
		case 1:
			c.RunPatterns = []string{c.suiteName() + "/**"}
		case 2:
			c.RunPatterns = []string{"**/c0", fmt.Sprintf("%s/**/c%d", c.suiteName(), tape.Choose(c.NCases, "runcase2"))}
		}
	}
	// client process fate
	c.Client = clientScript{ExitAfterRead: -1, StopReadingAt: -1}
	c.Client.AbortDelayMs = []int{0, 0, 1, 100, 2999, 4999}[tape.Choose(6, "c.abortdelay")]
	c.ClientFault = "none"
	faultP := 2
	if focus == "c05" {
		faultP = 1
	}
	if tape.Bool(faultP, 5, "c.faulty") {
		total := c.NCases * len(c.Versions) * 2
		switch tape.Choose(6, "c.faultkind") {
		case 0, 1:
			c.Client.ExitAfterRead = tape.Choose(total+1, "c.exitafter")
			c.ClientFault = "exit-0-early"
		case 2:
			c.Client.ExitAfterRead = tape.Choose(total+1, "c.exitafter")
			c.Client.ExitNonZero = true
			c.ClientFault = "exit-nonzero-early"
		case 3:
			c.Client.StopReadingAt = tape.Choose(total+1, "c.stopreading")
			c.ClientFault = "stop-reading-stdin"
		case 4:
			c.Client.Fault = cfCut
			c.Client.CutAt = tape.Choose(60*total+8, "c.cutat")
			c.ClientFault = cfNames[cfCut]
		case 5:
			c.Client.ExitNonZero = true
			c.ClientFault = "exit-nonzero-at-end"
		}
	}
	// servers by start order
	ns := 6
	for j := 0; j < ns; j++ {
		sc := serverScript{ExitAfterK: -1, Host: "127.0.0.1", WithCert: true}
		sc.AbortDelayMs = []int{0, 0, 1, 100, 2999}[tape.Choose(5, "s.abortdelay")]
		switch tape.Choose(4, "s.latency") {
		case 1:
			sc.LatencyMs = 1 + tape.Choose(100, "s.ms")
		}
		fault := "none"
		if tape.Bool(1, 8, "s.faulty") {
			switch tape.Choose(5, "s.faultkind") {
			case 0:
				sc.Resp = srStartError
			case 1:
				sc.Resp = srGarbage
			case 2:
				sc.Resp = srNever
			case 3:
				sc.Resp = srCloseStdin
			case 4:
				sc.ExitAfterK = tape.Choose(c.NCases+1, "s.exitafter")
			}
			fault = srNames[sc.Resp]
			if sc.ExitAfterK >= 0 {
				fault = "server-dies-mid-batch"
			}
		}
		c.Servers = append(c.Servers, sc)
		c.ServerFaults = append(c.ServerFaults, fault)
	}
	if tape.Bool(1, 10, "slownode") {
		c.SlowNode = 1 + tape.Choose(10, "slowpermille")
	}
	if focus == "c05" && c.ClientFault == "none" && tape.Bool(1, 8, "serial-slow-client") {
		// a serial client (one RPC at a time, as a client under test may be) that
		// needs several seconds per case: the requests of one batch queue up
		// behind another batch's for longer than any single timeout of the runner,
		// while the client itself keeps answering steadily
		c.SerialSlowClient = true
		c.Client.InProcess = 1
		c.Client.QueueAhead = tape.Bool(1, 2, "queue-ahead")
		for i := range c.Fates {
			c.Fates[i].DelayMs = 10500 + (i*977)%3000
			c.Fates[i].Never = false
		}
	}
	return c
}

func worldRun(t *testing.T, tape *simrt.Tape, o simwork.Opts, focus string) *simwork.Result {
	res := &simwork.Result{Faults: map[string]int{}, Probes: map[string]int{}}
	if worldDir == "" {
		d, err := os.MkdirTemp("", "verif-world-")
		if err != nil {
			res.Invalid = append(res.Invalid, err.Error())
			return res
		}
		worldDir = d
	}
	p := simwork.Bubble(t, func(t *testing.T) { worldBody(tape, o, res, focus) })
	verifStarterHook = nil
	if p != nil {
		res.Violations = append(res.Violations, simwork.Violation{Class: "panic-outside-task", Detail: fmt.Sprint(p)})
	}
	return res
}

var totalsRE = regexp.MustCompile(`Total cases: (\d+)\n(\d+) passed, (\d+) failed`)
var noRunRE = regexp.MustCompile(`Another (\d+) could not be run`)
var expFailRE = regexp.MustCompile(`\(Another (\d+) failed as expected`)

func worldBody(tape *simrt.Tape, o simwork.Opts, res *simwork.Result, focus string) {
	cs := worldGen(tape, o.Tier, focus)
	res.Sample = cs
	sim := simrt.New(tape)
	defer sim.Detach()
	sim.KeepLog = o.KeepLog
	sim.SlowNodePermille = cs.SlowNode
	sim.MaxSteps = 200000
	viol := func(class, format string, args ...any) {
		res.Violations = append(res.Violations, simwork.Violation{Class: class, Detail: fmt.Sprintf(format, args...)})
	}
	w := &world{cs: cs, sim: sim, dir: worldDir, clients: map[string]*simClient{}, byPort: map[uint32]*worldServer{},
		fbWritten: map[string]bool{}, logP: &recPrinter{}, errP: &recPrinter{}}
	configFile, suiteFiles, err := w.files()
	if err != nil {
		res.Invalid = append(res.Invalid, "world files: "+err.Error())
		return
	}
	flags := w.flags(configFile, suiteFiles)

	// the selected set, computed with the library's own expansion (C07/C08 are assumed here)
	cfgData, _ := os.ReadFile(configFile)
	configCases, err := parseConfig(configFile, cfgData)
	if err != nil {
		res.Invalid = append(res.Invalid, "parseConfig: "+err.Error())
		return
	}
	suiteDatas := map[string][]byte{}
	for _, f := range suiteFiles {
		suiteDatas[f], _ = os.ReadFile(f)
	}
	suites, err := parseTestSuites(suiteDatas)
	if err != nil {
		res.Invalid = append(res.Invalid, "parseTestSuites: "+err.Error())
		return
	}
	mode := conformancev1.TestSuite_TEST_MODE_UNSPECIFIED
	switch {
	case cs.RefServer && !cs.RefClient:
		mode = conformancev1.TestSuite_TEST_MODE_CLIENT
	case cs.RefClient && !cs.RefServer:
		mode = conformancev1.TestSuite_TEST_MODE_SERVER
	}
	lib, err := newTestCaseLibrary(suites, configCases, mode)
	if err != nil {
		res.Invalid = append(res.Invalid, "library: "+err.Error())
		return
	}
	// resolve "@exact:<j>" placeholders to the j-th permutation name
	allPerms := lib.allPermutations(cs.RefClient, cs.RefServer)
	permNames := make([]string, 0, len(allPerms))
	for _, tc := range allPerms {
		permNames = append(permNames, tc.Request.TestName)
	}
	sort.Strings(permNames)
	resolve := func(pats []string) []string {
		var out []string
		for _, p := range pats {
			if strings.HasPrefix(p, "@exact:") {
				j, _ := strconv.Atoi(strings.TrimPrefix(p, "@exact:"))
				p = permNames[j%len(permNames)]
			}
			out = append(out, p)
		}
		return out
	}
	if os.Getenv("VERIF_DEBUG") != "" {
		fmt.Fprintf(os.Stderr, "DEBUG patterns before resolve run=%q skip=%q nperm=%d\n", cs.RunPatterns, cs.SkipPatterns, len(permNames))
	}
	cs.RunPatterns, cs.SkipPatterns = resolve(cs.RunPatterns), resolve(cs.SkipPatterns)
	if cs.ExactMark {
		// list one permutation of every marked case by its exact full name as well
		// (redundant with the "**/c<i>" pattern: the marking of no case changes,
		// but the pattern trie now holds a literal path next to the wildcard)
		for i, m := range cs.Markings {
			if m == 0 {
				continue
			}
			count := 0
			for _, pn := range permNames {
				if caseIndex(pn) == i {
					count++
				}
			}
			if count < 2 {
				continue // the wildcard pattern would be shadowed completely
			}
			for _, pn := range permNames {
				if caseIndex(pn) == i {
					if m == 1 {
						flags.KnownFailingPatterns = append(flags.KnownFailingPatterns, pn)
					} else {
						flags.KnownFlakyPatterns = append(flags.KnownFlakyPatterns, pn)
					}
					res.Probes["marking-by-exact-name-and-wildcard"]++
					break
				}
			}
		}
	}
	flags.RunPatterns, flags.SkipPatterns = cs.RunPatterns, cs.SkipPatterns
	filter := newFilter(parsePatterns(cs.RunPatterns), parsePatterns(cs.SkipPatterns))
	selected := map[string]*conformancev1.TestCase{}
	for _, tc := range allPerms {
		if filter.accept(tc) {
			selected[tc.Request.TestName] = tc
		}
	}

	for _, p := range append(append([]string{}, cs.RunPatterns...), cs.SkipPatterns...) {
		if !strings.Contains(p, "*") {
			res.Probes["exact-name-pattern"]++
		} else if strings.Contains(p, "(grpc") {
			res.Probes["marker-pattern"]++
		}
	}
	for name := range selected {
		if strings.Contains(name, "(grpc") {
			res.Probes["grpc-marked-permutation-selected"]++
			break
		}
	}
	verifStarterHook = w.hook
	var (
		runOK    bool
		runErr   error
		returned bool
		doneAt   time.Duration
	)
	sim.Goal = func() bool { return returned }
	clientTrouble := func() bool {
		if cs.ClientFault != "none" {
			return true
		}
		for _, c := range w.clients {
			if len(c.faultFired) > 0 {
				return true
			}
		}
		return false
	}
	sim.Invariant = func() string {
		// servers that are up and have not been asked to stop yet (a server whose
		// context is cancelled is being terminated and no longer counts)
		live := 0
		for _, s := range w.servers {
			if !s.started || s.exited {
				continue
			}
			// A server that is being killed on an error path (it misbehaved, or the
			// client died and the whole run is torn down) is not waited for by the
			// runner and is not counted; a well-behaved server that was asked to
			// stop at the end of its batch occupies its slot until it has exited.
			if s.ctx != nil && s.ctx.Err() != nil && (len(s.fired) > 0 || clientTrouble() || !s.responded || sim.DelayedRunnable > 0) {
				// (a slow node can make a well-behaved server miss the start timeout:
				// that is an error path too, and the stub cannot tell which one it is on)
				continue
			}
			// the runner gives a server gracefulShutdownPeriod to end after asking
			// it to stop; after that it is abandoned (a real process is killed)
			if s.ctx != nil && s.ctx.Err() != nil {
				if !s.stopSeen {
					s.stopSeen, s.stopSeenAt = true, sim.Elapsed()
				}
				if sim.Elapsed()-s.stopSeenAt >= gracefulShutdownPeriod {
					continue
				}
			}
			live++
		}
		if live > w.maxLive {
			w.maxLive = live
		}
		if live > int(cs.MaxServers) {
			var desc []string
			for _, s := range w.servers {
				if s.started && !s.exited {
					desc = append(desc, fmt.Sprintf("#%d %s started at %s asked-to-stop=%v faults=%v", s.id, s.slot, s.startedAt, s.ctx != nil && s.ctx.Err() != nil, len(s.fired) > 0))
				}
			}
			return fmt.Sprintf("%d server processes running at once at %s, --max-servers is %d (%s)", live, sim.Elapsed(), cs.MaxServers, strings.Join(desc, "; "))
		}
		return ""
	}
	simrt.Go("world.main", func() {
		runOK, runErr = Run(flags, w.logP, w.errP)
		returned = true
		doneAt = sim.Elapsed()
	})
	end := sim.Run()

	res.Steps, res.Switches, res.Preempts = sim.Steps(), sim.Switches(), sim.Preempts()
	res.SimTime = sim.Elapsed()
	res.LogHash = sim.LogHash()
	res.End = end.String()
	res.Invalid = append(res.Invalid, sim.Invalid()...)
	res.Log = sim.Log()
	for slot, c := range w.clients {
		for k, v := range c.faultFired {
			res.Faults["client("+slot+"):"+k] += v
		}
	}
	serverFault := false
	for _, s := range w.servers {
		for k, v := range s.fired {
			res.Faults["server:"+k] += v
			serverFault = true
		}
	}
	if sim.DelayedRunnable > 0 {
		res.Faults["slow-node-delay"] += sim.DelayedRunnable
	}
	res.Nontrivial = len(res.Faults) > 0 || sim.Preempts() > 0
	for _, p := range sim.Panics() {
		viol(focus+"/panic", "%s", p)
	}
	if msg := sim.InvariantMsg(); msg != "" {
		viol("c05/max-servers", "%s", msg)
		return
	}
	if end == simrt.EndBudget {
		viol(focus+"/liveness/step-budget", "Run did not finish within %d steps; tasks: %s", sim.MaxSteps, strings.Join(sim.EndSites(), "; "))
		return
	}
	if !returned || end == simrt.EndIdle {
		viol(focus+"/liveness/hang", "Run returned=%v end=%s after %s; tasks: %s", returned, end, sim.Elapsed(), strings.Join(sim.EndSites(), "; "))
		return
	}
	_ = doneAt
	if runErr != nil {
		// rejected before anything ran (e.g. a pattern that matches nothing): legal, nothing to judge
		res.Probes["run-rejected"]++
		msg := runErr.Error()
		if len(msg) > 60 {
			msg = msg[:60]
		}
		res.Probes["rejected: "+strings.ReplaceAll(msg, "\n", " ")]++
		if len(w.clients) > 0 {
			viol(focus+"/error-after-start", "Run returned an error although peers had been started: %v", runErr)
		}
		// a pattern list is rejected as "unmatched and possibly invalid": each
		// rejected pattern must really be useless - there is no permutation that it
		// matches (independent matcher) and that no other pattern of its list matches
		if what, list, ok := strings.Cut(runErr.Error(), ": unmatched and possibly invalid patterns:\n"); ok {
			var all []string
			switch what {
			case "known failing":
				all = flags.KnownFailingPatterns
			case "known flaky":
				all = flags.KnownFlakyPatterns
			case "run patterns":
				all = flags.RunPatterns
			case "no-run patterns":
				all = flags.SkipPatterns
			}
			for _, rejected := range strings.Split(list, "\n") {
				for _, name := range permNames {
					if !globMatch(strings.Split(rejected, "/"), strings.Split(name, "/")) {
						continue
					}
					only := true
					for _, other := range all {
						if other != rejected && globMatch(strings.Split(other, "/"), strings.Split(name, "/")) {
							only = false
						}
					}
					if only {
						viol(focus+"/valid-pattern-rejected", "Run rejected the %s pattern %q as unmatched, but it is the only pattern of its list that matches permutation %q", what, rejected, name)
						break
					}
				}
			}
		}
		return
	}
	primary := w.clients["scripted-client"]
	if cs.RefClient {
		primary = w.clients["reference-client"]
	}

	// ---------------------------------------------------------------- C05 clauses
	worldC05(w, cs, selected, viol, res)
	if focus == "c05" {
		res.Cover = append(res.Cover, fmt.Sprintf("servers=%d maxservers=%d ref=%v/%v protocols=%d run=%d skip=%d clientfault=%s",
			len(w.servers), cs.MaxServers, cs.RefClient, cs.RefServer, len(cs.Protocols), len(cs.RunPatterns), len(cs.SkipPatterns), cs.ClientFault))
		return
	}

	// ---------------------------------------------------------------- C04 clauses
	margin := time.Duration(sim.DelayedRunnable) * 5 * time.Second
	type ans struct {
		certain bool
		plan    answerPlan
		gone    bool
	}
	answered := map[string]ans{}
	for _, c := range w.clients {
		timedOut := false
		for _, wr := range c.written {
			if wr.Gap >= clientResponseTimeout-margin {
				timedOut = true
			}
			a := ans{certain: wr.BeforeFault && !timedOut, plan: w.fate(wr.Name), gone: c.goneAtAnswer[wr.Name]}
			answered[wr.Name] = a
		}
	}
	// model: does each selected permutation meet its expectation?
	modelFalse, modelUnknown := "", ""
	rows := map[string]bool{}
	failedCases := map[string]bool{}
	for _, name := range sortedKeys(selected) {
		idx := caseIndex(name)
		marking := 0
		if idx >= 0 && idx < len(cs.Markings) {
			marking = cs.Markings[idx]
		}
		a, got := answered[name]
		var met, certain bool
		fate := "no-result"
		fb := "none"
		if got {
			kind := a.plan.Kind
			if a.gone && kind == akPass {
				kind = akClientError
			}
			failed := kind != akPass
			fate = akNames[kind]
			if w.fbWritten[name] {
				failed = true
				fb = "server"
			}
			if a.plan.Feedback && cs.RefClient && a.plan.Kind <= akAssertFail && !a.gone && primary != nil && primary.name == "reference-client" && !strings.Contains(name, "(grpc") {
				failed = true
				fb = "client"
			}
			failedCases[name] = failed
			switch marking {
			case 0:
				met = !failed
			case 1:
				met = failed
			case 2:
				met = true
			}
			certain = a.certain || !met // if it does not meet the expectation when answered, it does not when unanswered either
		} else {
			met, certain = false, true
		}
		rows[fmt.Sprintf("fate=%s marking=%d feedback=%s process=%s", fate, marking, fb, cs.ClientFault)] = true
		if certain && !met && modelFalse == "" {
			modelFalse = fmt.Sprintf("%s (fate=%s marking=%d feedback=%s)", name, fate, marking, fb)
		}
		if !certain && modelUnknown == "" {
			modelUnknown = name
		}
	}
	for r := range rows {
		res.Cover = append(res.Cover, r)
	}
	switch {
	case modelFalse != "" && runOK:
		viol("c04/success-despite-unmet-case", "Run returned success although %s did not meet its expectation (client fault=%s, server faults=%v); output: %s",
			modelFalse, cs.ClientFault, cs.ServerFaults, lastLines(w.logP.lines, 6))
	case modelFalse == "" && modelUnknown == "" && !runOK:
		clean := cs.ClientFault == "none" && !serverFault && sim.DelayedRunnable == 0
		for _, c := range w.clients {
			if len(c.faultFired) > 0 {
				clean = false
			}
		}
		if clean {
			viol("c04/failure-although-all-met", "every selected case met its expectation and no peer misbehaved, but Run returned failure; output: %s; errors: %s",
				lastLines(w.logP.lines, 8), lastLines(w.errP.lines, 4))
		} else {
			res.Probes["failure-for-process-reason"]++
		}
	case modelUnknown != "":
		res.Probes["model-inconclusive"]++
	}

	// ---- output laws
	out := strings.Join(w.logP.lines, "\n")
	m := totalsRE.FindStringSubmatch(out)
	if m == nil {
		viol("c04/no-summary", "no 'Total cases' summary in the output: %s", lastLines(w.logP.lines, 6))
		return
	}
	atoi := func(s string) int { n, _ := strconv.Atoi(s); return n }
	passed, failed := atoi(m[2]), atoi(m[3])
	noRun, expFail := 0, 0
	if mm := noRunRE.FindStringSubmatch(out); mm != nil {
		noRun = atoi(mm[1])
	}
	if mm := expFailRE.FindStringSubmatch(out); mm != nil {
		expFail = atoi(mm[1])
	}
	if passed+failed+noRun+expFail != len(selected) {
		viol("c04/totals", "passed %d + failed %d + could-not-run %d + expected failures %d != %d selected permutations", passed, failed, noRun, expFail, len(selected))
	}
	if (failed == 0) != runOK && modelFalse == "" {
		res.Probes["failed-count-vs-verdict-differs"]++
	}
	// every case that certainly ran and did not meet its expectation is named in a FAILED line
	for _, name := range sortedKeys(selected) {
		a, got := answered[name]
		if !got || !a.certain {
			continue
		}
		idx := caseIndex(name)
		marking := cs.Markings[idx]
		failedCase := failedCases[name]
		unmet := (marking == 0 && failedCase) || (marking == 1 && !failedCase)
		if unmet && !strings.Contains(out, "FAILED: "+name) {
			viol("c04/failing-case-not-named", "%s did not meet its expectation but is not named in a FAILED line", name)
		}
		if !unmet && marking == 0 && strings.Contains(out, "FAILED: "+name+":") {
			viol("c04/passing-case-reported-failed", "%s passed without feedback but is reported as FAILED", name)
		}
	}
}

func lastLines(lines []string, n int) string {
	if len(lines) > n {
		lines = lines[len(lines)-n:]
	}
	return strings.Join(lines, " | ")
}

// globMatch is an independent matcher for test-name patterns: "*" stands for
// exactly one path component, "**" for zero or more.
func globMatch(pattern, name []string) bool {
	if len(pattern) == 0 {
		return len(name) == 0
	}
	switch pattern[0] {
	case "**":
		for i := 0; i <= len(name); i++ {
			if globMatch(pattern[1:], name[i:]) {
				return true
			}
		}
		return false
	case "*":
		return len(name) > 0 && globMatch(pattern[1:], name[1:])
	default:
		return len(name) > 0 && name[0] == pattern[0] && globMatch(pattern[1:], name[1:])
	}
}
