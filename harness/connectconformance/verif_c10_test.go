//go:build verif

package connectconformance

import (
	"context"
	"errors"
	"fmt"
	"strings"
	"testing"
	"time"

	conformancev1 "connectrpc.com/conformance/internal/gen/proto/go/connectrpc/conformance/v1"
	"connectrpc.com/conformance/internal/verifsim/simrt"
	"connectrpc.com/conformance/internal/verifsim/simwork"
)

func init() { verifScenarios["c10"] = c10Run }

// c10Case is one generated scenario (also the evidence sample).
type c10Case struct {
	Names    []string     `json:"request_names"`
	Senders  [][]int      `json:"sender_assignment"`
	Script   clientScript `json:"client_script"`
	Fault    string       `json:"stream_fault"`
	LateSend bool         `json:"late_send"`
	// Unencodable >= 0: that request carries a string field that is not valid
	// UTF-8, so writing it to the client fails in the runner (proto.Marshal)
	Unencodable int `json:"unencodable_request"`
	// EarlyStopUs >= 0: another task calls stop() that long after the start,
	// while senders may still be in the middle of their writes
	EarlyStopUs int `json:"stop_called_after_us"`
	SlowNode int          `json:"slow_node_permille"`
}

type c10Send struct {
	Req       int
	Name      string
	Err       error
	Returned  bool
	Callbacks int
	Resp      *conformancev1.ClientCompatResponse
	CbErr     error
	CbName    string
	StartStep int
	AfterDone bool // the call started after waitForResponses had returned
}

func c10Gen(tape *simrt.Tape, tier string) *c10Case {
	maxReq, maxSenders := 4, 2
	if tier == "thorough" {
		maxReq, maxSenders = 6, 3
	}
	c := &c10Case{}
	n := tape.Range(1, maxReq, "nreq")
	for i := 0; i < n; i++ {
		c.Names = append(c.Names, fmt.Sprintf("Suite/%d/case", i))
	}
	if n >= 2 && tape.Bool(1, 8, "dupname") {
		// one duplicated test name
		c.Names[n-1] = c.Names[tape.Choose(n-1, "dupof")]
	}
	ns := tape.Range(1, maxSenders, "nsenders")
	c.Senders = make([][]int, ns)
	for i := 0; i < n; i++ {
		s := tape.Choose(ns, "sender")
		c.Senders[s] = append(c.Senders[s], i)
	}
	sc := clientScript{ExitAfterRead: -1, StopReadingAt: -1}
	for i := 0; i < n; i++ {
		var p answerPlan
		switch tape.Choose(8, "latency") {
		case 0, 1, 2:
			p.DelayMs = 0
		case 3, 4:
			p.DelayMs = 1 + tape.Choose(50, "ms")
		case 5:
			p.DelayMs = 1000 + tape.Choose(4000, "ms")
		case 6:
			p.DelayMs = 19990 + tape.Choose(20, "ms") // around the 20 s response timeout
		case 7:
			p.DelayMs = 0
		}
		p.AsError = tape.Bool(1, 5, "aserror")
		sc.Answers = append(sc.Answers, p)
	}
	// (the last value: a peer behind the in-process seam that ignores the
	// cancellation of its context for minutes; the runner gives up waiting for
	// it after gracefulShutdownPeriod)
	sc.AbortDelayMs = []int{0, 0, 1, 100, 2999, 3000, 4999, 5001, 9000, 600000}[tape.Choose(10, "abortdelay")]
	// about one run in four is fault free
	if tape.Bool(3, 4, "faulty") {
		switch tape.Choose(12, "faultkind") {
		case 0, 1:
			sc.Fault = cfCut
			// anywhere in roughly the first answers; an answer is ~30 bytes
			sc.CutAt = tape.Choose(40*n+8, "cutat")
		case 2:
			sc.Fault = cfDuplicate
			sc.FaultAfter = 1 + tape.Choose(n, "after")
		case 3:
			sc.Fault = cfUnknown
			sc.FaultAfter = 1 + tape.Choose(n, "after")
		case 4:
			sc.Fault = cfOversize
			sc.FaultAfter = 1 + tape.Choose(n, "after")
			sc.CutAt = tape.Choose(3, "oversizeby") * 1000003
		case 5:
			sc.Fault = cfGarbage
			sc.FaultAfter = 1 + tape.Choose(n, "after")
		case 6:
			sc.Fault = cfPremature
			sc.PrematureName = c.Names[tape.Choose(n, "premature")]
			sc.FaultAfter = tape.Choose(n, "prematureat")
			sc.PrematureBytes = tape.Choose(5, "prematurebytes")
			sc.PrematureExit = tape.Bool(1, 2, "prematureexit")
		case 7:
			sc.ExitAfterRead = tape.Choose(n+1, "exitafter")
			sc.ExitNonZero = tape.Bool(1, 2, "nonzero")
		case 8:
			sc.StopReadingAt = tape.Choose(n+1, "stopreading")
		case 9:
			sc.Answers[tape.Choose(n, "never")].Never = true
			if tape.Bool(1, 2, "ignoreeof") {
				sc.IgnoreEOF = true
			}
		case 10:
			sc.Fault = cfEmptyName
			sc.FaultAfter = 1 + tape.Choose(n, "after")
		case 11:
			sc.Fault = cfCloseStdout
			sc.FaultAfter = 1 + tape.Choose(n, "after")
		}
		if sc.Fault == cfOversize || sc.Fault == cfGarbage || sc.Fault == cfUnknown || sc.Fault == cfEmptyName {
			sc.SilentAfterFault = tape.Bool(1, 2, "silent-after-fault")
			if sc.SilentAfterFault && tape.Bool(1, 2, "silent-ignores-eof") {
				sc.IgnoreEOF = true // ... and does not leave when its stdin is closed either
			}
		}
		if sc.Fault == cfNone && tape.Bool(1, 3, "nonzero-at-end") {
			sc.ExitNonZero = true
		}
	}
	if tape.Bool(1, 5, "inprocess") {
		// a peer behind the in-process seam: not killable, bounded parallelism
		sc.InProcess = 1 + tape.Choose(3, "parallelism")
		if sc.Fault == cfCut || sc.Fault == cfPremature || sc.Fault == cfCloseStdout {
			sc.Fault = cfNone
		}
		sc.StopReadingAt, sc.IgnoreEOF = -1, false
		if sc.ExitAfterRead >= 0 && !tape.Bool(1, 2, "inprocess-exit-early") {
			sc.ExitAfterRead = -1
		}
	}
	if sc.AbortDelayMs > 9000 && (sc.StopReadingAt >= 0 || sc.Fault == cfCloseStdout || sc.Fault == cfPremature) {
		// A peer that stops reading its stdin blocks a sender until it is gone:
		// with a peer that ignores its cancellation for minutes that is the
		// peer's doing (a real process is killed after the grace period).
		sc.AbortDelayMs = 9000
	}
	c.Script = sc
	c.Fault = cfNames[sc.Fault]
	c.LateSend = tape.Bool(1, 2, "latesend")
	c.EarlyStopUs = -1
	if tape.Bool(1, 8, "earlystop") {
		c.EarlyStopUs = []int{0, 1, 100, 1000, 50000, 2000000}[tape.Choose(6, "earlystop.at")]
	}
	c.Unencodable = -1
	if tape.Bool(1, 12, "unencodable") {
		c.Unencodable = tape.Choose(n, "unencodable.req")
	}
	if tape.Bool(1, 6, "slownode") {
		c.SlowNode = 1 + tape.Choose(30, "slowpermille")
	}
	return c
}

func c10Run(t *testing.T, tape *simrt.Tape, o simwork.Opts) *simwork.Result {
	res := &simwork.Result{Faults: map[string]int{}, Probes: map[string]int{}}
	p := simwork.Bubble(t, func(t *testing.T) { c10Body(tape, o, res) })
	if p != nil {
		res.Violations = append(res.Violations, simwork.Violation{Class: "panic-outside-task", Detail: fmt.Sprint(p)})
	}
	return res
}

func c10Body(tape *simrt.Tape, o simwork.Opts, res *simwork.Result) {
	cs := c10Gen(tape, o.Tier)
	res.Sample = cs
	sim := simrt.New(tape)
	defer sim.Detach()
	sim.KeepLog = o.KeepLog
	sim.SlowNodePermille = cs.SlowNode
	client := newSimClient(sim, cs.Script)

	var (
		sends        []*c10Send
		runner       clientRunner
		startErr     error
		sendsDone    time.Duration
		waitReturned bool
		waitErr      error
		waitAt       time.Duration
		mainDone     bool
		stopReturned bool
		runningAtEnd bool
		checkedRun   bool
		clientGoneAt time.Duration
	)
	viol := func(class, format string, args ...any) {
		res.Violations = append(res.Violations, simwork.Violation{Class: class, Detail: fmt.Sprintf(format, args...)})
	}
	runningAtFailure := ""
	doSend := func(reqIdx int, name string, late bool) {
		s := &c10Send{Req: reqIdx, Name: name, StartStep: sim.Steps(), AfterDone: late}
		sends = append(sends, s)
		req := &conformancev1.ClientCompatRequest{TestName: name}
		if reqIdx >= 0 && reqIdx == cs.Unencodable {
			req.Host = "not utf-8: \xff\xfe"
			res.Faults["runner:unencodable-request"]++
		}
		s.Err = runner.sendRequest(req, func(n string, resp *conformancev1.ClientCompatResponse, err error) {
			s.Callbacks++
			s.Resp, s.CbErr, s.CbName = resp, err, n
			// The caller learns of a fatal failure of the client's output
			// (anything but a clean end) through this callback: from then on
			// the runner must say that the client is no longer running, whether
			// or not the process has actually gone yet.
			if err != nil && !errors.Is(err, errNoOutcome) && runner.isRunning() && runningAtFailure == "" {
				runningAtFailure = fmt.Sprintf("callback for %q carried the fatal error %q at %s, and isRunning() was still true", n, err, sim.Elapsed())
			}
			sim.MixLog("cb:" + n)
		})
		s.Returned = true
	}
	sim.Goal = func() bool { return mainDone }
	simrt.Go("c10.main", func() {
		ctx, cancel := context.WithCancel(context.Background())
		defer cancel()
		runner, startErr = runClient(ctx, runInProcess([]string{"scripted-client"}, client.impl))
		if startErr != nil {
			mainDone = true
			return
		}
		if cs.EarlyStopUs >= 0 {
			res.Faults["runner:stop-called-while-sending"]++
			simrt.Go("c10.stopper", func() {
				if cs.EarlyStopUs > 0 {
					simrt.Sleep(time.Duration(cs.EarlyStopUs)*time.Microsecond, "c10.stopper.wait")
				}
				runner.stop()
				stopReturned = true
			})
		}
		done := make(chan int, len(cs.Senders))
		for si := range cs.Senders {
			reqs := cs.Senders[si]
			simrt.Go("c10.sender", func() {
				for _, ri := range reqs {
					doSend(ri, cs.Names[ri], false)
				}
				simrt.Send(done, si, "c10.sender.done")
			})
		}
		for range cs.Senders {
			simrt.Recv(done, "c10.main.join")
		}
		sendsDone = sim.Elapsed()
		runner.closeSend()
		waitErr = runner.waitForResponses()
		waitReturned = true
		waitAt = sim.Elapsed()
		if cs.LateSend {
			doSend(-1, "Late/send", true)
		}
		// Let everything settle, then look at the liveness flag the way run()
		// does before starting another server.
		simrt.Sleep(40*time.Second, "c10.main.settle")
		if client.exited {
			clientGoneAt = client.exitedAt
			runningAtEnd = runner.isRunning()
			checkedRun = true
		}
		runner.stop()
		mainDone = true
	})
	end := sim.Run()

	// ---- evidence bookkeeping
	res.Steps, res.Switches, res.Preempts = sim.Steps(), sim.Switches(), sim.Preempts()
	res.SimTime = sim.Elapsed()
	res.LogHash = sim.LogHash()
	res.End = end.String()
	res.Invalid = append(res.Invalid, sim.Invalid()...)
	res.Log = sim.Log()
	for k, v := range client.faultFired {
		res.Faults[k] += v
	}
	if sim.DelayedRunnable > 0 {
		res.Faults["slow-node-delay"] += sim.DelayedRunnable
	}
	res.Nontrivial = len(client.faultFired) > 0 || sim.Preempts() > 0
	if end == simrt.EndBudget {
		viol("c10/liveness/step-budget", "run did not finish within %d steps; tasks: %s", sim.MaxSteps, strings.Join(sim.EndSites(), "; "))
	}
	for _, p := range sim.Panics() {
		viol("c10/panic", "%s", p)
	}
	if startErr != nil {
		res.Invalid = append(res.Invalid, "runClient failed: "+startErr.Error())
		return
	}

	// ---- liveness: waitForResponses returns, nothing deadlocks
	if !waitReturned || end == simrt.EndIdle {
		viol("c10/liveness/hang", "waitForResponses returned=%v end=%s after %s simulated; tasks: %s", waitReturned, end, sim.Elapsed(), strings.Join(sim.EndSites(), "; "))
		return
	}
	var maxDelay time.Duration
	for _, a := range cs.Script.Answers {
		if d := time.Duration(a.DelayMs) * time.Millisecond; d > maxDelay {
			maxDelay = d
		}
	}
	// Bound assembled from the package's own constants: the reader gives up
	// clientResponseTimeout after the last byte, waitForResponses prods after
	// 3 s and result() waits gracefulShutdownPeriod; closing may in addition
	// wait for a blocked sender, which the abort (plus the scripted kill delay)
	// releases.
	// All senders have returned when the measured interval starts, so nothing
	// in it waits for the death of the process longer than result() does.
	bound := maxDelay + 2*clientResponseTimeout + 3*time.Second + 2*gracefulShutdownPeriod +
		min(time.Duration(cs.Script.AbortDelayMs)*time.Millisecond, 2*gracefulShutdownPeriod) + time.Second
	if cs.SlowNode > 0 {
		bound += time.Duration(sim.DelayedRunnable) * 5 * time.Second
	}
	if waitAt-sendsDone > bound {
		viol("c10/liveness/bound", "waitForResponses returned %s after the last send, bound %s", waitAt-sendsDone, bound)
	}

	if cs.EarlyStopUs >= 0 && !stopReturned {
		viol("c10/liveness/stop-hangs", "stop() was called %d us after the start and had not returned when the run ended; tasks: %s", cs.EarlyStopUs, strings.Join(sim.EndSites(), "; "))
	}
	// ---- exactly once
	for _, s := range sends {
		switch {
		case !s.Returned:
			viol("c10/send-never-returned", "sendRequest(%q) never returned", s.Name)
		case s.Err == nil && s.Callbacks != 1:
			viol("c10/exactly-once", "sendRequest(%q) returned nil but its callback fired %d times (fault=%s)", s.Name, s.Callbacks, cs.Fault)
		case s.Err != nil && s.Callbacks != 0:
			viol("c10/callback-after-refusal", "sendRequest(%q) returned %v but its callback fired %d times", s.Name, s.Err, s.Callbacks)
		}
		if s.Callbacks > 0 && s.CbName != s.Name {
			viol("c10/wrong-name", "callback of %q was invoked with name %q", s.Name, s.CbName)
		}
		if s.Callbacks == 1 && (s.Resp == nil) == (s.CbErr == nil) {
			viol("c10/callback-shape", "callback of %q got resp=%v err=%v", s.Name, s.Resp != nil, s.CbErr)
		}
	}

	// ---- attribution
	used := map[int]bool{}
	byName := map[string][]writtenAnswer{}
	for _, w := range client.written {
		byName[w.Name] = append(byName[w.Name], w)
	}
	for _, s := range sends {
		if s.Callbacks != 1 || s.Resp == nil {
			continue
		}
		if s.Resp.TestName != s.Name {
			viol("c10/attribution", "callback of %q carries a response for %q", s.Name, s.Resp.TestName)
			continue
		}
		serial := answerSerial(s.Resp)
		found := false
		for _, w := range byName[s.Name] {
			if w.Serial == serial {
				found = true
			}
		}
		if !found {
			viol("c10/attribution", "callback of %q carries serial %d, which the client never wrote for that name (wrote %v)", s.Name, serial, byName[s.Name])
		}
		if used[serial] {
			viol("c10/attribution", "answer serial %d delivered twice", serial)
		}
		used[serial] = true
	}
	// must-deliver direction: a complete answer, written before any stream
	// fault for a request that the client had read (hence registered), reaches
	// a callback.
	margin := time.Duration(sim.DelayedRunnable) * 5 * time.Second
	timedOut := false
	mustDeliver := map[int]bool{}
	for _, w := range client.written {
		if w.Gap >= clientResponseTimeout-margin {
			timedOut = true
		}
		if w.BeforeFault && !w.Premature && !timedOut {
			mustDeliver[w.Serial] = true
		}
	}
	for name, ws := range byName {
		var accepted []*c10Send
		for _, s := range sends {
			if s.Name == name && s.Err == nil {
				accepted = append(accepted, s)
			}
		}
		clean := 0
		for _, w := range ws {
			if mustDeliver[w.Serial] {
				clean++
			}
		}
		withResp := 0
		for _, s := range accepted {
			if s.Callbacks == 1 && s.Resp != nil {
				withResp++
			}
		}
		if withResp < clean && len(accepted) >= clean {
			viol("c10/lost-answer", "client wrote %d complete answer(s) for %q before any fault, but only %d callback(s) carried a response", clean, name, withResp)
		}
	}

	// ---- after failure
	for _, s := range sends {
		if s.AfterDone && s.Returned && s.Err == nil {
			viol("c10/send-after-end-accepted", "sendRequest(%q) issued after waitForResponses returned was accepted", s.Name)
		}
	}
	if runningAtFailure != "" {
		viol("c10/isrunning-after-failure", "%s (fault=%s)", runningAtFailure, cs.Fault)
	}
	if checkedRun && runningAtEnd {
		viol("c10/isrunning-after-exit", "client process ended at %s (fault=%s, exit-early=%d) but isRunning() was still true at %s",
			clientGoneAt, cs.Fault, cs.Script.ExitAfterRead, sim.Elapsed())
	}
	clientFailed := client.faulted || client.faultFired["exit-early"] > 0 || client.killed
	if clientFailed && waitErr == nil && (cs.Script.Fault != cfNone || cs.Script.ExitNonZero) {
		// informational probe, not an oracle clause: which failures end with a nil error
		res.Probes["failure-but-wait-nil:"+cs.Fault]++
	}
	if waitErr != nil {
		res.Probes["wait-error"]++
	}
	for _, s := range sends {
		if s.Err != nil {
			res.Probes["send-refused"]++
		}
		if s.Callbacks == 1 && s.CbErr != nil {
			res.Probes["callback-with-error"]++
		}
	}
	res.Cover = append(res.Cover, fmt.Sprintf("fault=%s exit=%v stop=%v waiterr=%v", cs.Fault, cs.Script.ExitAfterRead >= 0, cs.Script.StopReadingAt >= 0, waitErr != nil))
}
