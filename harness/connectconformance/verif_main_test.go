//go:build verif

package connectconformance

import (
	"os"
	"testing"

	"connectrpc.com/conformance/internal/verifsim/simwork"
)

var verifScenarios = map[string]simwork.RunFunc{}

// TestVerif is the worker entry point used by /verif/vcheck.
func TestVerif(t *testing.T) {
	defer func() {
		if worldDir != "" {
			_ = os.RemoveAll(worldDir) // scratch config/suite files of the world scenarios
		}
	}()
	simwork.Main(t, verifScenarios)
}
