//go:build verif

package connectconformance

import (
	"context"
	"encoding/binary"
	"errors"
	"fmt"
	"io"
	"time"

	conformancev1 "connectrpc.com/conformance/internal/gen/proto/go/connectrpc/conformance/v1"
	"connectrpc.com/conformance/internal/verifsim/simrt"
	"google.golang.org/protobuf/proto"
)

// ---------------------------------------------------------------------------
// scripted client process (DESIGN.md sect. 3.5)

// Stream fault kinds of a scripted client's output.
const (
	cfNone      = iota
	cfCut       // process dies after writing CutAt bytes of output in total
	cfDuplicate // an already written answer is written a second time
	cfUnknown   // an answer for a name nobody asked for
	cfOversize  // a length prefix above the runner's limit
	cfGarbage   // a well-framed message that is not a valid protobuf
	cfPremature // an answer for a request the client has not read yet
	cfEmptyName // an answer without test name
	// the client closes its stdout cleanly (between two messages), stops
	// reading stdin and lingers until it is killed: output "truncated" exactly
	// at a message boundary by a process that does not go away on its own
	cfCloseStdout
	cfKinds
)

var cfNames = []string{"none", "cut-at-byte", "duplicate-answer", "unknown-name", "oversize-prefix", "garbage-message", "premature-answer", "empty-name", "close-stdout-and-linger"}

// answer kinds (what the scripted client reports for a request)
const (
	akPass        = iota // the expected response
	akAssertFail         // a response that differs from the expected one
	akClientError        // a ClientErrorResult
	akNeither            // neither response nor error
)

var akNames = []string{"pass", "assertion-failure", "client-error", "neither"}

type answerPlan struct {
	DelayMs  int  // simulated latency of this answer
	Never    bool // never answered
	AsError  bool // answer with a ClientErrorResult
	Kind     int  // ak* (used when the scenario supplies expected responses)
	Feedback bool // reference-client feedback attached to the response
}

type clientScript struct {
	Answers        []answerPlan // by arrival index; missing entries: immediate answer
	ExitAfterRead  int          // >=0: the process exits right after reading that many requests
	ExitNonZero    bool         // exit status when it exits (early or at EOF)
	StopReadingAt  int          // >=0: stops reading stdin after that many requests (and stalls)
	IgnoreEOF      bool         // does not exit when stdin is closed
	Fault          int          // cf*
	SilentAfterFault bool       // after the faulty output the client writes nothing more, but lives on
	FaultAfter     int          // message faults: injected after this many answers were written
	CutAt          int          // cfCut: absolute output byte offset
	PrematureName  string       // cfPremature: answered while request number FaultAfter is only partly read
	PrematureBytes int          // cfPremature: bytes (0..4) of that request's length prefix read before answering
	PrematureExit  bool         // cfPremature: the process exits right after that answer
	AbortDelayMs   int          // how long the process takes to die after its context is cancelled
	// InProcess > 0 models a peer run through the repository's in-process seam
	// (as the reference clients are): cancellation only cancels its context,
	// nothing closes its pipes until the function returns, it handles at most
	// InProcess requests at a time, waits for a free slot (or its context)
	// before reading on, and returns only after all workers have written their
	// results.
	// QueueAhead (with InProcess): the peer reads every request as soon as it
	// arrives and queues it; the requests are then worked off InProcess at a time
	QueueAhead bool
	InProcess  int
	SerialBase int
}

// writtenAnswer is a complete answer the scripted client got onto its stdout.
type writtenAnswer struct {
	Name        string
	Serial      int
	BeforeFault bool // written before the first stream fault
	Premature   bool
	At          time.Duration
	Gap         time.Duration // time since the previous output when the write began
}

type simClient struct {
	stdoutClosed bool // cfCloseStdout fired
	silenced     bool // SilentAfterFault: no further output after the faulty bytes
	sc   clientScript
	sim  *simrt.Sim
	name string

	// observations (written by the client's tasks, read by the oracle)
	plans          []answerPlan    // fate applied to each received request
	goneAtAnswer   map[string]bool // the addressed server had ended when the answer was produced
	aliveAtReceipt map[string]bool // the addressed server was up (not aborted, not exited) when the request arrived
	received       []*conformancev1.ClientCompatRequest
	receivedAt     []int // scheduler step
	written        []writtenAnswer
	faultFired     map[string]int
	faulted        bool // a stream fault has been injected
	started        bool
	exited         bool
	exitedAt       time.Duration
	exitErr        error
	killed         bool
	outBytes       int
	answersDone    int
	lastOutput     time.Duration
	serial         int

	// answerFn, if set, builds the answer for a name (scenario specific)
	answerFn func(name string, serial int) *conformancev1.ClientCompatResponse
	// planFn, if set, decides the fate of a request (instead of Answers by arrival index)
	planFn func(req *conformancev1.ClientCompatRequest) answerPlan
	// beforeAnswer, if set, runs in the responder task right before the answer is written
	beforeAnswer func(name string)
	// onReceive, if set, is called for every request read
	onReceive func(n int, req *conformancev1.ClientCompatRequest)

	in      io.ReadCloser
	out     io.WriteCloser
	wmu     simrt.ChanMutex
	dead    bool
	deadCh  chan struct{}
	pending int
	idle    chan struct{}
}

func newSimClient(sim *simrt.Sim, sc clientScript) *simClient {
	return &simClient{sc: sc, sim: sim, faultFired: map[string]int{}, wmu: simrt.NewChanMutex(), goneAtAnswer: map[string]bool{}, aliveAtReceipt: map[string]bool{},
		deadCh: make(chan struct{}), idle: make(chan struct{}, 1), serial: sc.SerialBase}
}

func (c *simClient) elapsed() time.Duration { return c.sim.Elapsed() }

// die ends the process abruptly: all three pipes close at once.
func (c *simClient) die() {
	if c.dead {
		return
	}
	c.dead = true
	close(c.deadCh)
	_ = c.out.Close()
	_ = c.in.Close()
}

// rawWrite writes b to stdout honouring the cut fault. It reports whether all
// of b reached the runner.
func (c *simClient) rawWrite(b []byte, site string) bool {
	if c.dead {
		return false
	}
	if c.silenced {
		return false // the client went silent after its faulty output (but stays alive)
	}
	if c.sc.Fault == cfCut && c.outBytes+len(b) > c.sc.CutAt {
		keep := c.sc.CutAt - c.outBytes
		if keep < 0 {
			keep = 0
		}
		if keep > 0 {
			n, _ := simrt.Write(c.out, b[:keep], site)
			c.outBytes += n
		}
		c.faulted = true
		c.faultFired[cfNames[cfCut]]++
		c.die()
		return false
	}
	n, err := simrt.Write(c.out, b, site)
	c.outBytes += n
	return err == nil && n == len(b)
}

func frame(payload []byte) []byte {
	b := make([]byte, 4+len(payload))
	binary.BigEndian.PutUint32(b, uint32(len(payload)))
	copy(b[4:], payload)
	return b
}

func (c *simClient) makeAnswer(name string, asError bool) (*conformancev1.ClientCompatResponse, int) {
	c.serial++
	resp := &conformancev1.ClientCompatResponse{TestName: name}
	if c.answerFn != nil {
		if r := c.answerFn(name, c.serial); r != nil {
			return r, c.serial
		}
	}
	if asError {
		resp.Result = &conformancev1.ClientCompatResponse_Error{Error: &conformancev1.ClientErrorResult{Message: fmt.Sprintf("scripted-error-%d", c.serial)}}
	} else {
		resp.Result = &conformancev1.ClientCompatResponse_Response{Response: &conformancev1.ClientResponseResult{
			Feedback: []string{fmt.Sprintf("serial-%d", c.serial)},
		}}
	}
	return resp, c.serial
}

func answerSerial(resp *conformancev1.ClientCompatResponse) int {
	var s int
	if e := resp.GetError(); e != nil {
		_, _ = fmt.Sscanf(e.Message, "scripted-error-%d", &s)
	} else if r := resp.GetResponse(); r != nil && len(r.Feedback) > 0 {
		_, _ = fmt.Sscanf(r.Feedback[0], "serial-%d", &s)
	}
	return s
}

// writeAnswer writes one complete answer (under the write lock) and then any
// message-level fault that is due.
func (c *simClient) writeAnswer(name string, asError, premature bool) {
	c.wmu.Lock("simclient.wlock")
	defer c.wmu.Unlock()
	if c.dead {
		return
	}
	resp, serial := c.makeAnswer(name, asError)
	data, _ := proto.Marshal(resp)
	// The runner's reader gives up clientResponseTimeout after it started to
	// wait, which is not before the previous answer was written. An answer
	// that comes later than that may legitimately be lost (the timeout is the
	// failure); at exactly the boundary either outcome is legal.
	// (The oracle evaluates the gaps, because a slow-node delay may still be
	// injected while this write is in flight.)
	gap := c.elapsed() - c.lastOutput
	ok := c.rawWrite(frame(data), "simclient.write")
	c.lastOutput = c.elapsed()
	if ok {
		c.written = append(c.written, writtenAnswer{Name: name, Serial: serial, BeforeFault: !c.faulted, Premature: premature, At: c.elapsed(), Gap: gap})
		c.sim.MixLog("ans:" + name)
	}
	if !premature {
		c.answersDone++
		c.injectMessageFault()
	}
}

func (c *simClient) injectMessageFault() {
	if c.dead || c.faulted || c.answersDone != c.sc.FaultAfter {
		return
	}
	var b []byte
	switch c.sc.Fault {
	case cfDuplicate:
		if len(c.written) == 0 {
			return
		}
		last := c.written[len(c.written)-1]
		resp, serial := c.makeAnswer(last.Name, false)
		data, _ := proto.Marshal(resp)
		b = frame(data)
		// if the same name happens to be registered again the duplicate is a
		// legitimate answer to that registration
		defer func() {
			c.written = append(c.written, writtenAnswer{Name: last.Name, Serial: serial, BeforeFault: false, At: c.elapsed()})
		}()
	case cfUnknown:
		data, _ := proto.Marshal(&conformancev1.ClientCompatResponse{TestName: "nobody/asked/for/this"})
		b = frame(data)
	case cfEmptyName:
		data, _ := proto.Marshal(&conformancev1.ClientCompatResponse{})
		b = frame(data)
	case cfOversize:
		b = make([]byte, 4)
		binary.BigEndian.PutUint32(b, uint32(maxClientResponseSize+1+c.sc.CutAt))
	case cfGarbage:
		b = frame([]byte{0xff, 0xff, 0xff, 0xff, 0x07, 0x01})
	case cfCloseStdout:
		c.faulted = true
		c.stdoutClosed = true
		c.faultFired[cfNames[cfCloseStdout]]++
		c.sim.MixLog("fault:" + cfNames[cfCloseStdout])
		_ = c.out.Close()
		return
	default:
		return
	}
	c.faulted = true
	c.faultFired[cfNames[c.sc.Fault]]++
	c.sim.MixLog("fault:" + cfNames[c.sc.Fault])
	c.rawWrite(b, "simclient.fault")
	if c.sc.SilentAfterFault {
		// nothing follows the faulty bytes: the process neither writes nor exits
		c.silenced = true
		c.faultFired["silent-after-fault"]++
	}
}

func (c *simClient) planFor(i int) answerPlan {
	if i < len(c.sc.Answers) {
		return c.sc.Answers[i]
	}
	return answerPlan{}
}

// impl is the process body handed to runInProcess.
func (c *simClient) impl(ctx context.Context, args []string, in io.ReadCloser, out, errw io.WriteCloser) error {
	if c.sc.InProcess > 0 {
		return c.implInProcess(ctx, in, out)
	}
	return c.implProcess(ctx, args, in, out, errw)
}

// implInProcess behaves like referenceclient.run: see clientScript.InProcess.
func (c *simClient) implInProcess(ctx context.Context, in io.ReadCloser, out io.WriteCloser) error {
	c.in, c.out = in, out
	c.started = true
	c.faultFired["in-process-peer"]++
	defer func() {
		c.exited = true
		c.exitedAt = c.elapsed()
	}()
	slots := make(chan struct{}, c.sc.InProcess)
	workers := 0
	allDone := make(chan struct{}, 1)
	wait := func() {
		for workers > 0 {
			simrt.Recv(allDone, "simclient.inproc.wait")
		}
	}
	for {
		if c.sc.ExitAfterRead >= 0 && len(c.received) >= c.sc.ExitAfterRead {
			// the function returns early (cleanly or with an error) WITHOUT
			// touching its pipes: closing them is the in-process seam's job
			c.faultFired["in-process-exit-early"]++
			wait()
			if c.sc.ExitNonZero {
				return errors.New("scripted in-process client: giving up")
			}
			return nil
		}
		var hdr [4]byte
		if _, err := simrt.ReadFull(in, hdr[:], "simclient.read"); err != nil {
			wait()
			return nil
		}
		buf := make([]byte, binary.BigEndian.Uint32(hdr[:]))
		if _, err := simrt.ReadFull(in, buf, "simclient.read"); err != nil {
			wait()
			return err
		}
		req := &conformancev1.ClientCompatRequest{}
		if err := proto.Unmarshal(buf, req); err != nil {
			wait()
			return err
		}
		idx := len(c.received)
		c.received = append(c.received, req)
		c.receivedAt = append(c.receivedAt, c.sim.Steps())
		c.sim.MixLog("req:" + req.TestName)
		if c.onReceive != nil {
			c.onReceive(len(c.received), req)
		}
		plan := c.planFor(idx)
		if c.planFn != nil {
			plan = c.planFn(req)
		}
		c.plans = append(c.plans, plan)
		if c.sc.QueueAhead {
			// queue the request: a worker takes it when a slot is free
			workers++
			name := req.TestName
			simrt.Go("simclient.inproc.queued-worker", func() {
				defer func() {
					workers--
					select {
					case allDone <- struct{}{}:
					default:
					}
				}()
				simrt.Yield("simclient.inproc.qslot")
				got := false
				select {
				case slots <- struct{}{}:
					got = true
				default:
				}
				if !got {
					select {
					case slots <- struct{}{}:
						simrt.AfterBlock("simclient.inproc.qslot")
						got = true
					case <-ctx.Done():
						simrt.AfterBlock("simclient.inproc.qslot")
					}
				}
				if got {
					defer func() { <-slots }()
				}
				if got && (plan.DelayMs > 0 || plan.Never) {
					d := time.Duration(plan.DelayMs) * time.Millisecond
					if plan.Never {
						d = 24 * time.Hour
						c.faultFired["rpc-hangs-until-cancelled"]++
					}
					simrt.SleepCtx(ctx, d, "simclient.inproc.rpc")
				}
				if c.beforeAnswer != nil {
					c.beforeAnswer(name)
				}
				c.writeAnswer(name, plan.AsError || ctx.Err() != nil, false)
			})
			continue
		}
		// wait for a free worker slot or cancellation
		simrt.Yield("simclient.inproc.slot")
		// (never enter a select with two ready cases: the runtime would toss its own coin)
		got := false
		if ctx.Err() == nil {
			select {
			case slots <- struct{}{}:
				got = true
			default:
			}
		}
		if !got && ctx.Err() == nil {
			select {
			case slots <- struct{}{}:
				simrt.AfterBlock("simclient.inproc.slot")
				got = true
			case <-ctx.Done():
				simrt.AfterBlock("simclient.inproc.slot")
			}
		}
		if !got {
			c.faultFired["in-process-cancelled-while-waiting-for-slot"]++
			wait()
			return ctx.Err()
		}
		workers++
		name := req.TestName
		simrt.Go("simclient.inproc.worker", func() {
			defer func() {
				<-slots
				workers--
				select {
				case allDone <- struct{}{}:
				default:
				}
			}()
			if plan.DelayMs > 0 || plan.Never {
				d := time.Duration(plan.DelayMs) * time.Millisecond
				if plan.Never {
					d = 24 * time.Hour // an RPC that hangs until it is cancelled
					c.faultFired["rpc-hangs-until-cancelled"]++
				}
				simrt.SleepCtx(ctx, d, "simclient.inproc.rpc")
			}
			if c.beforeAnswer != nil {
				c.beforeAnswer(name)
			}
			c.writeAnswer(name, plan.AsError || ctx.Err() != nil, false)
		})
	}
}

func (c *simClient) implProcess(ctx context.Context, _ []string, in io.ReadCloser, out, _ io.WriteCloser) error {
	c.in, c.out = in, out
	c.started = true
	defer func() {
		c.exited = true
		c.exitedAt = c.elapsed()
		c.dead = true
	}()
	// SIGTERM: the process dies AbortDelayMs after its context is cancelled.
	simrt.Go("simclient.watch", func() {
		simrt.Yield("simclient.watch.wait")
		select {
		case <-ctx.Done():
			simrt.AfterBlock("simclient.watch.wait")
		case <-c.deadCh:
			simrt.AfterBlock("simclient.watch.wait")
			return
		}
		if c.sc.AbortDelayMs > 0 {
			simrt.Sleep(time.Duration(c.sc.AbortDelayMs)*time.Millisecond, "simclient.watch.delay")
		}
		if !c.dead {
			c.killed = true
			c.faultFired["killed-by-abort"]++
			c.die()
		}
	})
	status := func() error {
		if c.sc.ExitNonZero {
			return errors.New("scripted client: exit status 1")
		}
		return nil
	}
	for {
		if c.dead {
			return c.deathStatus(status)
		}
		if c.sc.ExitAfterRead >= 0 && len(c.received) >= c.sc.ExitAfterRead {
			c.faultFired["exit-early"]++
			if c.sc.ExitNonZero {
				c.faultFired["exit-early-nonzero"]++
			}
			c.die()
			return status()
		}
		if c.stdoutClosed {
			simrt.Recv(c.deadCh, "simclient.linger")
			return c.deathStatus(status)
		}
		if c.sc.StopReadingAt >= 0 && len(c.received) >= c.sc.StopReadingAt {
			c.faultFired["stop-reading-stdin"]++
			simrt.Recv(c.deadCh, "simclient.stall")
			return c.deathStatus(status)
		}
		var hdr [4]byte
		got := 0
		if c.sc.Fault == cfPremature && !c.faulted && len(c.received) == c.sc.FaultAfter {
			// an over-eager client: answers a test before it has read the
			// request (the sender may be blocked in the middle of writing it)
			if c.sc.PrematureBytes > 0 {
				n, err := simrt.ReadFull(in, hdr[:c.sc.PrematureBytes], "simclient.read")
				got = n
				if err != nil {
					break
				}
			}
			c.faulted = true
			c.faultFired[cfNames[cfPremature]]++
			c.writeAnswer(c.sc.PrematureName, false, true)
			if c.sc.PrematureExit {
				c.faultFired["exit-after-premature-answer"]++
				c.die()
				return status()
			}
		}
		if _, err := simrt.ReadFull(in, hdr[got:], "simclient.read"); err != nil {
			break
		}
		buf := make([]byte, binary.BigEndian.Uint32(hdr[:]))
		if _, err := simrt.ReadFull(in, buf, "simclient.read"); err != nil {
			break
		}
		if c.dead {
			// the process died while this request was in flight: a dead process handles nothing
			return c.deathStatus(status)
		}
		req := &conformancev1.ClientCompatRequest{}
		if err := proto.Unmarshal(buf, req); err != nil {
			c.die()
			return fmt.Errorf("scripted client: bad request: %w", err)
		}
		idx := len(c.received)
		c.received = append(c.received, req)
		c.receivedAt = append(c.receivedAt, c.sim.Steps())
		c.sim.MixLog("req:" + req.TestName)
		if c.onReceive != nil {
			c.onReceive(len(c.received), req)
		}
		plan := c.planFor(idx)
		if c.planFn != nil {
			plan = c.planFn(req)
		}
		c.plans = append(c.plans, plan)
		if plan.Never {
			c.faultFired["never-answered"]++
			continue
		}
		c.pending++
		name := req.TestName
		simrt.Go("simclient.respond", func() {
			defer func() {
				c.pending--
				if c.pending == 0 {
					select {
					case c.idle <- struct{}{}:
					default:
					}
				}
			}()
			if plan.DelayMs > 0 {
				simrt.Yield("simclient.respond.delay")
				tm := time.NewTimer(time.Duration(plan.DelayMs) * time.Millisecond)
				select {
				case <-tm.C:
					simrt.AfterBlock("simclient.respond.delay")
				case <-c.deadCh:
					simrt.AfterBlock("simclient.respond.delay")
					tm.Stop()
					return
				}
			}
			if c.beforeAnswer != nil && !c.dead {
				c.beforeAnswer(name)
			}
			c.writeAnswer(name, plan.AsError, false)
		})
	}
	// stdin ended (closed by the runner) or the process was killed
	if c.dead {
		return c.deathStatus(status)
	}
	if c.sc.IgnoreEOF {
		c.faultFired["ignore-stdin-eof"]++
		simrt.Recv(c.deadCh, "simclient.ignore-eof")
		return c.deathStatus(status)
	}
	for c.pending > 0 && !c.dead {
		simrt.Yield("simclient.drain")
		select {
		case <-c.idle:
			simrt.AfterBlock("simclient.drain")
		case <-c.deadCh:
			simrt.AfterBlock("simclient.drain")
		}
	}
	c.die()
	return status()
}

func (c *simClient) deathStatus(status func() error) error {
	if c.killed {
		return errors.New("scripted client: terminated by signal")
	}
	return status()
}

// ---------------------------------------------------------------------------

type nullPrinter struct{}

func (nullPrinter) Printf(string, ...any)               {}
func (nullPrinter) PrefixPrintf(string, string, ...any) {}

// recPrinter records lines; it has no lock of its own because under the
// controlled scheduler only one task runs at a time.
type recPrinter struct {
	lines []string
}

func (p *recPrinter) Printf(msg string, args ...any) {
	p.lines = append(p.lines, fmt.Sprintf(msg, args...))
}

func (p *recPrinter) PrefixPrintf(prefix, msg string, args ...any) {
	p.lines = append(p.lines, prefix+": "+fmt.Sprintf(msg, args...))
}
