//go:build verif

package referenceserver

import (
	"testing"

	"connectrpc.com/conformance/internal/verifsim/simwork"
)

var verifScenarios = map[string]simwork.RunFunc{}

// TestVerif is the worker entry point used by /verif/vcheck.
func TestVerif(t *testing.T) {
	simwork.Main(t, verifScenarios)
}
