//go:build verif

package referenceserver

// c17-request: the real reference client (referenceclient.RunInReferenceMode,
// in-process) gets one ClientCompatRequest with a generated raw_request and
// talks to a scripted plain HTTP server (net/http, HTTP/1.1 or h2c) on the
// simulated network, which records exactly what arrived.

import (
	"bytes"
	"context"
	"encoding/base64"
	"encoding/json"
	"fmt"
	"io"
	"net"
	"net/http"
	"net/url"
	"sort"
	"strconv"
	"strings"
	"sync"
	"testing"
	"time"

	"connectrpc.com/conformance/internal"
	"connectrpc.com/conformance/internal/app/referenceclient"
	conformancev1 "connectrpc.com/conformance/internal/gen/proto/go/connectrpc/conformance/v1"
	"connectrpc.com/conformance/internal/verifsim/simnet"
	"connectrpc.com/conformance/internal/verifsim/simrt"
	"connectrpc.com/conformance/internal/verifsim/simwork"
	"golang.org/x/net/http2"
	"golang.org/x/net/http2/h2c"
	"google.golang.org/protobuf/proto"
	"google.golang.org/protobuf/types/known/anypb"
)

func init() { verifScenarios["c17-request"] = c17RequestRun }

var c17Verbs = []string{"POST", "GET", "PUT", "DELETE", "PATCH", "OPTIONS", "QUERY", "post"}

var c17Paths = []string{
	"/connectrpc.conformance.v1.ConformanceService/Unary",
	"/some/other/path",
	"/connectrpc.conformance.v1.ConformanceService%2FUnary",
	"/connectrpc.conformance.v1.ConformanceService/Un%61ry",
	"/with%20space/x",
	"/",
	"/a%2Fb/%7Euser",
	"/trailing/",
	// not in normal form: the URI has to go out verbatim, so nothing of this
	// may be cleaned, resolved, collapsed or re-escaped on the way
	"/a/./b",
	"/a/../b",
	"/a/b/..",
	"/a/b/.",
	"/connectrpc.conformance.v1.ConformanceService/./Unary",
	"/x/../connectrpc.conformance.v1.ConformanceService/Unary",
	"//a",
	"/a//b",
	"/a/",
	"//connectrpc.conformance.v1.ConformanceService/Unary",
	"/connectrpc.conformance.v1.ConformanceService//Unary",
	"/connectrpc.conformance.v1.ConformanceService/Unary/",
	"/a%2fb",
	"/a%2Fb%2f",
	"/%41bc/%7e",
	"/connectrpc.conformance.v1.ConformanceService%2fUn%61ry",
	"/a%3Fb%25",
	"/.",
	"/..",
	"/a/..//./b/",
	"",
}

// c17GenEmptyURI enables the empty URI. The property says "sends the given
// ... path"; HTTP has no empty request target, a client must send "/" for an
// empty path (RFC 9112 sect. 3.2.1), so "/" (plus the query, if any) is what
// is expected - in particular not the path of the request that was replaced.
const c17GenEmptyURI = true

// c17URIShapes names the non-normal-form features of a path (for probes).
func c17URIShapes(path string) []string {
	var out []string
	if path == "" {
		return []string{"uri-empty"}
	}
	segs := strings.Split(path, "/")
	for _, seg := range segs {
		if seg == "." || seg == ".." {
			out = append(out, "uri-dot-segments")
			break
		}
	}
	if strings.Contains(path, "//") {
		out = append(out, "uri-double-slash")
	}
	if len(path) > 1 && strings.HasSuffix(path, "/") {
		out = append(out, "uri-trailing-slash")
	}
	if path == "/" {
		out = append(out, "uri-only-slash")
	}
	for i := 0; i+2 < len(path); i++ {
		if path[i] != '%' {
			continue
		}
		hex := path[i+1 : i+3]
		if hex != strings.ToUpper(hex) {
			out = append(out, "uri-lowercase-escape")
		}
		switch strings.ToUpper(hex) {
		case "41", "61", "7E":
			out = append(out, "uri-unreserved-escape")
		}
	}
	sort.Strings(out)
	var uniq []string
	for i, v := range out {
		if i == 0 || out[i-1] != v {
			uniq = append(uniq, v)
		}
	}
	return uniq
}

var c17InlineQueries = []string{"", "encoding=proto", "a=1&b=2", "a=1&a=2", "message=abc%2Fdef&connect=v1", "x=%41&encoding=json"}

var c17ReqHeaderPool = []string{"x-custom", "content-type", "Content-Type", "X-MiXed-Case", "connect-protocol-version", "grpc-encoding", "te",
	"user-agent", "accept-encoding", "x-test-case-name", "connect-timeout-ms", "grpc-timeout", "content-encoding", "authorization",
	"x-custom-bin", "content-length"}

var c17ParamNames = []string{"k", "encoding", "compression", "base64", "connect", "message", "a", "x y"}

var c17ParamValues = []string{"v1", "proto", "json", "1", "a b", "a&b=c", "x%2Fy", "+plus+", "", "gzip", "üä"}

var c17Methods = []string{"Unary", "ServerStream", "IdempotentUnary", "ClientStream"}

type c17EncParam struct {
	Name   string
	Msg    c17Msg
	Base64 bool
}

type c17ReqCase struct {
	H2        bool
	Protocol  int // 0 connect, 1 grpc, 2 grpc-web
	Method    int // index into c17Methods
	JSON      bool
	Verb      string
	Path      string
	Inline    string
	BareQuery bool // the URI ends in "?" with an empty query (only when Inline is empty)
	Headers   []c17Hdr
	RawParams []c17Hdr
	EncParams []c17EncParam
	Body      c17Body
	NetSeed   int
}

func (c *c17ReqCase) uri() string {
	if c.Inline != "" || c.BareQuery {
		return c.Path + "?" + c.Inline
	}
	return c.Path
}

// wantTarget is the request target expected on the wire when no query params
// are added: the URI verbatim ("/" standing for an empty path).
func (c *c17ReqCase) wantPath() string {
	if c.Path == "" {
		return "/"
	}
	return c.Path
}

func c17GenReqCase(g *c17Gen) *c17ReqCase {
	c := &c17ReqCase{}
	t := g.tape
	c.H2 = t.Choose(2, "http-version") == 1
	c.Protocol = t.Choose(3, "protocol")
	c.Method = t.Choose(len(c17Methods), "method")
	c.JSON = t.Bool(1, 4, "json")
	c.Verb = c17Verbs[t.Choose(len(c17Verbs), "verb")]
	c.Path = c17Paths[t.Choose(len(c17Paths), "path")]
	if c.Path == "" && !c17GenEmptyURI {
		c.Path = "/"
	}
	c.Inline = c17InlineQueries[t.Choose(len(c17InlineQueries), "inline-query")]
	if strings.Contains(c.Path, "%") {
		g.probes["path-with-percent-escape"]++
	}
	c.Body = g.body("body")
	if !c17GenReqExplicitIdentityNotLast {
		for i := range c.Body.Items {
			it := &c.Body.Items[i]
			m := &it.Payload
			if it.HasLength && i < len(c.Body.Items)-1 && !m.Absent && m.Kind != 3 && c17IsIdentity(m.Comp) {
				it.HasLength, it.Length = false, 0
			}
		}
	}
	exclude := map[string]bool{}
	n, deterministic := c.Body.deterministicLen()
	if !deterministic || n == 0 {
		exclude["Content-Length"] = true
	}
	c.Headers = g.headers("header", c17ReqHeaderPool, map[string]bool{"User-Agent": true, "Te": true, "Content-Length": true}, exclude)
	for i := range c.Headers {
		if http.CanonicalHeaderKey(c.Headers[i].Name) == "Content-Length" {
			c.Headers[i].Values = []string{strconv.Itoa(n)}
			g.probes["explicit-content-length"]++
			if t.Bool(1, 3, "content-length-leading-zero") {
				// still a decimal number (RFC 9110 8.6: 1*DIGIT)
				c.Headers[i].Values = []string{"0" + strconv.Itoa(n)}
				g.probes["explicit-content-length-leading-zero"]++
			}
		}
	}
	if t.Bool(1, 2, "has-raw-params") {
		np := 1 + t.Choose(3, "raw-params")
		for i := 0; i < np; i++ {
			l := fmt.Sprintf("rawparam%d", i)
			h := c17Hdr{Name: c17ParamNames[t.Choose(len(c17ParamNames), l+".name")]}
			nv := 1 + t.Choose(2, l+".values")
			for j := 0; j < nv; j++ {
				h.Values = append(h.Values, c17ParamValues[t.Choose(len(c17ParamValues), fmt.Sprintf("%s.v%d", l, j))])
			}
			c.RawParams = append(c.RawParams, h)
		}
	}
	if t.Bool(1, 2, "has-encoded-params") {
		np := 1 + t.Choose(2, "encoded-params")
		for i := 0; i < np; i++ {
			l := fmt.Sprintf("encparam%d", i)
			c.EncParams = append(c.EncParams, c17EncParam{
				Name:   c17ParamNames[t.Choose(len(c17ParamNames), l+".name")],
				Msg:    g.msg(l, 200),
				Base64: !t.Bool(1, 3, l+".not-base64"),
			})
		}
	}
	c.NetSeed = t.Choose(1<<20, "netseed")
	c.BareQuery = t.Bool(1, 3, "bare-question-mark") && c.Inline == ""
	return c
}

func (c *c17ReqCase) raw() *conformancev1.RawHTTPRequest {
	raw := &conformancev1.RawHTTPRequest{Verb: c.Verb, Uri: c.uri(), Headers: c17ProtoHeaders(c.Headers), RawQueryParams: c17ProtoHeaders(c.RawParams)}
	for i := range c.EncParams {
		p := &c.EncParams[i]
		raw.EncodedQueryParams = append(raw.EncodedQueryParams, &conformancev1.RawHTTPRequest_EncodedQueryParam{Name: p.Name, Value: p.Msg.proto(), Base64Encode: p.Base64})
	}
	switch c.Body.Kind {
	case 1:
		raw.Body = &conformancev1.RawHTTPRequest_Unary{Unary: c.Body.Unary.proto()}
	case 2:
		raw.Body = &conformancev1.RawHTTPRequest_Stream{Stream: c.Body.stream()}
	}
	return raw
}

func (c *c17ReqCase) sample() map[string]any {
	enc := []any{}
	for i := range c.EncParams {
		p := &c.EncParams[i]
		enc = append(enc, map[string]any{"name": p.Name, "base64": p.Base64, "value": p.Msg.describe()})
	}
	return map[string]any{
		"http": map[bool]string{false: "1.1", true: "2 (h2c)"}[c.H2], "protocol": []string{"connect", "grpc", "grpc-web"}[c.Protocol],
		"rpc": c17Methods[c.Method], "json": c.JSON, "verb": c.Verb, "uri": c.uri(), "headers": c17DescribeHeaders(c.Headers),
		"raw_query_params": c17DescribeHeaders(c.RawParams), "encoded_query_params": enc, "body": c.Body.describe(),
	}
}

// clientRequest is the ClientCompatRequest handed to the reference client.
func (c *c17ReqCase) clientRequest(port int) (*conformancev1.ClientCompatRequest, error) {
	var msg proto.Message
	streamType := conformancev1.StreamType_STREAM_TYPE_UNARY
	switch c.Method {
	case 0:
		msg = &conformancev1.UnaryRequest{ResponseDefinition: &conformancev1.UnaryResponseDefinition{
			Response: &conformancev1.UnaryResponseDefinition_ResponseData{ResponseData: []byte("ORIGINAL-REQUEST-DATA")}}}
	case 1:
		msg = &conformancev1.ServerStreamRequest{ResponseDefinition: &conformancev1.StreamResponseDefinition{ResponseData: [][]byte{[]byte("ORIGINAL-REQUEST-DATA")}}}
		streamType = conformancev1.StreamType_STREAM_TYPE_SERVER_STREAM
	case 2:
		msg = &conformancev1.IdempotentUnaryRequest{ResponseDefinition: &conformancev1.UnaryResponseDefinition{
			Response: &conformancev1.UnaryResponseDefinition_ResponseData{ResponseData: []byte("ORIGINAL-REQUEST-DATA")}}}
	default:
		msg = &conformancev1.ClientStreamRequest{RequestData: []byte("ORIGINAL-REQUEST-DATA")}
		streamType = conformancev1.StreamType_STREAM_TYPE_CLIENT_STREAM
	}
	anyMsg, err := anypb.New(msg)
	if err != nil {
		return nil, err
	}
	version := conformancev1.HTTPVersion_HTTP_VERSION_1
	if c.H2 {
		version = conformancev1.HTTPVersion_HTTP_VERSION_2
	}
	codec := conformancev1.Codec_CODEC_PROTO
	if c.JSON {
		codec = conformancev1.Codec_CODEC_JSON
	}
	return &conformancev1.ClientCompatRequest{
		TestName: "C17/raw-request", HttpVersion: version, Protocol: conformancev1.Protocol(c.Protocol + 1), Codec: codec,
		Compression: conformancev1.Compression_COMPRESSION_IDENTITY, Host: "127.0.0.1", Port: uint32(port),
		Service: proto.String("connectrpc.conformance.v1.ConformanceService"), Method: proto.String(c17Methods[c.Method]), StreamType: streamType,
		RequestHeaders:  []*conformancev1.Header{{Name: "x-original-request-header", Value: []string{"from-the-built-request"}}},
		RequestMessages: []*anypb.Any{anyMsg},
		RawRequest:      c.raw(),
	}, nil
}

type c17ReqObs struct {
	mu         sync.Mutex
	Count      int
	Method     string
	RequestURI string
	Proto      string
	Header     http.Header
	Body       []byte
	BodyErr    string
	Trailer    http.Header
	Length     int64
	TE         []string
	RunErr     string
	ClientErr  string
	Panic      string
}

// c17ScriptedReply writes a minimal valid response for the protocol.
func c17ScriptedReply(w http.ResponseWriter, c *c17ReqCase) {
	codec, empty := "proto", []byte{}
	if c.JSON {
		codec, empty = "json", []byte("{}")
	}
	streaming := c.Method == 1 || c.Method == 3
	hasMessage := c.Method != 1
	var body []byte
	switch c.Protocol {
	case 0:
		if !streaming {
			w.Header().Set("Content-Type", "application/"+codec)
			body = empty
		} else {
			w.Header().Set("Content-Type", "application/connect+"+codec)
			if hasMessage {
				body = append(body, c17Envelope(0, empty)...)
			}
			body = append(body, c17Envelope(2, []byte("{}"))...)
		}
	case 1:
		w.Header().Set("Content-Type", "application/grpc+"+codec)
		w.Header().Set("Trailer", "Grpc-Status, Grpc-Message")
		if hasMessage {
			body = c17Envelope(0, empty)
		}
	default:
		w.Header().Set("Content-Type", "application/grpc-web+"+codec)
		if hasMessage {
			body = append(body, c17Envelope(0, empty)...)
		}
		body = append(body, c17Envelope(0x80, []byte("grpc-status: 0\r\n"))...)
	}
	w.WriteHeader(http.StatusOK)
	_, _ = w.Write(body)
	if c.Protocol == 1 {
		w.Header().Set("Grpc-Status", "0")
		w.Header().Set("Grpc-Message", "")
	}
}

type c17TrackListener struct {
	net.Listener
	mu    sync.Mutex
	conns []net.Conn
}

func (l *c17TrackListener) Accept() (net.Conn, error) {
	conn, err := l.Listener.Accept()
	if err == nil {
		l.mu.Lock()
		l.conns = append(l.conns, conn)
		l.mu.Unlock()
	}
	return conn, err
}

func (l *c17TrackListener) closeAll() {
	l.mu.Lock()
	conns := l.conns
	l.conns = nil
	l.mu.Unlock()
	for _, conn := range conns {
		_ = conn.Close()
	}
}

type c17Sink struct{ bytes.Buffer }

func (*c17Sink) Close() error { return nil }

func c17RequestRun(t *testing.T, tape *simrt.Tape, o simwork.Opts) *simwork.Result {
	res := &simwork.Result{Faults: map[string]int{}, Probes: map[string]int{}, End: "done"}
	simrt.Bump()
	g := &c17Gen{tape: tape, thorough: o.Tier == "thorough", probes: res.Probes}
	c := c17GenReqCase(g)
	res.Sample = c.sample()
	obs := &c17ReqObs{}

	// The reference client encodes the body on a goroutine of its own: a
	// panic of the encoder there would end the whole process. The encoders
	// are therefore tried directly first; the client is only run when they
	// survive the definition.
	encoders := c17CheckEncoders(&c.Body)
	if encoders.Class != "" {
		c17AddViolation(res, encoders.Class, "%s", encoders.Detail)
	}
	if encoders.Class == "c17/panic" {
		js, _ := json.Marshal(res.Sample)
		res.LogHash = c17Hash("req", string(js), c.NetSeed)
		res.Nontrivial = true
		if o.KeepLog {
			res.Log = append(res.Log, "case: "+string(js), "the reference client was not started: it would crash the process")
		}
		return res
	}

	netMark := verifNetStart()
	p := simwork.Bubble(t, func(t *testing.T) {
		bubbleStart := time.Now()
		defer func() {
			// fake-clock time of the exchange (evidence only). With several Ps the
			// instant at which net/http's goroutines finish moves by microseconds,
			// so it is left out of the step records that the determinism self-test
			// and replays compare (KeepLog); verdict and LogHash never depend on it.
			if !o.KeepLog {
				res.SimTime = time.Since(bubbleStart)
			}
		}()
		defer simnet.CloseAll()                                  // runs last: no connection goroutine outlives the run
		simnet.Reset()
		c17ResetPools()
		simnet.Configure(simnet.Config{Seed: uint64(c.NetSeed), MaxSegment: 2048, SmallPermil: 250, MaxLatency: 500 * time.Microsecond})
		inner, err := simnet.Listen("tcp", "127.0.0.1:0")
		if err != nil {
			res.Invalid = append(res.Invalid, "listen: "+err.Error())
			return
		}
		lis := &c17TrackListener{Listener: inner}
		handler := http.Handler(http.HandlerFunc(func(w http.ResponseWriter, r *http.Request) {
			body, err := io.ReadAll(r.Body)
			obs.mu.Lock()
			obs.Count++
			if obs.Count == 1 {
				obs.Method, obs.RequestURI, obs.Proto, obs.Header = r.Method, r.RequestURI, r.Proto, r.Header.Clone()
				obs.Body, obs.Trailer, obs.Length, obs.TE = body, r.Trailer.Clone(), r.ContentLength, r.TransferEncoding
				if err != nil {
					obs.BodyErr = err.Error()
				}
			}
			obs.mu.Unlock()
			c17ScriptedReply(w, c)
		}))
		if c.H2 {
			handler = h2c.NewHandler(handler, &http2.Server{})
		}
		srv := &http.Server{Handler: handler, ReadHeaderTimeout: 5 * time.Second, ErrorLog: nopLogger()}
		go func() { _ = srv.Serve(lis) }()
		defer func() {
			_ = srv.Close()
			lis.closeAll()
		}()

		req, err := c.clientRequest(lis.Addr().(*net.TCPAddr).Port)
		if err != nil {
			res.Invalid = append(res.Invalid, "build client request: "+err.Error())
			return
		}
		var in bytes.Buffer
		if err := internal.NewCodec(false).NewEncoder(&in).Encode(req); err != nil {
			res.Invalid = append(res.Invalid, "encode client request: "+err.Error())
			return
		}
		out, errOut := &c17Sink{}, &c17Sink{}
		ctx, cancel := context.WithTimeout(context.Background(), 30*time.Second)
		defer cancel()
		func() {
			defer func() {
				if r := recover(); r != nil {
					obs.Panic = fmt.Sprint(r)
				}
			}()
			if err := referenceclient.RunInReferenceMode(ctx, []string{"referenceclient", "-p", "1"}, io.NopCloser(&in), out, errOut, nil); err != nil {
				obs.RunErr = err.Error()
			}
		}()
		result := &conformancev1.ClientCompatResponse{}
		if err := internal.NewCodec(false).NewDecoder(&out.Buffer).DecodeNext(result); err != nil {
			obs.ClientErr = "no result written: " + err.Error()
		} else if result.GetError() != nil {
			obs.ClientErr = result.GetError().GetMessage()
		}
	})
	verifNetFaults(res, netMark)
	if p != nil {
		c17AddViolation(res, "c17/panic", "panic: %v", p)
	}
	if len(res.Invalid) > 0 {
		return res
	}
	if obs.Panic != "" {
		c17AddViolation(res, "c17/panic", "reference client panicked: %s", obs.Panic)
	}
	c17JudgeRequest(c, obs, res)

	js, _ := json.Marshal(res.Sample)
	res.LogHash = c17Hash("req", string(js), c.NetSeed)
	res.Nontrivial = true
	res.Cover = append(res.Cover, fmt.Sprintf("req:h2=%v:proto=%d:method=%d:verb=%s:body=%d:params=%v/%v", c.H2, c.Protocol, c.Method, c.Verb, c.Body.Kind, len(c.RawParams) > 0, len(c.EncParams) > 0))
	if o.KeepLog {
		res.Log = append(res.Log, "case: "+string(js))
		res.Log = append(res.Log, fmt.Sprintf("observed: requests=%d %s %s %s content-length=%d transfer-encoding=%v body-err=%q run-err=%q client-err=%q",
			obs.Count, obs.Method, obs.RequestURI, obs.Proto, obs.Length, obs.TE, obs.BodyErr, obs.RunErr, obs.ClientErr))
		for _, k := range c17SortedKeys(obs.Header) {
			res.Log = append(res.Log, fmt.Sprintf("  header %s: %q", k, obs.Header[k]))
		}
		res.Log = append(res.Log, "  body: "+c17Short(obs.Body))
	}
	return res
}

// request headers the HTTP client library may add on its own
var c17ClientTransportHeaders = map[string]bool{"User-Agent": true, "Content-Length": true, "Transfer-Encoding": true,
	"Accept-Encoding": true, "Connection": true}

// c17MatchParam reports whether a received query value is the specified
// encoding of an encoded query param.
func c17MatchParam(p *c17EncParam, value string) bool {
	raw := []byte(value)
	if p.Base64 {
		var err error
		raw, err = base64.URLEncoding.DecodeString(value)
		if err != nil {
			raw, err = base64.RawURLEncoding.DecodeString(value)
			if err != nil {
				return false
			}
		}
	}
	return c17CheckMessage(&p.Msg, raw, "").Class == ""
}

func c17JudgeRequest(c *c17ReqCase, obs *c17ReqObs, res *simwork.Result) {
	if obs.Count == 0 {
		c17AddViolation(res, "c17/request-line", "no request reached the server (verb %q uri %q); client result: %q, run error: %q", c.Verb, c.uri(), obs.ClientErr, obs.RunErr)
		return
	}
	if obs.Count > 1 {
		c17AddViolation(res, "c17/request-line", "%d requests were sent for one raw request", obs.Count)
	}
	if obs.Method != c.Verb {
		c17AddViolation(res, "c17/request-line", "method %q, specified %q", obs.Method, c.Verb)
	}
	gotPath, gotQuery, hasQuery := strings.Cut(obs.RequestURI, "?")
	if gotPath != c.wantPath() {
		c17AddViolation(res, "c17/request-line", "path %q, specified %q (request target %q, uri %q): the uri has to be sent verbatim", gotPath, c.Path, obs.RequestURI, c.uri())
	} else {
		for _, shape := range c17URIShapes(c.Path) {
			res.Probes[shape]++
		}
	}
	if len(c.RawParams) == 0 && len(c.EncParams) == 0 {
		if gotQuery != c.Inline {
			c17AddViolation(res, "c17/query", "query %q, specified inline %q and no query params", gotQuery, c.Inline)
		} else if hasQuery != (c.Inline != "" || c.BareQuery) {
			c17AddViolation(res, "c17/request-line", "request target %q, uri %q: the '?' of the uri has to be sent as given", obs.RequestURI, c.uri())
		} else if c.BareQuery {
			res.Probes["uri-bare-question-mark"]++
		}
	} else {
		c17JudgeQuery(c, gotQuery, res)
	}

	want, keys := c17Expect(c.Headers)
	for _, k := range keys {
		got := obs.Header.Values(k)
		if k == "Content-Length" && len(got) == 1 && len(want[k]) == 1 {
			// a framing header that net/http writes itself: the number counts, not its spelling
			g, gerr := strconv.ParseUint(got[0], 10, 63)
			w, werr := strconv.ParseUint(want[k][0], 10, 63)
			if gerr != nil || werr != nil || g != w {
				c17AddViolation(res, "c17/request-header", "header Content-Length: %q, specified %q", got, want[k])
			}
			continue
		}
		if !c17EqualStrings(got, want[k]) {
			c17AddViolation(res, "c17/request-header", "header %s: values %q, specified %q (in this order)", k, got, want[k])
		}
	}
	for _, k := range c17SortedKeys(obs.Header) {
		if _, given := want[k]; given || c17ClientTransportHeaders[k] {
			continue
		}
		c17AddViolation(res, "c17/request-header", "header %s: %q is not listed in the raw request", k, obs.Header[k])
	}
	if len(obs.Trailer) > 0 {
		c17AddViolation(res, "c17/request-header", "request trailers %v were sent", obs.Trailer)
	}
	if obs.BodyErr != "" {
		c17AddViolation(res, "c17/request-body", "request body ended with an error after %d bytes: %s", len(obs.Body), obs.BodyErr)
	} else if v := c17CheckBody(&c.Body, obs.Body); v.Class != "" {
		class := v.Class
		if class == "c17/body" {
			class = "c17/request-body"
		}
		c17AddViolation(res, class, "%s", v.Detail)
	}
}

func c17JudgeQuery(c *c17ReqCase, gotQuery string, res *simwork.Result) {
	got, err := url.ParseQuery(gotQuery)
	if err != nil {
		c17AddViolation(res, "c17/query", "query %q does not parse: %v", gotQuery, err)
		return
	}
	exact := map[string][]string{}
	if c.Inline != "" {
		inline, _ := url.ParseQuery(c.Inline)
		for k, vs := range inline {
			exact[k] = append(exact[k], vs...)
		}
	}
	for _, p := range c.RawParams {
		exact[p.Name] = append(exact[p.Name], p.Values...)
	}
	encoded := map[string][]*c17EncParam{}
	for i := range c.EncParams {
		p := &c.EncParams[i]
		encoded[p.Name] = append(encoded[p.Name], p)
	}
	names := map[string]bool{}
	for k := range exact {
		names[k] = true
	}
	for k := range encoded {
		names[k] = true
	}
	for k := range got {
		names[k] = true
	}
	sorted := make([]string, 0, len(names))
	for k := range names {
		sorted = append(sorted, k)
	}
	sort.Strings(sorted)
	for _, k := range sorted {
		remaining := append([]string{}, got[k]...)
		take := func(match func(string) bool) bool {
			for i, v := range remaining {
				if match(v) {
					remaining = append(remaining[:i], remaining[i+1:]...)
					return true
				}
			}
			return false
		}
		for _, w := range exact[k] {
			w := w
			if !take(func(v string) bool { return v == w }) {
				c17AddViolation(res, "c17/query", "query param %q: value %q is missing; received %q (query %q)", k, w, got[k], gotQuery)
			}
		}
		for _, p := range encoded[k] {
			p := p
			if !take(func(v string) bool { return c17MatchParam(p, v) }) {
				c17AddViolation(res, "c17/query", "encoded query param %q (base64=%v, %v, %d data bytes): no received value decodes to the specified contents; received %q", k, p.Base64, p.Msg.Comp, len(p.Msg.Data), got[k])
			} else if p.Base64 {
				res.Probes["base64-encoded-param-decoded"]++
			} else {
				res.Probes["plain-encoded-param-decoded"]++
			}
		}
		if len(remaining) > 0 {
			c17AddViolation(res, "c17/query", "query param %q: values %q were not specified (query %q)", k, remaining, gotQuery)
		}
	}
}
