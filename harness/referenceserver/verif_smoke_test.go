//go:build verif

package referenceserver

import (
	"bytes"
	"fmt"
	"io"
	"net/http"
	"strings"
	"sync"
	"testing"
	"time"

	"connectrpc.com/conformance/internal"
	conformancev1 "connectrpc.com/conformance/internal/gen/proto/go/connectrpc/conformance/v1"
	"connectrpc.com/conformance/internal/verifsim/simnet"
	"connectrpc.com/conformance/internal/verifsim/simrt"
	"connectrpc.com/conformance/internal/verifsim/simwork"
	"google.golang.org/protobuf/proto"
)

// A worked example for engine-N scenarios in this package: the real reference
// server (reference mode) on the simulated network, one plain HTTP/1.1 Connect
// unary request from a scripted client, feedback lines collected.
func init() { verifScenarios["smoke"] = smokeRun }

// linePrinter collects what the server writes to its error printer.
type verifLines struct {
	mu    sync.Mutex
	lines []string
}

func (p *verifLines) Printf(msg string, args ...any) {
	p.mu.Lock()
	p.lines = append(p.lines, fmt.Sprintf(msg, args...))
	p.mu.Unlock()
}

func (p *verifLines) PrefixPrintf(prefix, msg string, args ...any) {
	p.Printf(prefix+": "+msg, args...)
}

var _ internal.Printer = (*verifLines)(nil)

func smokeRun(t *testing.T, tape *simrt.Tape, o simwork.Opts) *simwork.Result {
	res := &simwork.Result{Faults: map[string]int{}, Probes: map[string]int{}, End: "done"}
	simrt.Bump()
	p := simwork.Bubble(t, func(t *testing.T) {
		simnet.Reset()
		simnet.Configure(simnet.Config{Seed: uint64(tape.Choose(1<<20, "netseed")), MaxSegment: 2048, SmallPermil: 250, MaxLatency: 500 * time.Microsecond})
		lines := &verifLines{}
		server, _, err := createServer(&conformancev1.ServerCompatRequest{
			Protocol: conformancev1.Protocol_PROTOCOL_CONNECT, HttpVersion: conformancev1.HTTPVersion_HTTP_VERSION_1,
		}, "127.0.0.1:0", "", "", true, lines, nil)
		if err != nil {
			res.Invalid = append(res.Invalid, "createServer: "+err.Error())
			return
		}
		go func() { _ = server.Serve() }()
		defer func() { _ = server.GracefulShutdown(time.Second) }()
		tr := &http.Transport{DialContext: simnet.DialContext, DisableCompression: true}
		defer tr.CloseIdleConnections()
		body, _ := proto.Marshal(&conformancev1.UnaryRequest{ResponseDefinition: &conformancev1.UnaryResponseDefinition{
			Response: &conformancev1.UnaryResponseDefinition_ResponseData{ResponseData: []byte("hi")}}})
		req, _ := http.NewRequest(http.MethodPost, "http://"+server.Addr()+"/connectrpc.conformance.v1.ConformanceService/Unary", bytes.NewReader(body))
		req.Header.Set("Content-Type", "application/proto")
		req.Header.Set("X-Test-Case-Name", "Smoke/case")
		req.Header.Set("X-Expect-Http-Version", "1")
		req.Header.Set("X-Expect-Http-Method", "POST")
		req.Header.Set("X-Expect-Protocol", "1")
		req.Header.Set("X-Expect-Codec", "1")
		req.Header.Set("X-Expect-Compression", "1")
		req.Header.Set("X-Expect-Tls", "false")
		resp, err := (&http.Client{Transport: tr}).Do(req)
		if err != nil {
			res.Violations = append(res.Violations, simwork.Violation{Class: "smoke/request-failed", Detail: err.Error()})
			return
		}
		data, _ := io.ReadAll(resp.Body)
		_ = resp.Body.Close()
		out := &conformancev1.UnaryResponse{}
		if err := proto.Unmarshal(data, out); err != nil || string(out.GetPayload().GetData()) != "hi" || resp.StatusCode != 200 {
			res.Violations = append(res.Violations, simwork.Violation{Class: "smoke/response", Detail: fmt.Sprintf("status %d body %q err %v", resp.StatusCode, data, err)})
		}
		lines.mu.Lock()
		if len(lines.lines) > 0 {
			res.Violations = append(res.Violations, simwork.Violation{Class: "smoke/feedback", Detail: strings.Join(lines.lines, " | ")})
		}
		lines.mu.Unlock()
	})
	if p != nil {
		res.Violations = append(res.Violations, simwork.Violation{Class: "panic-outside-task", Detail: fmt.Sprint(p)})
	}
	res.LogHash = uint64(tape.Pos())*1315423911 + 7
	res.Nontrivial = true
	return res
}
