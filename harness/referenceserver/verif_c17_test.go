//go:build verif

package referenceserver

// Check C17 - raw HTTP test payloads reach the wire exactly as specified.
//
// This file holds what the three scenarios share: the generator of message
// contents / stream contents / header lists, an INDEPENDENT model of the wire
// encoding written from the comments in service.proto (five-byte prefix =
// flags byte + big-endian length; length = explicit value if present, else the
// size of the encoded payload; payload = data after per-item compression), and
// decoders built directly on the codec libraries (not on /repo's compression
// package). Scenarios: verif_c17_response_test.go, verif_c17_request_test.go,
// verif_c17_arb_test.go.

import (
	"bytes"
	"compress/gzip"
	"compress/zlib"
	"encoding/binary"
	"encoding/hex"
	"errors"
	"fmt"
	"hash/fnv"
	"io"
	"net/http"
	"sort"
	"strings"
	"sync"
	_ "unsafe" // go:linkname below

	"connectrpc.com/conformance/internal"
	conformancev1 "connectrpc.com/conformance/internal/gen/proto/go/connectrpc/conformance/v1"
	"connectrpc.com/conformance/internal/verifsim/simrt"
	"connectrpc.com/conformance/internal/verifsim/simwork"
	"github.com/andybalholm/brotli"
	"github.com/golang/snappy"
	"github.com/klauspost/compress/zstd"
	"google.golang.org/protobuf/proto"
	"google.golang.org/protobuf/types/known/anypb"
)

// ---------------------------------------------------------------------------
// Generated shapes that exposed defects of the pinned tree; each was repaired in
// /repo (known_findings.json, status fixed) and is generated again. A constant
// set to false switches the shape off.
const (
	// a stream item without a payload message (field absent)
	c17GenAbsentPayload = true
	// the same field name both in the raw response's headers and trailers
	c17GenHeaderTrailerOverlap = true
	// a raw response header named Date
	c17GenDateHeader = true
	// the same trailer name in two spellings (x-trailer / X-TRAILER)
	c17GenTrailerCaseVariants = true
	// raw REQUEST stream: an uncompressed item with an explicit length that
	// is followed by further items
	c17GenReqExplicitIdentityNotLast = true
	// bodyless statuses (204, 304)
	c17GenBodylessStatus = true
)

// golang.org/x/net/http2 keeps a process-wide sync.Pool of channels
// (errChanPool, used by the server for every HEADERS write). A channel made in
// one synctest bubble must not be used in a later one ("select on synctest
// channel from outside bubble" is fatal), so the pool is emptied before every
// run. No product code is involved.
//
//go:linkname c17H2ErrChanPool golang.org/x/net/http2.errChanPool
var c17H2ErrChanPool sync.Pool

func c17ResetPools() {
	c17H2ErrChanPool = sync.Pool{New: func() any { return make(chan error, 1) }}
}

// ---------------------------------------------------------------------------
// feedback collector (the server's error printer)

type c17Lines struct {
	mu    sync.Mutex
	lines []string
}

func (p *c17Lines) Printf(msg string, args ...any) {
	p.mu.Lock()
	p.lines = append(p.lines, fmt.Sprintf(msg, args...))
	p.mu.Unlock()
}

func (p *c17Lines) PrefixPrintf(prefix, msg string, args ...any) {
	p.Printf(prefix+": "+msg, args...)
}

var _ internal.Printer = (*c17Lines)(nil)

// ---------------------------------------------------------------------------
// case description

// c17Msg describes one MessageContents.
type c17Msg struct {
	Absent bool   // the message itself is absent (only for stream item payloads)
	Kind   int    // 0 binary, 1 text, 2 binary_message (Any), 3 data oneof unset
	Data   []byte // the bytes that are to be (compressed and) written
	Comp   conformancev1.Compression
}

// c17Item describes one StreamItem.
type c17Item struct {
	Flags     uint32
	HasLength bool
	Length    uint32
	Payload   c17Msg
}

// c17Body describes a body: Kind 0 none, 1 unary, 2 stream.
type c17Body struct {
	Kind  int
	Unary c17Msg
	Items []c17Item
}

type c17Hdr struct {
	Name   string
	Values []string
}

func (m *c17Msg) proto() *conformancev1.MessageContents {
	if m.Absent {
		return nil
	}
	out := &conformancev1.MessageContents{Compression: m.Comp}
	switch m.Kind {
	case 0:
		out.Data = &conformancev1.MessageContents_Binary{Binary: append([]byte{}, m.Data...)}
	case 1:
		out.Data = &conformancev1.MessageContents_Text{Text: string(m.Data)}
	case 2:
		out.Data = &conformancev1.MessageContents_BinaryMessage{BinaryMessage: &anypb.Any{
			TypeUrl: "type.googleapis.com/connectrpc.conformance.v1.UnaryRequest", Value: append([]byte{}, m.Data...)}}
	}
	return out
}

func (b *c17Body) stream() *conformancev1.StreamContents {
	out := &conformancev1.StreamContents{}
	for i := range b.Items {
		it := &b.Items[i]
		item := &conformancev1.StreamContents_StreamItem{Flags: it.Flags, Payload: it.Payload.proto()}
		if it.HasLength {
			l := it.Length
			item.Length = &l
		}
		out.Items = append(out.Items, item)
	}
	return out
}

func c17ProtoHeaders(hs []c17Hdr) []*conformancev1.Header {
	var out []*conformancev1.Header
	for _, h := range hs {
		out = append(out, &conformancev1.Header{Name: h.Name, Value: append([]string{}, h.Values...)})
	}
	return out
}

// describe gives a compact JSON-able description (no big byte dumps).
func (m *c17Msg) describe() map[string]any {
	if m.Absent {
		return map[string]any{"absent": true}
	}
	d := map[string]any{"kind": []string{"binary", "text", "any", "unset"}[m.Kind], "comp": m.Comp.String(), "len": len(m.Data)}
	if len(m.Data) > 0 {
		n := len(m.Data)
		if n > 12 {
			n = 12
		}
		d["head"] = hex.EncodeToString(m.Data[:n])
	}
	return d
}

func (b *c17Body) describe() any {
	switch b.Kind {
	case 1:
		return map[string]any{"unary": b.Unary.describe()}
	case 2:
		items := []any{}
		for i := range b.Items {
			it := &b.Items[i]
			d := map[string]any{"flags": it.Flags, "payload": it.Payload.describe()}
			if it.HasLength {
				d["length"] = it.Length
			}
			items = append(items, d)
		}
		return map[string]any{"stream": items}
	}
	return "none"
}

// ---------------------------------------------------------------------------
// generator

type c17Gen struct {
	tape     *simrt.Tape
	thorough bool
	probes   map[string]int
}

func c17Fill(n, pattern int, seed uint64, ascii bool) []byte {
	out := make([]byte, n)
	switch {
	case pattern == 0:
		const text = "the quick brown fox jumps over the lazy dog; "
		off := int(seed % uint64(len(text)))
		for i := range out {
			out[i] = text[(i+off)%len(text)]
		}
	case pattern == 1 && !ascii:
		// zeros: stay as they are
	default:
		s := seed*0x9e3779b97f4a7c15 + 0x1234567
		for i := range out {
			s ^= s << 13
			s ^= s >> 7
			s ^= s << 17
			if ascii {
				out[i] = byte(0x20 + (s>>11)%0x5f)
			} else {
				out[i] = byte(s >> 24)
			}
		}
	}
	return out
}

var c17Sizes = []int{3, 0, 1, 17, 40, 5, 64, 100, 200, 7, 33, 12, 300, 1000, 9, 26, 2047, 2048, 2049, 2100, 5000, 4096, 70000, 2}

var c17Comps = []conformancev1.Compression{
	conformancev1.Compression_COMPRESSION_UNSPECIFIED,
	conformancev1.Compression_COMPRESSION_IDENTITY,
	conformancev1.Compression_COMPRESSION_GZIP,
	conformancev1.Compression_COMPRESSION_BR,
	conformancev1.Compression_COMPRESSION_ZSTD,
	conformancev1.Compression_COMPRESSION_DEFLATE,
	conformancev1.Compression_COMPRESSION_SNAPPY,
}

func c17IsIdentity(c conformancev1.Compression) bool {
	return c == conformancev1.Compression_COMPRESSION_UNSPECIFIED || c == conformancev1.Compression_COMPRESSION_IDENTITY
}

// msg generates a MessageContents; maxSize bounds the data size.
func (g *c17Gen) msg(label string, maxSize int) c17Msg {
	var m c17Msg
	k := g.tape.Choose(10, label+".kind")
	switch {
	case k <= 4:
		m.Kind = 0
	case k <= 6:
		m.Kind = 1
	case k <= 8:
		m.Kind = 2
	default:
		m.Kind = 3
		g.probes["data-oneof-unset"]++
	}
	n := c17Sizes[g.tape.Choose(len(c17Sizes), label+".size")]
	if n > maxSize {
		n = maxSize
	}
	pattern := g.tape.Choose(3, label+".pattern")
	seed := uint64(g.tape.Choose(1<<16, label+".dataseed"))
	if !g.tape.Bool(1, 2, label+".compressed") {
		m.Comp = c17Comps[g.tape.Choose(2, label+".identity-form")]
	} else {
		m.Comp = c17Comps[2+g.tape.Choose(5, label+".comp")]
		g.probes["compressed:"+m.Comp.String()]++
	}
	if m.Kind != 3 {
		m.Data = c17Fill(n, pattern, seed, m.Kind == 1)
		if m.Kind == 2 && n > 0 {
			// the Any must hold a valid message of its type, or the JSON form
			// of the test request could not carry it
			m.Data, _ = proto.MarshalOptions{Deterministic: true}.Marshal(&conformancev1.UnaryRequest{RequestData: m.Data})
		}
		if n == 0 {
			g.probes["empty-but-present-data"]++
		}
		if n >= 2048 {
			g.probes["payload>=2048"]++
		}
	}
	return m
}

var c17FlagChoices = []uint32{0, 1, 2, 3, 128, 129, 255, 0x80 | 2}

func (g *c17Gen) body(label string) c17Body {
	var b c17Body
	b.Kind = g.tape.Choose(3, label+".bodykind")
	switch b.Kind {
	case 1:
		b.Unary = g.msg(label+".unary", 1<<20)
	case 2:
		maxItems := 3
		if g.thorough {
			maxItems = 8
		}
		n := g.tape.Choose(maxItems+1, label+".items")
		if n == 0 {
			g.probes["stream-with-0-items"]++
		}
		for i := 0; i < n; i++ {
			l := fmt.Sprintf("%s.item%d", label, i)
			var it c17Item
			if g.tape.Bool(1, 4, l+".anyflags") {
				it.Flags = uint32(g.tape.Choose(256, l+".flags"))
			} else {
				it.Flags = c17FlagChoices[g.tape.Choose(len(c17FlagChoices), l+".flagchoice")]
			}
			explicit := g.tape.Bool(2, 5, l+".explicit-length")
			maxSize := 1 << 20
			if explicit {
				// the extent of a compressed payload under a lying length is
				// found by search in the oracle: keep those small
				maxSize = 300
			}
			if c17GenAbsentPayload && g.tape.Bool(1, 16, l+".absent-payload") {
				it.Payload = c17Msg{Absent: true}
				g.probes["absent-payload"]++
			} else {
				it.Payload = g.msg(l, maxSize)
			}
			if explicit {
				it.HasLength = true
				actual := uint32(len(it.Payload.Data))
				switch g.tape.Choose(8, l+".lengthkind") {
				case 0:
					it.Length = actual
				case 1:
					it.Length = 0
					g.probes["explicit-length-0"]++
					if !c17IsIdentity(it.Payload.Comp) || actual > 0 {
						g.probes["explicit-length-0-with-payload"]++
					}
				case 2:
					it.Length = actual + 1
				case 3:
					if actual > 0 {
						it.Length = actual - 1
					}
				case 4:
					it.Length = 1 << 20
				case 5:
					it.Length = 0xffffffff
				case 6:
					it.Length = uint32(g.tape.Choose(70000, l+".length"))
				default:
					it.Length = 5
				}
				if it.Length != actual {
					g.probes["explicit-length-differs"]++
				}
			}
			b.Items = append(b.Items, it)
		}
	}
	return b
}

var c17Values = []string{"v1", "some value", "a, b", "0", "13", "identity", "gzip", "application/grpc", "application/proto",
	"text/plain; charset=utf-8", "application/connect+proto", "trailers", "x=y; z", "", "UPPER lower", "application/json"}

var c17ContentTypes = []string{"application/grpc", "application/proto", "text/plain; charset=utf-8", "application/connect+proto",
	"application/json", "application/grpc-web+proto", "x/y", "application/octet-stream"}

// headers generates 0..4 header entries with 1..2 values from the name pool.
// singleValued names get exactly one value and appear at most once.
func (g *c17Gen) headers(label string, pool []string, singleValued map[string]bool, exclude map[string]bool) []c17Hdr {
	n := g.tape.Choose(5, label+".count")
	var out []c17Hdr
	seen := map[string]bool{}
	for i := 0; i < n; i++ {
		l := fmt.Sprintf("%s.%d", label, i)
		name := pool[g.tape.Choose(len(pool), l+".name")]
		nv := 1 + g.tape.Choose(2, l+".values")
		vpick := [2]int{g.tape.Choose(len(c17Values), l+".v0"), g.tape.Choose(len(c17Values), l+".v1")}
		canon := http.CanonicalHeaderKey(name)
		if exclude[canon] {
			continue
		}
		if singleValued[canon] {
			if seen[canon] {
				continue
			}
			nv = 1
		}
		if seen[canon] {
			g.probes["repeated-name-in-list"]++
		}
		seen[canon] = true
		h := c17Hdr{Name: name}
		for j := 0; j < nv; j++ {
			v := c17Values[vpick[j]]
			if canon == "Content-Type" {
				v = c17ContentTypes[vpick[j]%len(c17ContentTypes)]
			}
			if canon == "Te" {
				v = "trailers"
			}
			if canon == "User-Agent" && v == "" {
				v = "c17-agent/1.0" // net/http treats an empty User-Agent as "send none"
			}
			if canon == "Date" {
				v = "Tue, 15 Nov 1994 08:12:31 GMT"
			}
			h.Values = append(h.Values, v)
		}
		out = append(out, h)
	}
	return out
}

// c17Expect merges a header list into canonical name -> values in order.
func c17Expect(hs []c17Hdr) (map[string][]string, []string) {
	m := map[string][]string{}
	for _, h := range hs {
		k := http.CanonicalHeaderKey(h.Name)
		m[k] = append(m[k], h.Values...)
	}
	keys := make([]string, 0, len(m))
	for k := range m {
		keys = append(keys, k)
	}
	sort.Strings(keys)
	return m, keys
}

func c17SortedKeys(h map[string][]string) []string {
	keys := make([]string, 0, len(h))
	for k := range h {
		keys = append(keys, k)
	}
	sort.Strings(keys)
	return keys
}

func c17EqualStrings(a, b []string) bool {
	if len(a) != len(b) {
		return false
	}
	for i := range a {
		if a[i] != b[i] {
			return false
		}
	}
	return true
}

func c17IsSubsequence(want, got []string) bool {
	i := 0
	for _, g := range got {
		if i < len(want) && want[i] == g {
			i++
		}
	}
	return i == len(want)
}

// ---------------------------------------------------------------------------
// independent decoders (codec libraries used directly)

var c17ZstdDec = func() *zstd.Decoder {
	d, err := zstd.NewReader(nil, zstd.WithDecoderConcurrency(1))
	if err != nil {
		panic(err)
	}
	return d
}()

var errC17Trailing = errors.New("bytes left after the end of the compressed stream")

// c17Decode inverts the per-message compression. Must be called outside a bubble.
func c17Decode(comp conformancev1.Compression, in []byte) (out []byte, err error) {
	defer func() {
		if r := recover(); r != nil {
			err = fmt.Errorf("decoder panic: %v", r)
		}
	}()
	switch comp {
	case conformancev1.Compression_COMPRESSION_UNSPECIFIED, conformancev1.Compression_COMPRESSION_IDENTITY:
		return in, nil
	case conformancev1.Compression_COMPRESSION_GZIP:
		src := bytes.NewReader(in)
		r, err := gzip.NewReader(src)
		if err != nil {
			return nil, err
		}
		r.Multistream(false)
		out, err := io.ReadAll(r)
		if err != nil {
			return nil, err
		}
		if src.Len() != 0 {
			return nil, errC17Trailing
		}
		return out, nil
	case conformancev1.Compression_COMPRESSION_DEFLATE:
		src := bytes.NewReader(in)
		r, err := zlib.NewReader(src)
		if err != nil {
			return nil, err
		}
		out, err := io.ReadAll(r)
		if err != nil {
			return nil, err
		}
		if src.Len() != 0 {
			return nil, errC17Trailing
		}
		return out, nil
	case conformancev1.Compression_COMPRESSION_BR:
		return io.ReadAll(brotli.NewReader(bytes.NewReader(in)))
	case conformancev1.Compression_COMPRESSION_ZSTD:
		return c17ZstdDec.DecodeAll(in, nil)
	case conformancev1.Compression_COMPRESSION_SNAPPY:
		return io.ReadAll(snappy.NewReader(bytes.NewReader(in)))
	}
	return nil, fmt.Errorf("unknown compression %v", comp)
}

// c17EncodeGuess compresses data with default settings; it is only used to
// guess the extent of a compressed payload quickly, never for a verdict.
func c17EncodeGuess(comp conformancev1.Compression, data []byte) []byte {
	var buf bytes.Buffer
	var w io.WriteCloser
	switch comp {
	case conformancev1.Compression_COMPRESSION_GZIP:
		w = gzip.NewWriter(&buf)
	case conformancev1.Compression_COMPRESSION_DEFLATE:
		w = zlib.NewWriter(&buf)
	case conformancev1.Compression_COMPRESSION_BR:
		w = brotli.NewWriter(&buf)
	case conformancev1.Compression_COMPRESSION_ZSTD:
		zw, err := zstd.NewWriter(&buf, zstd.WithEncoderConcurrency(1))
		if err != nil {
			return nil
		}
		w = zw
	case conformancev1.Compression_COMPRESSION_SNAPPY:
		w = snappy.NewBufferedWriter(&buf)
	default:
		return data
	}
	_, _ = w.Write(data)
	_ = w.Close()
	return buf.Bytes()
}

// ---------------------------------------------------------------------------
// independent model of the body encoding, as a parser of the observed bytes

type c17Verdict struct {
	Class  string // "" = ok
	Detail string
	pos    int
}

func c17Short(b []byte) string {
	if len(b) > 24 {
		return fmt.Sprintf("%s... (%d bytes)", hex.EncodeToString(b[:24]), len(b))
	}
	return fmt.Sprintf("%s (%d bytes)", hex.EncodeToString(b), len(b))
}

// c17CheckMessage checks that wire is exactly the encoding of m.
func c17CheckMessage(m *c17Msg, wire []byte, what string) c17Verdict {
	if m.Absent || m.Kind == 3 {
		if len(wire) != 0 {
			return c17Verdict{Class: "c17/body", Detail: fmt.Sprintf("%s: no data specified but %s written", what, c17Short(wire))}
		}
		return c17Verdict{}
	}
	if c17IsIdentity(m.Comp) {
		if !bytes.Equal(wire, m.Data) {
			return c17Verdict{Class: "c17/body", Detail: fmt.Sprintf("%s: uncompressed payload differs: want %s, got %s", what, c17Short(m.Data), c17Short(wire))}
		}
		return c17Verdict{}
	}
	dec, err := c17Decode(m.Comp, wire)
	if err != nil {
		return c17Verdict{Class: "c17/not-invertible", Detail: fmt.Sprintf("%s: %v payload %s does not decode: %v", what, m.Comp, c17Short(wire), err)}
	}
	if !bytes.Equal(dec, m.Data) {
		return c17Verdict{Class: "c17/not-invertible", Detail: fmt.Sprintf("%s: %v payload decodes to %s, specified %s", what, m.Comp, c17Short(dec), c17Short(m.Data))}
	}
	return c17Verdict{}
}

// c17CheckStream checks that wire is exactly the encoding of the items. The
// extent of a payload is: len(data) for uncompressed payloads; the length
// field for compressed payloads with a computed length; for compressed
// payloads under an explicit (possibly lying) length it is searched (any
// extent for which the payload decodes to the specified data and the rest of
// the body still parses is accepted).
func c17CheckStream(items []c17Item, wire []byte) c17Verdict {
	best := c17Verdict{pos: -1}
	fail := func(pos int, class, format string, args ...any) bool {
		if pos > best.pos {
			best = c17Verdict{Class: class, Detail: fmt.Sprintf(format, args...), pos: pos}
		}
		return false
	}
	var parse func(i, pos int) bool
	parse = func(i, pos int) bool {
		if i == len(items) {
			if pos != len(wire) {
				return fail(pos, "c17/body", "%d bytes after the last item: %s", len(wire)-pos, c17Short(wire[pos:]))
			}
			return true
		}
		it := &items[i]
		what := fmt.Sprintf("item %d (at offset %d)", i+1, pos)
		if len(wire)-pos < 5 {
			return fail(pos, "c17/body", "%s: body ends inside the prefix: %s left, %d of %d items seen", what, c17Short(wire[pos:]), i, len(items))
		}
		if uint32(wire[pos]) != it.Flags {
			return fail(pos, "c17/body", "%s: flags byte %d, specified %d", what, wire[pos], it.Flags)
		}
		lengthField := binary.BigEndian.Uint32(wire[pos+1 : pos+5])
		if it.HasLength && lengthField != it.Length {
			return fail(pos, "c17/body", "%s: length field %d, explicit length %d was specified (payload data %d bytes, %v)", what, lengthField, it.Length, len(it.Payload.Data), it.Payload.Comp)
		}
		p := pos + 5
		rest := wire[p:]
		m := &it.Payload
		switch {
		case m.Absent || m.Kind == 3:
			if !it.HasLength && lengthField != 0 {
				return fail(pos, "c17/body", "%s: computed length field %d for an item without data", what, lengthField)
			}
			return parse(i+1, p)
		case c17IsIdentity(m.Comp):
			if !it.HasLength && int(lengthField) != len(m.Data) {
				return fail(pos, "c17/body", "%s: computed length field %d, payload has %d bytes", what, lengthField, len(m.Data))
			}
			if len(rest) < len(m.Data) || !bytes.Equal(rest[:len(m.Data)], m.Data) {
				n := len(m.Data)
				if n > len(rest) {
					n = len(rest)
				}
				return fail(p, "c17/body", "%s: payload bytes differ: want %s, got %s", what, c17Short(m.Data), c17Short(rest[:n]))
			}
			return parse(i+1, p+len(m.Data))
		case !it.HasLength:
			if int64(lengthField) > int64(len(rest)) {
				return fail(p, "c17/body", "%s: computed length field %d but only %d bytes follow", what, lengthField, len(rest))
			}
			if v := c17CheckMessage(m, rest[:lengthField], what); v.Class != "" {
				return fail(p, v.Class, "%s", v.Detail)
			}
			return parse(i+1, p+int(lengthField))
		default:
			decodes := func(e int) bool {
				dec, err := c17Decode(m.Comp, rest[:e])
				return err == nil && bytes.Equal(dec, m.Data)
			}
			anyDecoded := false
			guess := len(c17EncodeGuess(m.Comp, m.Data))
			if guess <= len(rest) && decodes(guess) {
				anyDecoded = true
				if parse(i+1, p+guess) {
					return true
				}
			}
			for e := 0; e <= len(rest); e++ {
				if e == guess || !decodes(e) {
					continue
				}
				anyDecoded = true
				if parse(i+1, p+e) {
					return true
				}
			}
			if !anyDecoded {
				return fail(p, "c17/not-invertible", "%s: no prefix of the %d bytes after the prefix decodes (%v) to the specified %d data bytes: %s", what, len(rest), m.Comp, len(m.Data), c17Short(rest))
			}
			return false
		}
	}
	if parse(0, 0) {
		return c17Verdict{}
	}
	if best.Class == "" {
		best.Class, best.Detail = "c17/body", "body does not parse as the specified stream"
	}
	return best
}

// c17CheckBody checks observed body bytes against the definition.
func c17CheckBody(b *c17Body, wire []byte) c17Verdict {
	switch b.Kind {
	case 1:
		return c17CheckMessage(&b.Unary, wire, "unary body")
	case 2:
		return c17CheckStream(b.Items, wire)
	}
	if len(wire) != 0 {
		return c17Verdict{Class: "c17/body", Detail: "no body specified but received " + c17Short(wire)}
	}
	return c17Verdict{}
}

// c17CheckEncoders runs /repo's two body encoders directly (no HTTP) and
// decodes what they wrote: the invertibility clause on its own.
func c17CheckEncoders(b *c17Body) (v c17Verdict) {
	defer func() {
		if r := recover(); r != nil {
			v = c17Verdict{Class: "c17/panic", Detail: fmt.Sprintf("body encoder panicked: %v", r)}
		}
	}()
	var buf bytes.Buffer
	var err error
	switch b.Kind {
	case 1:
		err = internal.WriteRawMessageContents(b.Unary.proto(), &buf)
	case 2:
		err = internal.WriteRawStreamContents(b.stream(), &buf)
	default:
		return c17Verdict{}
	}
	if err != nil {
		return c17Verdict{Class: "c17/not-invertible", Detail: "encoder refused a valid definition: " + err.Error()}
	}
	v = c17CheckBody(b, buf.Bytes())
	if v.Class != "" {
		v.Detail = "direct encoder call: " + v.Detail
		if v.Class == "c17/body" {
			v.Class = "c17/not-invertible"
		}
	}
	return v
}

// bodyDeterministicLen returns the body length if it does not depend on a
// compressor (used for an explicit Content-Length request header).
func (b *c17Body) deterministicLen() (int, bool) {
	switch b.Kind {
	case 0:
		return 0, true
	case 1:
		if b.Unary.Kind == 3 {
			return 0, true
		}
		if !c17IsIdentity(b.Unary.Comp) {
			return 0, false
		}
		return len(b.Unary.Data), true
	}
	n := 0
	for i := range b.Items {
		m := &b.Items[i].Payload
		n += 5
		if m.Absent || m.Kind == 3 {
			continue
		}
		if !c17IsIdentity(m.Comp) {
			return 0, false
		}
		n += len(m.Data)
	}
	return n, true
}

// ---------------------------------------------------------------------------
// helpers shared by the scenarios

func c17Hash(parts ...any) uint64 {
	h := fnv.New64a()
	for _, p := range parts {
		fmt.Fprintf(h, "%v|", p)
	}
	return h.Sum64()
}

func c17AddViolation(res *simwork.Result, class, format string, args ...any) {
	res.Violations = append(res.Violations, simwork.Violation{Class: class, Detail: fmt.Sprintf(format, args...)})
}

func c17Envelope(flags byte, payload []byte) []byte {
	out := make([]byte, 5+len(payload))
	out[0] = flags
	binary.BigEndian.PutUint32(out[1:5], uint32(len(payload)))
	copy(out[5:], payload)
	return out
}

func c17DescribeHeaders(hs []c17Hdr) []string {
	var out []string
	for _, h := range hs {
		out = append(out, fmt.Sprintf("%s: %s", h.Name, strings.Join(h.Values, " | ")))
	}
	return out
}
