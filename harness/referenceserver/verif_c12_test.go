//go:build verif

package referenceserver

// Check C12: the reference server flags exactly the requests that deviate from
// the test setup (scenario c12-matrix) and accepts / converts / removes /
// echoes the timeout header exactly as the protocol grammar says (scenario
// c12-timeout). The REAL reference server (createServer, reference mode) runs
// on the simulated network inside a synctest bubble; a scripted client node
// built from plain HTTP transports sends well-formed unary RPCs.

import (
	"bytes"
	"context"
	"crypto/tls"
	"encoding/base64"
	"encoding/binary"
	"encoding/json"
	"fmt"
	"hash/fnv"
	"io"
	"math/big"
	"net"
	"net/http"
	"net/url"
	"runtime"
	"sort"
	"strconv"
	"strings"
	"sync"
	"testing"
	"time"

	"connectrpc.com/conformance/internal"
	"connectrpc.com/conformance/internal/compression"
	conformancev1 "connectrpc.com/conformance/internal/gen/proto/go/connectrpc/conformance/v1"
	"connectrpc.com/conformance/internal/tracer"
	"connectrpc.com/conformance/internal/verifsim/simnet"
	"connectrpc.com/conformance/internal/verifsim/simquic"
	"connectrpc.com/conformance/internal/verifsim/simrt"
	"connectrpc.com/conformance/internal/verifsim/simwork"
	"github.com/quic-go/quic-go"
	"github.com/quic-go/quic-go/http3"
	"golang.org/x/net/http2"
	"google.golang.org/protobuf/encoding/protojson"
	"google.golang.org/protobuf/proto"
)

func init() {
	verifScenarios["c12-matrix"] = c12MatrixRun
	verifScenarios["c12-timeout"] = c12TimeoutRun
}

// ---------------------------------------------------------------------------
// switches

const (
	// HTTP/3 instances (quic-go over simnet datagram sockets).
	c12EnableHTTP3 = true
	// With two independently observable deviating aspects demand two lines
	// (the property says "for each aspect that does not"); false = demand one.
	c12StrictPerAspect = true

	// Generator shapes that hit reported defects of /repo (see the report):
	// a timeout whose number carries a sign that strconv.ParseInt tolerates
	// ("+5S", "+5", "-0S", "-0"): not in the grammar, accepted by the server.
	c12GenSignedNumber = true
	// a timeout with more digits than the grammar allows whose numeric value
	// is in range because of leading zeros ("000000001S", "00000000001"): not
	// in the grammar, accepted by the server.
	c12GenOverlongZeros = true

	// Streaming procedures (ClientStream, ServerStream, half-duplex BidiStream)
	// as steps of c12-matrix, over every instance kind.
	c12GenStreams = true

	// Server instances created with a *tracer.Tracer (request bodies seen by
	// the checks are then the tracing wrappers).
	c12GenTracer = true

	// c12-timeout: a protocol deviation that crosses the header families
	// (really Connect with Connect-Timeout-Ms while x-expect-protocol says
	// gRPC / gRPC-Web, or the reverse). See the report: extractTimeout looks
	// for the header of the EXPECTED protocol, so the real header is neither
	// judged nor removed and the timeout is enforced by connect-go.
	c12GenTimeoutCrossFamily = false
)

// ---------------------------------------------------------------------------
// feedback collector

// c12Printer collects the lines that the server's real printer (the one the
// reference server binary puts in front of its stderr) writes.
type c12Printer struct {
	mu    sync.Mutex
	lines []string
	part  []byte
	real  internal.Printer
}

func newC12Printer() *c12Printer {
	p := &c12Printer{}
	p.real = internal.NewPrinter(c12LineWriter{p})
	return p
}

type c12LineWriter struct{ p *c12Printer }

func (w c12LineWriter) Write(data []byte) (int, error) {
	p := w.p
	p.mu.Lock()
	defer p.mu.Unlock()
	p.part = append(p.part, data...)
	for {
		i := bytes.IndexByte(p.part, '\n')
		if i < 0 {
			break
		}
		p.lines = append(p.lines, string(p.part[:i]))
		p.part = p.part[i+1:]
	}
	return len(data), nil
}

func (p *c12Printer) Printf(msg string, args ...any) { p.real.Printf(msg, args...) }

func (p *c12Printer) PrefixPrintf(prefix, msg string, args ...any) {
	p.real.PrefixPrintf(prefix, msg, args...)
}

var _ internal.Printer = (*c12Printer)(nil)

// count returns (lines for name, all lines).
func (p *c12Printer) count(name string) (int, int) {
	p.mu.Lock()
	defer p.mu.Unlock()
	n := 0
	for _, l := range p.lines {
		if strings.HasPrefix(l, name+": ") {
			n++
		}
	}
	return n, len(p.lines)
}

func (p *c12Printer) tail(from int) string {
	p.mu.Lock()
	defer p.mu.Unlock()
	if from > len(p.lines) {
		from = len(p.lines)
	}
	return strings.Join(p.lines[from:], " | ")
}

// ---------------------------------------------------------------------------
// certificates (once per worker process, created inside the first bubble)

var c12Certs struct {
	done                                   bool
	serverCert, serverKey, clientCert, clientKey []byte
	err                                    error
}

func c12EnsureCerts() error {
	if c12Certs.done {
		return c12Certs.err
	}
	c12Certs.done = true
	c12Certs.serverCert, c12Certs.serverKey, c12Certs.err = internal.NewServerCert()
	if c12Certs.err != nil {
		return c12Certs.err
	}
	c12Certs.clientCert, c12Certs.clientKey, c12Certs.err = internal.NewClientCert()
	return c12Certs.err
}

// ---------------------------------------------------------------------------
// server instance and client node

type c12Server struct {
	Ver  int  `json:"http_version"`
	TLS  bool `json:"tls"`
	Cert bool `json:"client_cert_required"`
	// created with a *tracer.Tracer (as the runner does with --trace)
	Tracer bool `json:"with_tracer,omitempty"`
}

func (s c12Server) String() string {
	out := "h" + strconv.Itoa(s.Ver)
	if s.TLS {
		out += "/tls"
	} else {
		out += "/plain"
	}
	if s.Cert {
		out += "/cert"
	}
	if s.Tracer {
		out += "+trace"
	}
	return out
}

func c12DrawServer(tape *simrt.Tape) c12Server {
	nver := 2
	if c12EnableHTTP3 {
		nver = 3
	}
	s := c12Server{Ver: 1 + tape.Choose(nver, "server-version")}
	s.TLS = tape.Bool(1, 2, "server-tls")
	if s.Ver == 3 {
		s.TLS = true
	}
	cert := tape.Bool(1, 2, "server-client-cert")
	s.Cert = s.TLS && cert
	s.Tracer = tape.Bool(1, 2, "server-tracer") && c12GenTracer
	return s
}

func c12StartServer(s c12Server, printer internal.Printer, trace *tracer.Tracer) (httpServer, error) {
	req := &conformancev1.ServerCompatRequest{
		Protocol:    conformancev1.Protocol_PROTOCOL_CONNECT,
		HttpVersion: conformancev1.HTTPVersion(s.Ver),
		UseTls:      s.TLS,
	}
	if s.TLS {
		if err := c12EnsureCerts(); err != nil {
			return nil, err
		}
		req.ServerCreds = &conformancev1.TLSCreds{Cert: c12Certs.serverCert, Key: c12Certs.serverKey}
		if s.Cert {
			req.ClientTlsCert = c12Certs.clientCert
		}
	}
	server, _, err := createServer(req, "127.0.0.1:0", "", "", true, printer, trace)
	return server, err
}

// c12Node is the scripted client node: one transport per HTTP version.
type c12Node struct {
	srv     c12Server
	addr    string
	clients map[int]http.RoundTripper
	closers []func()
	env     *c12Env
}

func (n *c12Node) tlsConfig(alpn string) (*tls.Config, error) {
	var cc, ck []byte
	if n.srv.Cert {
		cc, ck = c12Certs.clientCert, c12Certs.clientKey
	}
	conf, err := internal.NewClientTLSConfig(c12Certs.serverCert, cc, ck)
	if err != nil {
		return nil, err
	}
	if alpn != "" {
		conf.NextProtos = []string{alpn}
	}
	return conf, nil
}

func (n *c12Node) transport(ver int) (http.RoundTripper, error) {
	if rt := n.clients[ver]; rt != nil {
		return rt, nil
	}
	var rt http.RoundTripper
	switch ver {
	case 1:
		tr := &http.Transport{DialContext: simnet.DialContext, DisableCompression: true}
		if n.srv.TLS {
			conf, err := n.tlsConfig("http/1.1")
			if err != nil {
				return nil, err
			}
			tr.TLSClientConfig = conf
		}
		// never negotiate h2 on this transport
		tr.TLSNextProto = map[string]func(string, *tls.Conn) http.RoundTripper{}
		n.closers = append(n.closers, tr.CloseIdleConnections)
		rt = tr
	case 2:
		if n.srv.TLS {
			conf, err := n.tlsConfig("h2")
			if err != nil {
				return nil, err
			}
			tr := &http.Transport{DialContext: simnet.DialContext, DisableCompression: true, TLSClientConfig: conf, ForceAttemptHTTP2: true}
			n.closers = append(n.closers, tr.CloseIdleConnections)
			rt = tr
		} else {
			tr := &http2.Transport{
				DisableCompression: true,
				AllowHTTP:          true,
				DialTLSContext: func(ctx context.Context, network, addr string, _ *tls.Config) (net.Conn, error) {
					return simnet.DialContext(ctx, network, addr)
				},
			}
			n.closers = append(n.closers, tr.CloseIdleConnections)
			rt = tr
		}
	case 3:
		conf, err := n.tlsConfig("")
		if err != nil {
			return nil, err
		}
		tr := &http3.Transport{
			DisableCompression: true,
			TLSClientConfig:    conf,
			QUICConfig:         &quic.Config{MaxIdleTimeout: 20 * time.Second, KeepAlivePeriod: 5 * time.Second},
			Dial:               simquic.Dial,
		}
		n.closers = append(n.closers, func() { _ = tr.Close() })
		rt = tr
	default:
		return nil, fmt.Errorf("no transport for HTTP version %d", ver)
	}
	n.clients[ver] = rt
	return rt, nil
}

func (n *c12Node) close() {
	for _, c := range n.closers {
		c()
	}
}

// actualVersions lists the HTTP versions a client can really speak to the instance.
func (s c12Server) actualVersions() []int {
	switch s.Ver {
	case 1:
		return []int{1}
	case 2:
		return []int{2, 1} // index 0 = the matching one
	default:
		return []int{3}
	}
}

// ---------------------------------------------------------------------------
// request model

var c12CompressionNames = map[int]string{1: "identity", 2: "gzip", 3: "br", 4: "zstd", 5: "deflate", 6: "snappy"}

// c12Actual is what is really sent.
type c12Actual struct {
	Ver              int    `json:"http_version"`
	Method           string `json:"method"`
	Protocol         int    `json:"protocol"`
	Codec            int    `json:"codec"`
	Compression      int    `json:"compression"`
	BareContentType  bool   `json:"content_type_without_codec_suffix,omitempty"`
	ExplicitIdentity bool   `json:"identity_encoding_header,omitempty"`
	Trailers         bool   `json:"request_trailers,omitempty"`
	DelayMs          uint32 `json:"response_delay_ms,omitempty"`
	// streaming procedures: "" (unary), "client", "server", "bidi" (half-duplex)
	Stream    string `json:"stream,omitempty"`
	Msgs      int    `json:"request_messages,omitempty"`
	Chunked   bool   `json:"body_of_unknown_length,omitempty"`
	PlainLast bool   `json:"last_message_not_compressed,omitempty"`
	// gRPC request without 'te: trailers' (draws protocol feedback)
	NoTE bool `json:"without_te_trailers,omitempty"`
}

// c12Expect is what the x-expect-* headers say.
type c12Expect struct {
	Ver         int    `json:"http_version"`
	Method      string `json:"method"`
	Protocol    int    `json:"protocol"`
	Codec       int    `json:"codec"`
	Compression int    `json:"compression"`
	TLS         bool   `json:"tls"`
	Cert        bool   `json:"client_cert"`
}

type c12Request struct {
	Name    string    `json:"test_name"`
	Actual  c12Actual `json:"actual"`
	Expect  c12Expect `json:"expect"`
	Timeout *string   `json:"timeout_header,omitempty"`
	Data    string    `json:"-"`
	// BlankName: the x-test-case-name header is present but empty (only with Name == "")
	BlankName bool `json:"blank_test_name_header,omitempty"`
}

func c12Matching(s c12Server, a c12Actual) c12Expect {
	return c12Expect{Ver: a.Ver, Method: a.Method, Protocol: a.Protocol, Codec: a.Codec, Compression: a.Compression, TLS: s.TLS, Cert: s.TLS && s.Cert}
}

func c12DrawActual(tape *simrt.Tape, s c12Server, allowGet bool) c12Actual {
	a := c12Actual{Method: http.MethodPost}
	vers := s.actualVersions()
	a.Ver = vers[0]
	other := tape.Bool(1, 4, "other-http-version")
	if other && len(vers) > 1 {
		a.Ver = vers[1]
	}
	a.Protocol = 1 + tape.Choose(3, "protocol")
	switch tape.Choose(7, "rpc-kind") { // 0..3 unary
	case 4:
		a.Stream = "client"
	case 5:
		a.Stream = "server"
	case 6:
		a.Stream = "bidi"
	}
	if !c12GenStreams {
		a.Stream = ""
	}
	get := tape.Bool(1, 3, "get")
	if get && allowGet && a.Protocol == 1 && a.Stream == "" {
		a.Method = http.MethodGet
	}
	second := tape.Bool(1, 2, "second-request-message")
	chunked := tape.Bool(1, 2, "unknown-length-body")
	if a.Stream != "" {
		a.Msgs = 1
		if second && a.Stream != "server" {
			a.Msgs = 2
		}
		a.Chunked = chunked
	}
	a.Codec = 1 + tape.Choose(2, "codec")
	a.Compression = 1 + tape.Choose(6, "compression")
	a.BareContentType = tape.Bool(1, 3, "bare-content-type") && a.Codec == 1 && a.Protocol != 1
	a.ExplicitIdentity = tape.Bool(1, 4, "explicit-identity") && a.Compression == 1
	a.PlainLast = tape.Bool(1, 4, "plain-last-message") && a.Compression != 1 && a.Stream != ""
	return a
}

func c12Compress(c int, data []byte) ([]byte, error) {
	if c == 1 {
		return data, nil
	}
	comp, err := compression.GetCompressor(conformancev1.Compression(c))
	if err != nil {
		return nil, err
	}
	var buf bytes.Buffer
	comp.Reset(&buf)
	if _, err := comp.Write(data); err != nil {
		return nil, err
	}
	if err := comp.Close(); err != nil {
		return nil, err
	}
	return buf.Bytes(), nil
}

func c12Decompress(name string, data []byte) ([]byte, error) {
	if name == "" || name == "identity" {
		return data, nil
	}
	for c, n := range c12CompressionNames {
		if n != name {
			continue
		}
		dec, err := compression.GetDecompressor(conformancev1.Compression(c))
		if err != nil {
			return nil, err
		}
		if err := dec.Reset(bytes.NewReader(data)); err != nil {
			return nil, err
		}
		out, err := io.ReadAll(dec)
		_ = dec.Close()
		return out, err
	}
	return nil, fmt.Errorf("unknown response encoding %q", name)
}

type c12OpaqueReader struct{ r io.Reader }

func (o *c12OpaqueReader) Read(p []byte) (int, error) { return o.r.Read(p) }

// c12Build turns the request model into a real HTTP request.
func c12Build(ctx context.Context, s c12Server, addr string, r *c12Request) (*http.Request, error) {
	a := r.Actual
	def := &conformancev1.UnaryResponseDefinition{
		Response:        &conformancev1.UnaryResponseDefinition_ResponseData{ResponseData: []byte(r.Data)},
		ResponseDelayMs: a.DelayMs,
	}
	var msg proto.Message = &conformancev1.UnaryRequest{ResponseDefinition: def}
	path := "/connectrpc.conformance.v1.ConformanceService/Unary"
	if a.Method == http.MethodGet {
		msg = &conformancev1.IdempotentUnaryRequest{ResponseDefinition: def}
		path = "/connectrpc.conformance.v1.ConformanceService/IdempotentUnary"
	}
	var msgs []proto.Message
	switch a.Stream {
	case "client":
		path = "/connectrpc.conformance.v1.ConformanceService/ClientStream"
		for i := 0; i < a.Msgs; i++ {
			m := &conformancev1.ClientStreamRequest{RequestData: []byte(fmt.Sprintf("req-%d", i))}
			if i == 0 {
				m.ResponseDefinition = def
			}
			msgs = append(msgs, m)
		}
	case "server":
		path = "/connectrpc.conformance.v1.ConformanceService/ServerStream"
		msgs = append(msgs, &conformancev1.ServerStreamRequest{
			ResponseDefinition: &conformancev1.StreamResponseDefinition{ResponseData: [][]byte{[]byte(r.Data)}, ResponseDelayMs: a.DelayMs},
			RequestData:        []byte("req-0"),
		})
	case "bidi":
		path = "/connectrpc.conformance.v1.ConformanceService/BidiStream"
		for i := 0; i < a.Msgs; i++ {
			m := &conformancev1.BidiStreamRequest{RequestData: []byte(fmt.Sprintf("req-%d", i))}
			if i == 0 {
				m.ResponseDefinition = &conformancev1.StreamResponseDefinition{ResponseData: [][]byte{[]byte(r.Data)}, ResponseDelayMs: a.DelayMs}
			}
			msgs = append(msgs, m) // full_duplex stays false: all requests, then the responses
		}
	default:
		msgs = []proto.Message{msg}
	}
	codecName := "proto"
	if a.Codec == 2 {
		codecName = "json"
	}
	var encoded [][]byte // per message: codec, then compression
	var flags []byte
	for i, m := range msgs {
		var one []byte
		var err error
		if a.Codec == 2 {
			one, err = protojson.Marshal(m)
		} else {
			one, err = proto.Marshal(m)
		}
		if err != nil {
			return nil, err
		}
		flag := byte(0)
		if a.Compression != 1 && !(a.PlainLast && i == len(msgs)-1) {
			flag = 1
			one, err = c12Compress(a.Compression, one)
			if err != nil {
				return nil, err
			}
		}
		encoded = append(encoded, one)
		flags = append(flags, flag)
	}
	data := encoded[0]
	envelopes := func() []byte {
		var out []byte
		for i, one := range encoded {
			env := make([]byte, 5, 5+len(one))
			env[0] = flags[i]
			binary.BigEndian.PutUint32(env[1:], uint32(len(one)))
			out = append(out, append(env, one...)...)
		}
		return out
	}
	scheme := "http"
	if s.TLS {
		scheme = "https"
	}
	target := scheme + "://" + addr + path
	hdr := http.Header{}
	var body []byte
	encName := c12CompressionNames[a.Compression]
	sendEnc := a.Compression != 1 || a.ExplicitIdentity
	switch {
	case a.Method == http.MethodGet:
		q := url.Values{}
		q.Set("connect", "v1")
		q.Set("encoding", codecName)
		q.Set("base64", "1")
		q.Set("message", base64.RawURLEncoding.EncodeToString(data))
		if sendEnc {
			q.Set("compression", encName)
		}
		target += "?" + q.Encode()
	case a.Protocol == 1 && a.Stream != "":
		hdr.Set("Content-Type", "application/connect+"+codecName)
		hdr.Set("Connect-Protocol-Version", "1")
		if sendEnc {
			hdr.Set("Connect-Content-Encoding", encName)
		}
		body = envelopes()
	case a.Protocol == 1:
		hdr.Set("Content-Type", "application/"+codecName)
		hdr.Set("Connect-Protocol-Version", "1")
		if sendEnc {
			hdr.Set("Content-Encoding", encName)
		}
		body = data
	default:
		ct := "application/grpc"
		if a.Protocol == 3 {
			ct = "application/grpc-web"
		}
		if !a.BareContentType {
			ct += "+" + codecName
		}
		hdr.Set("Content-Type", ct)
		if a.Protocol == 2 && !a.NoTE {
			hdr.Set("Te", "trailers")
		}
		if sendEnc {
			hdr.Set("Grpc-Encoding", encName)
		}
		body = envelopes()
	}
	var rd io.Reader
	if a.Method != http.MethodGet {
		rd = bytes.NewReader(body)
		if a.Trailers || a.Chunked {
			rd = &c12OpaqueReader{r: rd} // unknown length: chunked on HTTP/1.1
		}
	}
	req, err := http.NewRequestWithContext(ctx, a.Method, target, rd)
	if err != nil {
		return nil, err
	}
	for k, v := range hdr {
		req.Header[k] = v
	}
	if a.Trailers {
		req.Trailer = http.Header{"X-C12-Trailer": []string{"t"}}
	}
	if r.Name == "" && r.BlankName {
		req.Header["X-Test-Case-Name"] = []string{""} // present, but it names nothing
	}
	if r.Name != "" {
		req.Header.Set("X-Test-Case-Name", r.Name)
	}
	e := r.Expect
	req.Header.Set("X-Expect-Http-Version", strconv.Itoa(e.Ver))
	req.Header.Set("X-Expect-Http-Method", e.Method)
	req.Header.Set("X-Expect-Protocol", strconv.Itoa(e.Protocol))
	req.Header.Set("X-Expect-Codec", strconv.Itoa(e.Codec))
	req.Header.Set("X-Expect-Compression", strconv.Itoa(e.Compression))
	req.Header.Set("X-Expect-Tls", strconv.FormatBool(e.TLS))
	if e.Cert {
		req.Header.Set("X-Expect-Client-Cert", internal.ClientCertName)
	}
	if r.Timeout != nil {
		if a.Protocol == 1 {
			req.Header["Connect-Timeout-Ms"] = []string{*r.Timeout}
		} else {
			req.Header["Grpc-Timeout"] = []string{*r.Timeout}
		}
	}
	return req, nil
}

// c12Reply is the parsed outcome of one RPC.
type c12Reply struct {
	Err     string // transport-level failure
	Status  int
	RPCErr  string // non-empty: the RPC ended with an error
	Payload *conformancev1.ConformancePayload
	Proto   int // HTTP major version of the response
	Msgs    int // response messages
}

func (r *c12Reply) String() string {
	if r.Err != "" {
		return "transport error: " + r.Err
	}
	return fmt.Sprintf("http %d rpc-error %q payload=%v messages=%d", r.Status, r.RPCErr, r.Payload != nil, r.Msgs)
}

func c12DecodeMessage(contentType string, data []byte) (*conformancev1.ConformancePayload, error) {
	out := &conformancev1.UnaryResponse{} // IdempotentUnaryResponse has the same shape
	var err error
	if strings.HasSuffix(contentType, "json") {
		err = protojson.UnmarshalOptions{DiscardUnknown: true}.Unmarshal(data, out)
	} else {
		err = proto.Unmarshal(data, out)
	}
	if err != nil {
		return nil, err
	}
	if out.GetPayload() == nil {
		return &conformancev1.ConformancePayload{}, nil
	}
	return out.GetPayload(), nil
}

func c12Do(rt http.RoundTripper, req *http.Request, protocol int) *c12Reply {
	rep := &c12Reply{}
	resp, err := rt.RoundTrip(req)
	if err != nil {
		rep.Err = err.Error()
		return rep
	}
	data, err := io.ReadAll(resp.Body)
	_ = resp.Body.Close()
	if err != nil {
		rep.Err = "reading body: " + err.Error()
		return rep
	}
	rep.Status = resp.StatusCode
	rep.Proto = resp.ProtoMajor
	ct := resp.Header.Get("Content-Type")
	if resp.StatusCode != http.StatusOK {
		rep.RPCErr = fmt.Sprintf("http status %d: %.200s", resp.StatusCode, data)
		return rep
	}
	if strings.HasPrefix(ct, "application/connect+") {
		// Connect streaming: enveloped messages, then an end-stream envelope (flag 2, JSON)
		rest := data
		ended := false
		for len(rest) >= 5 {
			flag := rest[0]
			n := int(binary.BigEndian.Uint32(rest[1:5]))
			if n > len(rest)-5 {
				break
			}
			chunk := rest[5 : 5+n]
			rest = rest[5+n:]
			if flag&1 != 0 {
				chunk, err = c12Decompress(resp.Header.Get("Connect-Content-Encoding"), chunk)
				if err != nil {
					rep.RPCErr = "undecompressable response envelope: " + err.Error()
					return rep
				}
			}
			if flag&2 != 0 {
				ended = true
				var end struct {
					Error json.RawMessage `json:"error"`
				}
				if err := json.Unmarshal(chunk, &end); err != nil {
					rep.RPCErr = "undecodable end-stream message: " + err.Error()
				} else if len(end.Error) > 0 && string(end.Error) != "null" {
					rep.RPCErr = fmt.Sprintf("end-stream error %.200s", end.Error)
				}
				continue
			}
			pl, err := c12DecodeMessage(ct, chunk)
			if err != nil {
				rep.RPCErr = "undecodable response message: " + err.Error()
				return rep
			}
			if rep.Payload == nil {
				rep.Payload = pl
			}
			rep.Msgs++
		}
		if len(rest) != 0 {
			rep.RPCErr = "truncated envelope"
		} else if !ended && rep.RPCErr == "" {
			rep.RPCErr = "no end-stream message"
		}
		return rep
	}
	if protocol == 1 && !strings.HasPrefix(ct, "application/grpc") {
		data, err = c12Decompress(resp.Header.Get("Content-Encoding"), data)
		if err != nil {
			rep.RPCErr = "undecompressable response: " + err.Error()
			return rep
		}
		pl, err := c12DecodeMessage(ct, data)
		if err != nil {
			rep.RPCErr = "undecodable response: " + err.Error()
			return rep
		}
		rep.Payload = pl
		rep.Msgs = 1
		return rep
	}
	// gRPC / gRPC-Web (also the shape of an error written for such a content type)
	status := resp.Header.Get("Grpc-Status")
	if v := resp.Trailer.Get("Grpc-Status"); v != "" {
		status = v
	}
	rest := data
	for len(rest) >= 5 {
		flag := rest[0]
		n := int(binary.BigEndian.Uint32(rest[1:5]))
		if n > len(rest)-5 {
			rep.RPCErr = "truncated envelope"
			return rep
		}
		chunk := rest[5 : 5+n]
		rest = rest[5+n:]
		if flag&1 != 0 {
			var err error
			chunk, err = c12Decompress(resp.Header.Get("Grpc-Encoding"), chunk)
			if err != nil {
				rep.RPCErr = "undecompressable response envelope: " + err.Error()
				return rep
			}
		}
		if flag&0x80 != 0 {
			for _, line := range strings.Split(string(chunk), "\r\n") {
				k, v, ok := strings.Cut(line, ":")
				if ok && strings.EqualFold(strings.TrimSpace(k), "grpc-status") {
					status = strings.TrimSpace(v)
				}
			}
			continue
		}
		pl, err := c12DecodeMessage(ct, chunk)
		if err != nil {
			rep.RPCErr = "undecodable response message: " + err.Error()
			return rep
		}
		if rep.Payload == nil {
			rep.Payload = pl // the first message carries the request info
		}
		rep.Msgs++
	}
	if status != "0" {
		rep.RPCErr = "grpc-status " + strconv.Quote(status)
		if status == "" {
			rep.RPCErr += fmt.Sprintf(" (content-type %q, %d body bytes, %d left over, trailer %v)", ct, len(data), len(rest), resp.Trailer)
		}
	}
	return rep
}

// send builds and performs one request on the node.
func (n *c12Node) send(r *c12Request) *c12Reply {
	rt, err := n.transport(r.Actual.Ver)
	if err != nil {
		return &c12Reply{Err: "transport setup: " + err.Error()}
	}
	ctx, cancel := context.WithTimeout(context.Background(), 120*time.Second)
	defer cancel()
	req, err := c12Build(ctx, n.srv, n.addr, r)
	if err != nil {
		return &c12Reply{Err: "build: " + err.Error()}
	}
	if n.env != nil {
		n.env.planned(r)
		n.env.initTrace(r)
	}
	return c12Do(rt, req, r.Actual.Protocol)
}

// ---------------------------------------------------------------------------
// common run frame

type c12Env struct {
	res     *simwork.Result
	tape    *simrt.Tape
	srv     c12Server
	node    *c12Node
	printer *c12Printer
	cover   map[string]bool
	simMu   sync.Mutex
	trace   *tracer.Tracer
	traced  map[string]bool
}

// initTrace does what the runner does before a test case is sent.
func (e *c12Env) initTrace(r *c12Request) {
	if e.trace == nil {
		return
	}
	e.simMu.Lock()
	defer e.simMu.Unlock()
	if r.Name != "" {
		e.trace.Init(r.Name)
		e.traced[r.Name] = true
	}
	if r.Actual.Method == http.MethodGet {
		e.res.Probes["connect-get-with-tracer"]++
	}
	if r.Actual.Stream != "" {
		e.res.Probes["stream-with-tracer"]++
	}
}

func (e *c12Env) violate(class, format string, args ...any) {
	e.res.Violations = append(e.res.Violations, simwork.Violation{Class: class, Detail: fmt.Sprintf(format, args...)})
}

func (e *c12Env) coverKey(k string) { e.cover[k] = true }

// c12Frame starts the instance, runs body, shuts everything down.
func c12Frame(t *testing.T, tape *simrt.Tape, body func(e *c12Env)) *simwork.Result {
	res := &simwork.Result{Faults: map[string]int{}, Probes: map[string]int{}}
	simrt.Bump()
	// x/net/http2 and net/http keep package-level sync.Pools of channels
	// (errChanPool); a channel made in one bubble must not be used in the
	// next one. Two collections empty every sync.Pool (primary, then victim).
	runtime.GC()
	runtime.GC()
	env := &c12Env{res: res, tape: tape, cover: map[string]bool{}}
	netMark := verifNetStart()
	p := simwork.Bubble(t, func(t *testing.T) {
		defer func() {
			if r := recover(); r != nil {
				env.violate("c12/panic", "panic in the run: %v", r)
			}
		}()
		defer simnet.CloseAll() // runs last: no connection goroutine outlives the run
		simnet.Reset()
		simnet.Configure(simnet.Config{Seed: uint64(tape.Choose(1<<20, "netseed")), MaxSegment: 2048, SmallPermil: 250, MaxLatency: 500 * time.Microsecond})
		env.srv = c12DrawServer(tape)
		env.printer = newC12Printer()
		if env.srv.Tracer {
			env.trace = &tracer.Tracer{}
			env.traced = map[string]bool{}
			res.Probes["server-with-tracer"]++
		}
		server, err := c12StartServer(env.srv, env.printer, env.trace)
		if err != nil {
			res.Invalid = append(res.Invalid, "createServer: "+err.Error())
			return
		}
		go func() { _ = server.Serve() }()
		env.node = &c12Node{srv: env.srv, addr: server.Addr(), clients: map[int]http.RoundTripper{}, env: env}
		defer func() {
			env.node.close()
			_ = server.GracefulShutdown(time.Second)
			names := make([]string, 0, len(env.traced))
			for n := range env.traced {
				names = append(names, n)
			}
			sort.Strings(names)
			for _, n := range names {
				env.trace.Clear(n)
			}
		}()
		body(env)
		res.End = "done"
	})
	verifNetFaults(res, netMark)
	if p != nil {
		res.Violations = append(res.Violations, simwork.Violation{Class: "c12/panic", Detail: fmt.Sprintf("bubble: %v", p)})
		if res.End == "" {
			res.End = "panic"
		}
	}
	for k := range env.cover {
		res.Cover = append(res.Cover, k)
	}
	sort.Strings(res.Cover)
	return res
}

func c12Hash(v any) uint64 {
	data, _ := json.Marshal(v)
	h := fnv.New64a()
	_, _ = h.Write(data)
	return h.Sum64()
}

// settle lets the server side finish what follows the response (the trailer
// check runs after the inner handler returned): simulated time, free.
func c12Settle() { time.Sleep(50 * time.Millisecond) }

// planned adds the scripted part of the simulated time of a request (settle +
// response delay). The exact fake-clock time of a run also contains network
// latencies whose sum depends on goroutine interleaving inside the HTTP stacks,
// so it is not reported.
func (e *c12Env) planned(r *c12Request) {
	e.simMu.Lock()
	defer e.simMu.Unlock()
	e.res.SimTime += 50*time.Millisecond + time.Duration(r.Actual.DelayMs)*time.Millisecond
}

// ---------------------------------------------------------------------------
// scenario c12-matrix

type c12Step struct {
	Kind     string       `json:"kind"`
	Requests []c12Request `json:"requests"`
	Devs     []string     `json:"deviating_aspects,omitempty"`
	Required int          `json:"required_lines"`
	Lines    int          `json:"lines_seen"`
	Reply    string       `json:"reply,omitempty"`
}

type c12MatrixSample struct {
	Server c12Server `json:"server"`
	Steps  []c12Step `json:"steps"`
}

var c12Aspects = []string{"http-version", "method", "protocol", "codec", "compression", "tls", "client-cert"}

// deviate changes the expectation for one aspect so that it no longer matches.
func c12Deviate(tape *simrt.Tape, aspect string, a c12Actual, e *c12Expect) {
	other := func(n, actual int, label string) int { // value in 1..n different from actual
		v := 1 + tape.Choose(n-1, label)
		if v >= actual {
			v++
		}
		return v
	}
	switch aspect {
	case "http-version":
		e.Ver = other(3, a.Ver, "expect-version")
	case "method":
		if a.Method == http.MethodGet {
			e.Method = http.MethodPost
		} else {
			e.Method = http.MethodGet
		}
	case "protocol":
		e.Protocol = other(3, a.Protocol, "expect-protocol")
	case "codec":
		e.Codec = 3 - a.Codec
	case "compression":
		e.Compression = other(6, a.Compression, "expect-compression")
	case "tls":
		e.TLS = !e.TLS
	case "client-cert":
		e.Cert = !e.Cert
	}
}

// c12NoteShape counts the streaming shapes that were really sent.
func c12NoteShape(e *c12Env, a c12Actual) {
	if a.Stream == "" {
		return
	}
	e.res.Probes["stream-"+a.Stream]++
	if a.Ver == 1 {
		e.res.Probes["stream-"+a.Stream+"-http1"]++
	}
	if a.Protocol == 1 {
		e.res.Probes["connect-stream"]++
		if a.Compression != 1 {
			e.res.Probes["connect-stream-compressed"]++
		}
	}
	if a.PlainLast {
		e.res.Probes["stream-uncompressed-message-under-encoding-header"]++
	}
	e.coverKey(fmt.Sprintf("stream:%s:srv=%s:ver=%d:p%d", a.Stream, e.srv, a.Ver, a.Protocol))
}

func c12MatrixRun(t *testing.T, tape *simrt.Tape, o simwork.Opts) *simwork.Result {
	sample := &c12MatrixSample{}
	res := c12Frame(t, tape, func(e *c12Env) {
		sample.Server = e.srv
		e.coverKey("server:" + e.srv.String())
		nsteps := 1 + tape.Choose(3, "steps")
		var usedNames []string
		nameSeq := 0
		fresh := func() string {
			nameSeq++
			switch tape.Choose(6, "name-kind") {
			case 0:
				// a name is data, never a format
				return fmt.Sprintf("C12 Suite/deadline at 50%%/case-%d", nameSeq)
			case 1:
				return fmt.Sprintf("C12 Suite/%%s %%d %%v/case-%d", nameSeq)
			}
			return fmt.Sprintf("C12 Suite/case-%d", nameSeq)
		}
		for si := 0; si < nsteps; si++ {
			kindDraw := tape.Choose(10, "step-kind")
			kind := "single"
			switch kindDraw {
			case 6:
				kind = "repeat-sequential"
			case 7:
				kind = "repeat-concurrent"
			case 8:
				kind = "trailers"
			case 9:
				kind = "no-test-name"
			}
			if kind == "trailers" && e.srv.Ver == 3 {
				kind = "single" // no request trailers with the HTTP/3 client
			}
			step := c12Step{Kind: kind}
			a := c12DrawActual(tape, e.srv, kind != "trailers")
			exp := c12Matching(e.srv, a)
			name := fresh()
			required := 0
			switch kind {
			case "single":
				ndev := tape.Choose(3, "deviations")
				avail := c12Aspects
				if !e.srv.TLS {
					avail = c12Aspects[:6] // a client certificate needs TLS
				}
				picked := map[string]bool{}
				for len(step.Devs) < ndev {
					i := tape.Choose(len(avail), "aspect")
					for picked[avail[i]] {
						i = (i + 1) % len(avail)
					}
					picked[avail[i]] = true
					step.Devs = append(step.Devs, avail[i])
				}
				sort.Strings(step.Devs)
				for _, d := range step.Devs {
					c12Deviate(tape, d, a, &exp)
				}
				required = len(step.Devs)
				if picked["tls"] && picked["client-cert"] {
					required-- // the certificate is only compared when the TLS use matches
				}
				if required > 1 && !c12StrictPerAspect {
					required = 1
				}
			case "repeat-sequential":
				if len(usedNames) > 0 {
					name = usedNames[tape.Choose(len(usedNames), "repeat-which")]
				} else {
					// first a conforming request, then the repeat
					first := c12Request{Name: name, Actual: a, Expect: exp, Data: "first"}
					before, allBefore := e.printer.count(name)
					rep := e.node.send(&first)
					c12Settle()
					after, allAfter := e.printer.count(name)
					if rep.Err != "" {
						e.violate("c12/request-failed", "server %s: conforming request %+v failed: %s", e.srv, a, rep)
					}
					if after != before || allAfter != allBefore {
						e.violate("c12/spurious-feedback", "server %s: conforming request (actual %+v, expect %+v) got feedback: %s", e.srv, a, exp, e.printer.tail(allBefore))
					}
					step.Requests = append(step.Requests, first)
					usedNames = append(usedNames, name)
					a = c12DrawActual(tape, e.srv, true)
					exp = c12Matching(e.srv, a)
				}
				required = 1
			case "trailers":
				if a.Ver == 3 {
					a.Ver = e.srv.actualVersions()[0]
				}
				a.Method = http.MethodPost
				a.Trailers = true
				required = 1
			case "repeat-concurrent":
				required = 1
			}

			before, allBefore := e.printer.count(name)
			switch kind {
			case "repeat-concurrent":
				a.DelayMs = uint32(100 + tape.Choose(200, "first-delay"))
				gap := time.Duration(10+tape.Choose(50, "gap")) * time.Millisecond
				b := c12DrawActual(tape, e.srv, true)
				r1 := c12Request{Name: name, Actual: a, Expect: exp, Data: "one"}
				r2 := c12Request{Name: name, Actual: b, Expect: c12Matching(e.srv, b), Data: "two"}
				step.Requests = append(step.Requests, r1, r2)
				done := make(chan *c12Reply, 2)
				var t1, t2 time.Time
				go func() { rep := e.node.send(&r1); t1 = time.Now(); done <- rep }()
				time.Sleep(gap)
				sent2 := time.Now()
				go func() { rep := e.node.send(&r2); t2 = time.Now(); done <- rep }()
				repA, repB := <-done, <-done
				c12Settle()
				for _, rep := range []*c12Reply{repA, repB} {
					if rep.Err != "" || rep.RPCErr != "" {
						e.violate("c12/request-failed", "server %s: one of two concurrent conforming requests failed: %s", e.srv, rep)
					}
				}
				if t1.After(sent2) {
					e.res.Probes["overlapping-same-name"]++
				}
				_ = t2
				step.Reply = repA.String() + " / " + repB.String()
			case "no-test-name":
				r := c12Request{Name: "", Actual: a, Expect: exp, Data: "anon", BlankName: tape.Bool(1, 3, "blank-name-header")}
				if r.BlankName {
					e.res.Probes["blank-test-name-header"]++
				}
				step.Requests = append(step.Requests, r)
				_, linesBefore := e.printer.count("")
				rep := e.node.send(&r)
				c12Settle()
				if _, linesAfter := e.printer.count(""); linesAfter != linesBefore {
					e.violate("c12/no-test-name-feedback", "server %s: a request that names no test (%+v, blank header: %v) produced feedback lines: %s", e.srv, a, r.BlankName, e.printer.tail(linesBefore))
				}
				step.Reply = rep.String()
				switch {
				case rep.Err != "":
					e.violate("c12/request-failed", "server %s: request without test name (%+v) failed at transport level: %s", e.srv, a, rep)
				case rep.Payload != nil:
					e.violate("c12/no-test-name-not-rejected", "server %s: request without x-test-case-name (%+v) reached the inner handler: %s", e.srv, a, rep)
				case rep.RPCErr == "":
					e.violate("c12/no-test-name-not-rejected", "server %s: request without x-test-case-name (%+v) was answered without an error: %s", e.srv, a, rep)
				}
				e.res.Probes["no-test-name"]++
			default:
				r := c12Request{Name: name, Actual: a, Expect: exp, Data: "data"}
				step.Requests = append(step.Requests, r)
				rep := e.node.send(&r)
				c12Settle()
				step.Reply = rep.String()
				if rep.Err != "" {
					e.violate("c12/request-failed", "server %s: request (actual %+v) failed at transport level: %s", e.srv, a, rep)
				}
				if rep.Err == "" && rep.Proto != a.Ver {
					e.violate("c12/harness", "response came over HTTP/%d, the client node meant to use HTTP/%d", rep.Proto, a.Ver)
				}
				if rep.Err == "" && (rep.RPCErr != "" || rep.Payload == nil || string(rep.Payload.GetData()) != "data" || rep.Msgs != 1) {
					e.violate("c12/request-failed", "server %s: well-formed RPC (actual %+v) did not complete with its one response message: %s", e.srv, a, rep)
				}
			}
			for _, r := range step.Requests {
				c12NoteShape(e, r.Actual)
			}
			after, allAfter := e.printer.count(name)
			delta := after - before
			step.Required, step.Lines = required, delta
			if kind != "no-test-name" {
				usedNames = append(usedNames, name)
			}

			// oracle
			desc := fmt.Sprintf("server %s, step %d (%s), test %q, actual %+v, expect %+v, deviating %v", e.srv, si, kind, name, a, exp, step.Devs)
			if (allAfter - allBefore) != delta {
				e.violate("c12/spurious-feedback", "%s: feedback not attributable to the test name: %s", desc, e.printer.tail(allBefore))
			}
			switch {
			case required == 0 && delta != 0:
				e.violate("c12/spurious-feedback", "%s: nothing deviates but feedback was reported: %s", desc, e.printer.tail(allBefore))
			case required > 0 && delta == 0:
				e.violate("c12/missing-feedback", "%s: no feedback line for the test name", desc)
			case delta < required:
				e.violate("c12/missing-feedback", "%s: %d independently observable deviations but only %d feedback line(s): %s", desc, required, delta, e.printer.tail(allBefore))
			}
			if kind == "single" {
				e.res.Probes[fmt.Sprintf("deviations=%d:lines=%d", len(step.Devs), delta)]++
				e.coverKey("dev:" + strings.Join(step.Devs, "+"))
				for _, d := range step.Devs {
					e.coverKey(fmt.Sprintf("cell:%s:srv=%s:ver=%d:%s%s:p%d", d, e.srv, a.Ver, a.Method, a.Stream, a.Protocol))
				}
			} else {
				e.res.Probes[kind]++
			}
			e.coverKey(fmt.Sprintf("actual:v%d:%s%s:p%d:c%d:z%d", a.Ver, a.Method, a.Stream, a.Protocol, a.Codec, a.Compression))
			sample.Steps = append(sample.Steps, step)
		}
		// at the end: names whose requests all conformed must still be silent
		// (checked step by step above through the total line count)
	})
	res.Sample = sample
	shape := []any{sample.Server}
	for _, st := range sample.Steps {
		shape = append(shape, st.Kind, st.Requests, st.Devs)
	}
	res.LogHash = c12Hash(shape)
	res.Steps = len(sample.Steps)
	res.Nontrivial = len(sample.Steps) > 0
	return res
}

// ---------------------------------------------------------------------------
// scenario c12-timeout

// c12Verdict is the independent evaluation of a timeout header value.
type c12Verdict struct {
	Accept bool  `json:"accept"`
	Open   bool  `json:"open,omitempty"` // the statement leaves it open: both behaviours are fine
	Ms     int64 `json:"timeout_ms"`     // when accepted
}

var (
	c12MaxDuration = big.NewInt(int64(^uint64(0) >> 1)) // maximum time.Duration, nanoseconds
	c12UnitNanos   = map[byte]*big.Int{
		'H': big.NewInt(3600 * 1000000000),
		'M': big.NewInt(60 * 1000000000),
		'S': big.NewInt(1000000000),
		'm': big.NewInt(1000000),
		'u': big.NewInt(1000),
		'n': big.NewInt(1),
	}
)

func c12AllDigits(s string) bool {
	if s == "" {
		return false
	}
	for i := 0; i < len(s); i++ {
		if s[i] < '0' || s[i] > '9' {
			return false
		}
	}
	return true
}

// c12EvalStrict evaluates the value exactly as it stands.
// gRPC (PROTOCOL-HTTP2.md): Timeout -> "grpc-timeout" TimeoutValue TimeoutUnit,
// TimeoutValue -> {positive integer as ASCII string of at most 8 digits},
// TimeoutUnit -> H / M / S / m / u / n.
// Connect: Connect-Timeout-Ms -> {positive integer as ASCII string of at most 10 digits}.
// The duration is value x unit, saturating at the maximum time.Duration; the
// echoed quantity is that duration in whole milliseconds.
func c12EvalStrict(protocol int, s string) c12Verdict {
	digits, unit := s, big.NewInt(1000000)
	maxDigits := 10
	if protocol != 1 {
		maxDigits = 8
		if s == "" {
			return c12Verdict{}
		}
		u, ok := c12UnitNanos[s[len(s)-1]]
		if !ok {
			return c12Verdict{}
		}
		digits, unit = s[:len(s)-1], u
	}
	if !c12AllDigits(digits) || len(digits) > maxDigits {
		return c12Verdict{}
	}
	v, _ := new(big.Int).SetString(digits, 10)
	ns := new(big.Int).Mul(v, unit)
	if ns.Cmp(c12MaxDuration) > 0 {
		ns = c12MaxDuration
	}
	ms := new(big.Int).Quo(ns, big.NewInt(1000000))
	out := c12Verdict{Accept: true, Ms: ms.Int64()}
	if v.Sign() == 0 {
		out.Open = true // "positive integer": whether zero is one is left open
	}
	return out
}

// c12Eval additionally leaves open whether surrounding optional whitespace is
// part of the value (HTTP/1.1 strips it, HTTP/2 and HTTP/3 carry it through).
func c12Eval(protocol int, s string) c12Verdict {
	strict := c12EvalStrict(protocol, s)
	trimmed := strings.Trim(s, " \t")
	if trimmed == s {
		return strict
	}
	alt := c12EvalStrict(protocol, trimmed)
	if alt.Accept == strict.Accept {
		return strict
	}
	alt.Open = true
	return alt
}

// c12DefectShape classifies the two reported lenient shapes.
func c12DefectShape(protocol int, s string) (signed, overlong bool) {
	num := s
	maxDigits := 10
	if protocol != 1 {
		maxDigits = 8
		if s == "" {
			return false, false
		}
		if _, ok := c12UnitNanos[s[len(s)-1]]; !ok {
			return false, false
		}
		num = s[:len(s)-1]
	}
	if num == "" {
		return false, false
	}
	if num[0] == '+' || num[0] == '-' {
		rest := num[1:]
		if !c12AllDigits(rest) {
			return false, false
		}
		if num[0] == '-' && strings.Trim(rest, "0") != "" {
			return false, false // really negative: rejected by the server as well
		}
		signed = true
		num = rest
	}
	if c12AllDigits(num) && len(num) > maxDigits && len(strings.TrimLeft(num, "0")) <= maxDigits {
		overlong = true
	}
	return signed, overlong
}

const c12DigitChars = "0123456789"
const c12Units = "mSMHun"

func c12RandDigits(tape *simrt.Tape, n int, style int) string {
	b := make([]byte, n)
	for i := range b {
		switch style {
		case 1:
			b[i] = '9'
		case 2:
			b[i] = '0'
			if i == 0 {
				b[i] = '1'
			}
		case 3: // leading zeros, then digits
			b[i] = '0'
			if i >= n/2 {
				b[i] = c12DigitChars[tape.Choose(10, "digit")]
			}
		default:
			b[i] = c12DigitChars[tape.Choose(10, "digit")]
			if i == 0 && b[i] == '0' {
				b[i] = '1'
			}
		}
	}
	return string(b)
}

var c12GarbageGRPC = []string{"", "+5S", "5s", "5", "S", "1.5S", "-1S", "-0S", "5 S", "5SS", "0x5S", "1_0S", "1e3S", "S5", "HS", "5h", "5U", "5µ", "12345678901234567", "12345678901234567S", "99999999999999999999S", "5S5", "5.S", "5,0S", "١S", "5 m", "mS", "+0n", "--5S", "5\tS"}
var c12GarbageConnect = []string{"", "+5", "5m", "5S", "-1", "-0", "1.5", "5 0", "0x10", "1_000", "1e3", "12345678901", "12345678901234567", "99999999999999999999", "5.", "٥", "ms", "+0", "--5", "5,0", "1 ", "n"}

// c12GenTimeout draws a header value (nil = header absent).
func c12GenTimeout(tape *simrt.Tape, protocol int) (*string, string) {
	maxDigits := 10
	if protocol != 1 {
		maxDigits = 8
	}
	unit := func() string {
		if protocol == 1 {
			tape.Choose(1, "unit")
			return ""
		}
		return string(c12Units[tape.Choose(len(c12Units), "unit")])
	}
	kind := tape.Choose(9, "timeout-kind")
	var s string
	label := ""
	switch kind {
	case 0: // short and valid (shorter than the response delay)
		label = "short"
		v := 1 + tape.Choose(60, "short-value")
		u := unit()
		switch u {
		case "S", "M", "H":
			u = "m"
		case "u":
			v *= 1000
		case "n":
			v *= 1000000
		}
		s = strconv.Itoa(v) + u
	case 1: // valid, any length
		label = "valid"
		s = c12RandDigits(tape, 1+tape.Choose(maxDigits, "ndigits"), 0) + unit()
	case 2: // dense at the digit-count boundary
		label = "boundary"
		n := maxDigits - 1 + tape.Choose(3, "boundary-len")
		s = c12RandDigits(tape, n, tape.Choose(4, "digit-style")) + unit()
	case 3: // overflow region
		label = "overflow"
		if protocol == 1 {
			s = c12RandDigits(tape, maxDigits, tape.Choose(2, "digit-style"))
		} else {
			var v int
			switch tape.Choose(4, "overflow-style") {
			case 0:
				v = 1 + tape.Choose(99999999, "hours")
			case 1:
				v = 2562047 - 3 + tape.Choose(7, "hours-near-limit")
			case 2:
				v = 99999999 - tape.Choose(3, "hours-top")
			default:
				v = (1 + tape.Choose(38, "window")) * 2562048
				v += tape.Choose(5, "window-offset") - 2
				if v > 99999999 {
					v = 99999999
				}
			}
			u := "H"
			if tape.Bool(1, 6, "overflow-other-unit") {
				u = "M"
			}
			s = strconv.Itoa(v) + u
		}
	case 4:
		label = "garbage"
		if protocol == 1 {
			s = c12GarbageConnect[tape.Choose(len(c12GarbageConnect), "garbage")]
		} else {
			s = c12GarbageGRPC[tape.Choose(len(c12GarbageGRPC), "garbage")]
		}
	case 5: // random characters, up to 12
		label = "random"
		const alphabet = "0123456789HMSmun+-. sx0123456789"
		n := tape.Choose(13, "random-len")
		b := make([]byte, n)
		for i := range b {
			b[i] = alphabet[tape.Choose(len(alphabet), "char")]
		}
		s = string(b)
	case 6: // one edit on a valid value
		label = "mutated"
		base := c12RandDigits(tape, 1+tape.Choose(maxDigits, "ndigits"), 0)
		u := unit()
		switch tape.Choose(8, "edit") {
		case 0:
			s = "+" + base + u
		case 1:
			s = "-" + base + u
		case 2:
			s = base + strings.ToUpper(u) + strings.ToLower(u)
		case 3:
			s = base + " " + u
		case 4:
			s = " " + base + u
		case 5:
			s = base + u + " "
		case 6:
			s = "0" + base + u
		default:
			s = base[:len(base)/2] + "." + base[len(base)/2:] + u
		}
	case 7: // zero
		label = "zero"
		s = strings.Repeat("0", 1+tape.Choose(maxDigits, "zeros")) + unit()
	default:
		return nil, "absent"
	}
	signed, overlong := c12DefectShape(protocol, strings.Trim(s, " \t"))
	if (signed && !c12GenSignedNumber) || (overlong && !c12GenOverlongZeros) {
		// reported defect: keep the rest of the space checked
		s = strings.TrimLeft(strings.Trim(s, " \t"), "+-0")
		if s == "" || !c12AllDigits(s[:1]) {
			s = "7" + s
		}
		label += "(guarded)"
	}
	// only bytes a Go HTTP client sends as a header value
	for i := 0; i < len(s); i++ {
		if s[i] < 0x20 && s[i] != '\t' || s[i] == 0x7f {
			s = "5?"
			break
		}
	}
	return &s, label
}

type c12TimeoutCase struct {
	Request c12Request `json:"request"`
	Devs    []string   `json:"deviating_aspects,omitempty"`
	DevMin  int        `json:"lines_required_for_deviation"`
	Kind    string     `json:"kind"`
	Verdict c12Verdict `json:"verdict"`
	Lines   int        `json:"lines_seen"`
	Reply   string     `json:"reply"`
	Echo    *int64     `json:"echoed_timeout_ms,omitempty"`
}

type c12TimeoutSample struct {
	Server c12Server        `json:"server"`
	Cases  []c12TimeoutCase `json:"cases"`
}

func c12TimeoutRun(t *testing.T, tape *simrt.Tape, o simwork.Opts) *simwork.Result {
	sample := &c12TimeoutSample{}
	res := c12Frame(t, tape, func(e *c12Env) {
		sample.Server = e.srv
		e.coverKey("server:" + e.srv.String())
		ncases := 1 + tape.Choose(3, "cases")
		for ci := 0; ci < ncases; ci++ {
			a := c12Actual{Method: http.MethodPost, Codec: 1, Compression: 1}
			vers := e.srv.actualVersions()
			a.Ver = vers[0]
			a.Protocol = 1 + tape.Choose(3, "protocol")
			if tape.Bool(1, 5, "json") {
				a.Codec = 2
			}
			if tape.Bool(1, 5, "compressed") {
				a.Compression = 2 + tape.Choose(5, "compression")
			}
			hdr, kind := c12GenTimeout(tape, a.Protocol)
			var verdict c12Verdict
			if hdr != nil {
				verdict = c12Eval(a.Protocol, *hdr)
			}
			// response delay: longer than a short accepted timeout, so that an
			// enforced timeout would be seen
			longer := tape.Bool(3, 4, "delay-exceeds-timeout")
			extra := 1 + tape.Choose(50, "delay-extra")
			if hdr != nil && verdict.Accept && verdict.Ms < 2000 && longer {
				a.DelayMs = uint32(verdict.Ms) + uint32(extra)
			} else {
				a.DelayMs = uint32(extra % 8)
			}
			// independently of the timeout: 0-1 deviating aspect of the matrix and,
			// for gRPC, the missing 'te: trailers'
			exp := c12Matching(e.srv, a)
			var devs []string
			kDev := 0
			deviate := tape.Bool(1, 3, "with-deviation")
			aspectDraw := tape.Choose(len(c12Aspects), "aspect")
			noTE := tape.Bool(1, 4, "without-te-trailers")
			if deviate {
				aspect := c12Aspects[aspectDraw]
				if aspect == "client-cert" && !e.srv.TLS {
					aspect = "tls"
				}
				if aspect == "protocol" && !c12GenTimeoutCrossFamily {
					if a.Protocol == 1 {
						aspect = "codec" // no other protocol uses Connect-Timeout-Ms
					} else {
						exp.Protocol = 5 - a.Protocol // gRPC <-> gRPC-Web: same Grpc-Timeout header
						tape.Choose(1, "expect-protocol")
						devs = append(devs, aspect)
						aspect = ""
					}
				}
				if aspect != "" {
					c12Deviate(tape, aspect, a, &exp)
					devs = append(devs, aspect)
				}
				kDev++
				e.res.Probes["timeout-with-deviation"]++
				if exp.Protocol != a.Protocol && (exp.Protocol == 1) != (a.Protocol == 1) {
					e.res.Probes["timeout-with-cross-family-protocol-deviation"]++
				}
			}
			if noTE && a.Protocol == 2 {
				a.NoTE = true
				e.res.Probes["grpc-without-te-trailers"]++
				if exp.Protocol == 2 {
					kDev++ // flagged when the protocol itself matches
				}
				devs = append(devs, "te-trailers")
			}
			name := fmt.Sprintf("C12 Timeout/case-%d", ci+1)
			r := c12Request{Name: name, Actual: a, Expect: exp, Timeout: hdr, Data: "payload"}
			before, allBefore := e.printer.count(name)
			started := time.Now()
			rep := e.node.send(&r)
			elapsed := time.Since(started)
			c12Settle()
			after, allAfter := e.printer.count(name)
			delta := after - before
			tc := c12TimeoutCase{Request: r, Devs: devs, DevMin: kDev, Kind: kind, Verdict: verdict, Lines: delta, Reply: rep.String()}
			shown := "<absent>"
			if hdr != nil {
				shown = strconv.Quote(*hdr)
			}
			desc := fmt.Sprintf("server %s, protocol %d, timeout header %s (%s), response delay %d ms", e.srv, a.Protocol, shown, kind, a.DelayMs)
			if len(devs) > 0 {
				desc += fmt.Sprintf(", also deviating %v (expect %+v; >= %d line(s) for that)", devs, exp, kDev)
			}
			// the deviation clause, as in c12-matrix
			if delta < kDev {
				e.violate("c12/missing-feedback", "%s: only %d feedback line(s): %s", desc, delta, e.printer.tail(allBefore))
			}
			if allAfter-allBefore != delta {
				e.violate("c12/spurious-feedback", "%s: feedback not attributable to the test name: %s", desc, e.printer.tail(allBefore))
			}
			var echo *int64
			headerEchoed := false
			if rep.Payload != nil && rep.Payload.GetRequestInfo() != nil {
				echo = rep.Payload.GetRequestInfo().TimeoutMs
				for _, h := range rep.Payload.GetRequestInfo().GetRequestHeaders() {
					if strings.EqualFold(h.GetName(), "connect-timeout-ms") || strings.EqualFold(h.GetName(), "grpc-timeout") {
						headerEchoed = true
					}
				}
			}
			tc.Echo = echo
			completed := rep.Err == "" && rep.RPCErr == "" && rep.Payload != nil && string(rep.Payload.GetData()) == "payload"

			checkAccepted := func() {
				if !completed {
					if int64(a.DelayMs) > verdict.Ms {
						e.violate("c12/timeout-enforced", "%s: the request did not complete normally although the server must not enforce the timeout: %s", desc, rep)
					} else {
						e.violate("c12/request-failed", "%s: the request did not complete normally: %s", desc, rep)
					}
					return
				}
				if elapsed < time.Duration(a.DelayMs)*time.Millisecond {
					e.violate("c12/timeout-enforced", "%s: answered after %s, before the response delay", desc, elapsed)
				}
				if echo == nil {
					e.violate("c12/timeout-value", "%s: accepted timeout (%d ms) is not echoed in the request info", desc, verdict.Ms)
				} else if *echo != verdict.Ms {
					e.violate("c12/timeout-value", "%s: echoed timeout_ms = %d, exact value is %d", desc, *echo, verdict.Ms)
				}
				if headerEchoed {
					e.violate("c12/timeout-not-removed", "%s: the timeout header is still among the request headers seen by the handler", desc)
				}
			}
			switch {
			case rep.Err != "":
				e.violate("c12/request-failed", "%s: transport-level failure: %s", desc, rep)
			case hdr == nil:
				if delta != 0 && kDev == 0 {
					e.violate("c12/spurious-feedback", "%s: feedback without a timeout header: %s", desc, e.printer.tail(allBefore))
				}
				if echo != nil {
					e.violate("c12/timeout-value", "%s: timeout_ms = %d echoed although no timeout was sent", desc, *echo)
				}
				if !completed {
					e.violate("c12/request-failed", "%s: did not complete: %s", desc, rep)
				}
				e.res.Probes["timeout-absent"]++
			case verdict.Open:
				e.res.Probes["timeout-open"]++
				switch {
				case kDev == 0 && delta > 0, kDev > 0 && echo == nil && completed:
					// treated as rejected
					if echo != nil {
						e.violate("c12/timeout-accepted", "%s: feedback reported AND timeout_ms = %d echoed", desc, *echo)
					}
					if delta < kDev+1 {
						e.violate("c12/timeout-accepted", "%s: no timeout echoed, but only %d feedback line(s), not one more than the deviation needs: %s", desc, delta, e.printer.tail(allBefore))
					}
				default:
					checkAccepted()
				}
			case verdict.Accept:
				e.res.Probes["timeout-accepted"]++
				if delta != 0 && kDev == 0 {
					e.violate("c12/timeout-rejected", "%s: the value follows the grammar (= %d ms) but feedback was reported: %s", desc, verdict.Ms, e.printer.tail(allBefore))
				}
				checkAccepted()
				if verdict.Ms == c12MaxDuration.Int64()/1000000 {
					e.res.Probes["timeout-saturated"]++
				}
				if int64(a.DelayMs) > verdict.Ms {
					e.res.Probes["timeout-shorter-than-delay"]++
				}
			default:
				e.res.Probes["timeout-rejected"]++
				if delta < kDev+1 {
					e.violate("c12/timeout-accepted", "%s: the value does not follow the grammar but no feedback line was reported for it (%d line(s) in all; echoed timeout_ms: %s): %s", desc, delta, c12ShowEcho(echo), e.printer.tail(allBefore))
				}
				if echo != nil {
					e.violate("c12/timeout-accepted", "%s: the value does not follow the grammar but timeout_ms = %d is echoed", desc, *echo)
				}
			}
			e.coverKey(fmt.Sprintf("timeout:p%d:%s:accept=%v:open=%v", a.Protocol, kind, verdict.Accept, verdict.Open))
			if trimmed := strings.Trim(c12ShowHeader(hdr), " \t"); a.Protocol != 1 && verdict.Accept && trimmed != "" {
				e.coverKey("unit:" + trimmed[len(trimmed)-1:])
			}
			sample.Cases = append(sample.Cases, tc)
		}
	})
	res.Sample = sample
	shape := []any{sample.Server}
	for _, tc := range sample.Cases {
		shape = append(shape, tc.Kind, tc.Request, tc.Devs)
	}
	res.LogHash = c12Hash(shape)
	res.Steps = len(sample.Cases)
	res.Nontrivial = len(sample.Cases) > 0
	return res
}

func c12ShowHeader(h *string) string {
	if h == nil {
		return ""
	}
	return *h
}

func c12ShowEcho(e *int64) string {
	if e == nil {
		return "none"
	}
	return strconv.FormatInt(*e, 10)
}
