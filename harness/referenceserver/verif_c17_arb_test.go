//go:build verif

package referenceserver

// c17-arbitration: rawResponder / rawResponseWriter driven directly, in every
// sequential order of "raw response chosen" and "normal response started":
// either only the raw response reaches the inner writer, or only the normal
// one (and the raw response is refused) - never a mix.

import (
	"bytes"
	"encoding/json"
	"errors"
	"fmt"
	"net/http"
	"net/http/httptest"
	"sort"
	"strings"
	"testing"

	conformancev1 "connectrpc.com/conformance/internal/gen/proto/go/connectrpc/conformance/v1"
	"connectrpc.com/conformance/internal/verifsim/simrt"
	"connectrpc.com/conformance/internal/verifsim/simwork"
)

func init() { verifScenarios["c17-arbitration"] = c17ArbitrationRun }

type c17ArbOp struct {
	Kind  int // 0 choose raw response, 1 set header, 2 WriteHeader, 3 Write, 4 Flush
	Name  string
	Value string
	Code  int
	Data  []byte
}

type c17ArbEvent struct {
	Kind string // "WriteHeader", "Write", "Flush"
	Code int
	Data []byte
}

type c17ArbInner struct {
	hdr       http.Header
	events    []c17ArbEvent
	atHeaders http.Header // header map when the status went out
}

func (w *c17ArbInner) Header() http.Header { return w.hdr }
func (w *c17ArbInner) WriteHeader(code int) {
	if w.atHeaders == nil {
		w.atHeaders = w.hdr.Clone()
	}
	w.events = append(w.events, c17ArbEvent{Kind: "WriteHeader", Code: code})
}
func (w *c17ArbInner) Write(p []byte) (int, error) {
	if w.atHeaders == nil {
		w.atHeaders = w.hdr.Clone()
	}
	w.events = append(w.events, c17ArbEvent{Kind: "Write", Data: append([]byte{}, p...)})
	return len(p), nil
}
func (w *c17ArbInner) Flush() { w.events = append(w.events, c17ArbEvent{Kind: "Flush"}) }

func c17DescribeEvents(evs []c17ArbEvent) string {
	var parts []string
	for _, e := range evs {
		switch e.Kind {
		case "WriteHeader":
			parts = append(parts, fmt.Sprintf("WriteHeader(%d)", e.Code))
		case "Write":
			parts = append(parts, "Write("+c17Short(e.Data)+")")
		default:
			parts = append(parts, e.Kind)
		}
	}
	return "[" + strings.Join(parts, " ") + "]"
}

var c17ArbHandlerHeaders = []string{"X-Handler-Set", "Content-Type", "Grpc-Status", "X-Custom"}

func c17ArbitrationRun(t *testing.T, tape *simrt.Tape, o simwork.Opts) *simwork.Result {
	res := &simwork.Result{Faults: map[string]int{}, Probes: map[string]int{}, End: "done"}
	simrt.Bump()
	g := &c17Gen{tape: tape, thorough: o.Tier == "thorough", probes: res.Probes}

	// the raw response
	status := c17Statuses[tape.Choose(len(c17Statuses), "status")]
	// (the pool also has a name that middleware in front of the handler sets:
	// the raw values are added to what was there before the handler ran)
	headers := g.headers("header", append(append([]string(nil), c17RespHeaderPool...), "vary", "Vary"), map[string]bool{"Date": true}, map[string]bool{"Date": true})
	trailers := c17GenTrailers(g, nil)
	body := g.body("body")
	raw := &conformancev1.RawHTTPResponse{StatusCode: status, Headers: c17ProtoHeaders(headers), Trailers: c17ProtoHeaders(trailers)}
	switch body.Kind {
	case 1:
		raw.Body = &conformancev1.RawHTTPResponse_Unary{Unary: body.Unary.proto()}
	case 2:
		raw.Body = &conformancev1.RawHTTPResponse_Stream{Stream: body.stream()}
	}
	preset := tape.Bool(1, 2, "preset-header")

	// the handler's operations; the first one is usually the choice of the raw response
	nops := 1 + tape.Choose(6, "ops")
	var ops []c17ArbOp
	for i := 0; i < nops; i++ {
		l := fmt.Sprintf("op%d", i)
		op := c17ArbOp{Kind: tape.Choose(5, l+".kind")}
		switch op.Kind {
		case 1:
			op.Name = c17ArbHandlerHeaders[tape.Choose(len(c17ArbHandlerHeaders), l+".name")]
			op.Value = "set-by-handler"
		case 2:
			op.Code = []int{200, 500, 404, 204}[tape.Choose(4, l+".code")]
		case 3:
			op.Data = []byte(fmt.Sprintf("HANDLER-BYTES-%d", i))
		}
		ops = append(ops, op)
	}

	inner := &c17ArbInner{hdr: http.Header{}}
	if preset {
		inner.hdr.Set("Vary", "Origin")
	}
	var rawErrs []error
	var sawWriter bool
	var panicked any
	func() {
		defer func() { panicked = recover() }()
		handler := rawResponder(http.HandlerFunc(func(w http.ResponseWriter, r *http.Request) {
			_, sawWriter = w.(*rawResponseWriter)
			for _, op := range ops {
				switch op.Kind {
				case 0:
					rawErrs = append(rawErrs, setRawResponse(r.Context(), raw))
				case 1:
					w.Header().Set(op.Name, op.Value)
				case 2:
					w.WriteHeader(op.Code)
				case 3:
					_, _ = w.Write(op.Data)
				case 4:
					if f, ok := w.(http.Flusher); ok {
						f.Flush()
					}
				}
			}
		}))
		handler.ServeHTTP(inner, httptest.NewRequest(http.MethodPost, "/connectrpc.conformance.v1.ConformanceService/Unary", nil))
	}()
	if panicked != nil {
		c17AddViolation(res, "c17/panic", "rawResponder panicked: %v", panicked)
	}

	// model
	started, accepted := false, false
	var wantEvents []c17ArbEvent
	handlerSet := map[string]bool{}
	rawIdx := 0
	for _, op := range ops {
		switch op.Kind {
		case 0:
			var err error
			if rawIdx < len(rawErrs) {
				err = rawErrs[rawIdx]
			}
			rawIdx++
			if started {
				res.Probes["raw-after-normal-start"]++
				if !errors.Is(err, errNonRawResponseStarted) {
					c17AddViolation(res, "c17/arbitration", "raw response offered after the normal response had started: result %v, want refusal", err)
				}
			} else {
				accepted = true
				if err != nil {
					c17AddViolation(res, "c17/arbitration", "raw response offered before any normal write: refused with %v", err)
				}
			}
		case 1:
			handlerSet[op.Name] = true
		case 2:
			if !accepted {
				started = true
				wantEvents = append(wantEvents, c17ArbEvent{Kind: "WriteHeader", Code: op.Code})
			} else {
				res.Probes["normal-write-after-raw-chosen"]++
			}
		case 3:
			if !accepted {
				started = true
				wantEvents = append(wantEvents, c17ArbEvent{Kind: "Write", Data: op.Data})
			} else {
				res.Probes["normal-write-after-raw-chosen"]++
			}
		case 4:
			if !accepted {
				started = true
				wantEvents = append(wantEvents, c17ArbEvent{Kind: "Flush"})
			} else {
				res.Probes["normal-write-after-raw-chosen"]++
			}
		}
	}
	if !sawWriter && panicked == nil {
		res.Invalid = append(res.Invalid, "handler did not receive a *rawResponseWriter")
	}

	if panicked == nil && !accepted {
		// only the normal operations, unchanged and in order
		ok := len(inner.events) == len(wantEvents)
		for i := 0; ok && i < len(wantEvents); i++ {
			a, b := inner.events[i], wantEvents[i]
			ok = a.Kind == b.Kind && a.Code == b.Code && bytes.Equal(a.Data, b.Data)
		}
		if !ok {
			c17AddViolation(res, "c17/arbitration", "no raw response accepted: inner writer saw %s, the handler did %s", c17DescribeEvents(inner.events), c17DescribeEvents(wantEvents))
		}
	}
	if panicked == nil && accepted {
		res.Probes["raw-accepted"]++
		wantStatus := int(status)
		if wantStatus == 0 {
			wantStatus = 200
		}
		var wire []byte
		nHeader := 0
		for i, e := range inner.events {
			switch e.Kind {
			case "WriteHeader":
				nHeader++
				if i != 0 {
					c17AddViolation(res, "c17/arbitration", "WriteHeader is not the first event: %s", c17DescribeEvents(inner.events))
				}
				if e.Code != wantStatus {
					c17AddViolation(res, "c17/status", "status %d, specified %d", e.Code, status)
				}
			case "Write":
				if bytes.Contains(e.Data, []byte("HANDLER-BYTES")) {
					c17AddViolation(res, "c17/arbitration", "handler bytes reached the inner writer although a raw response was chosen: %s", c17DescribeEvents(inner.events))
				}
				wire = append(wire, e.Data...)
			}
		}
		if nHeader != 1 {
			c17AddViolation(res, "c17/arbitration", "raw response chosen: %d WriteHeader calls on the inner writer: %s", nHeader, c17DescribeEvents(inner.events))
		}
		if v := c17CheckBody(&body, wire); v.Class != "" {
			c17AddViolation(res, v.Class, "%s", v.Detail)
		}
		want, keys := c17Expect(headers)
		at := inner.atHeaders
		if at == nil {
			at = http.Header{}
		}
		for _, k := range keys {
			wantVals := want[k]
			if k == "Vary" && preset {
				wantVals = append([]string{"Origin"}, wantVals...)
				res.Probes["raw-header-shares-name-with-middleware"]++
			}
			if !c17EqualStrings(at.Values(k), wantVals) {
				c17AddViolation(res, "c17/header-missing", "header %s at WriteHeader: %q, specified %q (set by earlier middleware: %v)", k, at.Values(k), want[k], k == "Vary" && preset)
			}
		}
		for _, k := range c17SortedKeys(at) {
			if _, given := want[k]; given || k == "Date" || k == "Trailer" || k == "Vary" {
				continue
			}
			if handlerSet[k] {
				c17AddViolation(res, "c17/header-extra", "header %s set by the handler is still there: %q", k, at[k])
			} else {
				c17AddViolation(res, "c17/header-extra", "header %s: %q was not specified", k, at[k])
			}
		}
		if preset && at.Get("Vary") != "Origin" {
			c17AddViolation(res, "c17/header-missing", "header Vary set by earlier middleware was lost: %q", at.Values("Vary"))
		}
		wantT, tkeys := c17Expect(trailers)
		declared := map[string]bool{}
		for _, v := range at.Values("Trailer") {
			for _, name := range strings.Split(v, ",") {
				declared[http.CanonicalHeaderKey(strings.TrimSpace(name))] = true
			}
		}
		for _, k := range tkeys {
			if !declared[k] {
				c17AddViolation(res, "c17/trailer-missing", "trailer %s is not declared in the Trailer header at WriteHeader (%q)", k, at.Values("Trailer"))
			}
		}
		// after the body the values are in the header map under
		// http.TrailerPrefix + some spelling of the name (net/http and
		// x/net/http2 canonicalize the rest of the key themselves)
		gotT := map[string][]string{}
		nkeys := map[string]int{}
		var hkeys []string
		for k := range inner.hdr {
			hkeys = append(hkeys, k)
		}
		sort.Strings(hkeys)
		for _, k := range hkeys {
			if rest, ok := strings.CutPrefix(k, http.TrailerPrefix); ok {
				ck := http.CanonicalHeaderKey(rest)
				gotT[ck] = append(gotT[ck], inner.hdr[k]...)
				nkeys[ck]++
			}
		}
		for _, k := range tkeys {
			got, want := append([]string(nil), gotT[k]...), append([]string(nil), wantT[k]...)
			if nkeys[k] > 1 { // spread over several spellings: the order among them is the HTTP stack's
				sort.Strings(got)
				sort.Strings(want)
			}
			if !c17EqualStrings(got, want) {
				c17AddViolation(res, "c17/trailer-missing", "trailer %s after the body: %q, specified %q", k, gotT[k], wantT[k])
			}
		}
	}

	sample := map[string]any{"status": status, "headers": c17DescribeHeaders(headers), "trailers": c17DescribeHeaders(trailers), "body": body.describe(), "preset": preset}
	var opnames []string
	for _, op := range ops {
		opnames = append(opnames, []string{"choose-raw", "set-header " + op.Name, fmt.Sprintf("WriteHeader(%d)", op.Code), "Write", "Flush"}[op.Kind])
	}
	sample["ops"] = opnames
	res.Sample = sample
	js, _ := json.Marshal(sample)
	res.LogHash = c17Hash("arb", string(js))
	res.Nontrivial = len(ops) > 1
	res.Cover = append(res.Cover, fmt.Sprintf("arb:accepted=%v:started=%v:ops=%d:body=%d", accepted, started, len(ops), body.Kind))
	if o.KeepLog {
		res.Log = append(res.Log, "case: "+string(js), "inner writer saw: "+c17DescribeEvents(inner.events))
	}
	return res
}
