//go:build verif

package referenceserver

// c17-response: the real reference server (reference mode) on the simulated
// network, HTTP/1.1 or h2c; a scripted plain net/http client sends one
// well-formed RPC through any of the four procedures that can carry a response
// definition (Unary, ServerStream, ClientStream with 1-3 request messages,
// half-duplex BidiStream with 1-3 request messages; Connect, gRPC or gRPC-Web;
// proto or JSON; with or without a timeout header) whose first request's
// response definition carries a generated raw_response, and compares status,
// headers, trailers and body bytes with the definition. A ClientStream /
// BidiStream with ZERO request messages cannot ask for a raw response: there
// the handler's ordinary (successful, empty) response must come back.

import (
	"bytes"
	"context"
	"crypto/tls"
	"encoding/json"
	"fmt"
	"io"
	"net"
	"net/http"
	"strings"
	"testing"
	"time"

	conformancev1 "connectrpc.com/conformance/internal/gen/proto/go/connectrpc/conformance/v1"
	"connectrpc.com/conformance/internal/verifsim/simnet"
	"connectrpc.com/conformance/internal/verifsim/simrt"
	"connectrpc.com/conformance/internal/verifsim/simwork"
	"golang.org/x/net/http2"
	"google.golang.org/protobuf/encoding/protojson"
	"google.golang.org/protobuf/proto"
)

func init() { verifScenarios["c17-response"] = c17ResponseRun }

var c17Statuses = []uint32{0, 200, 404, 500, 299, 204, 201, 400, 503, 418, 304, 429}

var c17RespHeaderPool = []string{"x-custom", "X-Another-Header", "content-type", "Content-Type", "x-MiXeD-cAsE", "grpc-status",
	"grpc-message", "content-encoding", "connect-content-encoding", "grpc-encoding", "x-custom-bin", "Grpc-Status-Details-Bin",
	"connect-accept-encoding", "server", "set-cookie", "grpc-accept-encoding", "x-trailer", "date"}

var c17RespTrailerPool = []string{"x-trailer", "grpc-status", "grpc-message", "X-Mixed-TrAiLer", "x-custom", "grpc-status-details-bin", "x-t-bin", "X-TRAILER"}

// c17GenTrailers generates the trailer list; spelling variants of one name
// are only kept when enabled.
func c17GenTrailers(g *c17Gen, exclude map[string]bool) []c17Hdr {
	hs := g.headers("trailer", c17RespTrailerPool, nil, exclude)
	spelling := map[string]string{}
	var out []c17Hdr
	for _, h := range hs {
		k := http.CanonicalHeaderKey(h.Name)
		if prev, seen := spelling[k]; seen && prev != h.Name {
			if !c17GenTrailerCaseVariants {
				continue
			}
			g.probes["trailer-name-in-two-spellings"]++
		}
		spelling[k] = h.Name
		out = append(out, h)
	}
	return out
}

// c17GenZeroRequestStream enables the ClientStream / BidiStream shape without
// any request message (no raw response can be requested).
const c17GenZeroRequestStream = true

var c17RPCs = []string{"Unary", "ServerStream", "ClientStream", "BidiStream"}

type c17RespCase struct {
	H2            bool
	Protocol      int // 0 connect, 1 grpc, 2 grpc-web
	RPC           int // index into c17RPCs
	NReq          int // request messages (1 for Unary / ServerStream; 0..3 for the client-streaming ones)
	BadAt         int // > 0: this later request message cannot be decoded (the raw response was chosen by the first one)
	Timeout       bool
	JSON          bool
	HandlerFields bool
	Status        uint32
	Headers       []c17Hdr
	Trailers      []c17Hdr
	Body          c17Body
	NetSeed       int
}

type c17RespObs struct {
	Err      string
	Status   int
	Proto    string
	Header   http.Header
	Body     []byte
	BodyErr  string
	Trailer  http.Header
	TE       []string
	Length   int64
	Feedback []string
}

func c17GenRespCase(g *c17Gen) *c17RespCase {
	c := &c17RespCase{}
	t := g.tape
	c.H2 = t.Choose(2, "http-version") == 1
	c.Protocol = t.Choose(3, "protocol")
	c.RPC = t.Choose(len(c17RPCs), "rpc")
	c.NReq = 1
	c.JSON = t.Bool(1, 4, "json")
	c.HandlerFields = t.Bool(1, 2, "handler-fields")
	c.Status = c17Statuses[t.Choose(len(c17Statuses), "status")]
	if (c.Status == 204 || c.Status == 304) && !c17GenBodylessStatus {
		c.Status = 200
	}
	exclude := map[string]bool{}
	if !c17GenDateHeader {
		exclude["Date"] = true
	}
	c.Headers = g.headers("header", c17RespHeaderPool, map[string]bool{"Date": true}, exclude)
	exclude = map[string]bool{}
	if !c17GenHeaderTrailerOverlap {
		for _, h := range c.Headers {
			exclude[http.CanonicalHeaderKey(h.Name)] = true
		}
	}
	c.Trailers = c17GenTrailers(g, exclude)
	c.Body = g.body("body")
	c.NetSeed = t.Choose(1<<20, "netseed")
	extra := t.Choose(3, "extra-request-messages")
	zero := t.Bool(1, 8, "zero-request-messages")
	c.Timeout = t.Bool(1, 3, "timeout-header")
	if c.RPC >= 2 {
		c.NReq = 1 + extra
		if zero && c17GenZeroRequestStream {
			c.NReq = 0
		}
		if c.NReq >= 2 && t.Bool(1, 4, "bad-later-request-message") {
			c.BadAt = 1 + t.Choose(c.NReq-1, "bad-at")
		}
	}
	return c
}

func (c *c17RespCase) streaming() bool { return c.RPC != 0 }

func (c *c17RespCase) raw() *conformancev1.RawHTTPResponse {
	raw := &conformancev1.RawHTTPResponse{StatusCode: c.Status, Headers: c17ProtoHeaders(c.Headers), Trailers: c17ProtoHeaders(c.Trailers)}
	switch c.Body.Kind {
	case 1:
		raw.Body = &conformancev1.RawHTTPResponse_Unary{Unary: c.Body.Unary.proto()}
	case 2:
		raw.Body = &conformancev1.RawHTTPResponse_Stream{Stream: c.Body.stream()}
	}
	return raw
}

func (c *c17RespCase) sample() map[string]any {
	return map[string]any{
		"http": map[bool]string{false: "1.1", true: "2 (h2c)"}[c.H2], "protocol": []string{"connect", "grpc", "grpc-web"}[c.Protocol],
		"rpc": c17RPCs[c.RPC], "request_messages": c.NReq, "undecodable_later_request_message": c.BadAt, "timeout_header": c.Timeout, "json": c.JSON, "handler_fields_also_set": c.HandlerFields,
		"status": c.Status, "headers": c17DescribeHeaders(c.Headers), "trailers": c17DescribeHeaders(c.Trailers), "body": c.Body.describe(),
	}
}

// request builds the well-formed RPC request that carries the raw response
// in (the first of) its request message(s).
func (c *c17RespCase) request(ctx context.Context, addr string) (*http.Request, error) {
	raw := c.raw()
	handlerHeaders := []*conformancev1.Header{{Name: "x-handler-header", Value: []string{"from-handler"}}}
	handlerTrailers := []*conformancev1.Header{{Name: "x-handler-trailer", Value: []string{"from-handler"}}}
	unaryDef := func() *conformancev1.UnaryResponseDefinition {
		def := &conformancev1.UnaryResponseDefinition{RawResponse: raw}
		if c.HandlerFields {
			def.ResponseHeaders, def.ResponseTrailers = handlerHeaders, handlerTrailers
			def.Response = &conformancev1.UnaryResponseDefinition_ResponseData{ResponseData: []byte("HANDLER-DATA-1")}
		}
		return def
	}
	streamDef := func() *conformancev1.StreamResponseDefinition {
		def := &conformancev1.StreamResponseDefinition{RawResponse: raw}
		if c.HandlerFields {
			def.ResponseHeaders, def.ResponseTrailers = handlerHeaders, handlerTrailers
			def.ResponseData = [][]byte{[]byte("HANDLER-DATA-1"), []byte("HANDLER-DATA-2")}
		}
		return def
	}
	var msgs []proto.Message
	for i := 0; i < c.NReq; i++ {
		extra := []byte(fmt.Sprintf("EXTRA-REQUEST-%d", i))
		switch c.RPC {
		case 0:
			msgs = append(msgs, &conformancev1.UnaryRequest{ResponseDefinition: unaryDef()})
		case 1:
			msgs = append(msgs, &conformancev1.ServerStreamRequest{ResponseDefinition: streamDef()})
		case 2:
			m := &conformancev1.ClientStreamRequest{RequestData: extra}
			if i == 0 {
				m = &conformancev1.ClientStreamRequest{ResponseDefinition: unaryDef()}
			}
			msgs = append(msgs, m)
		default:
			m := &conformancev1.BidiStreamRequest{RequestData: extra}
			if i == 0 {
				m = &conformancev1.BidiStreamRequest{ResponseDefinition: streamDef(), FullDuplex: false}
			}
			msgs = append(msgs, m)
		}
	}
	codec := "proto"
	if c.JSON {
		codec = "json"
	}
	enveloped := c.Protocol != 0 || c.streaming()
	var body []byte
	for i, msg := range msgs {
		var data []byte
		var err error
		if c.JSON {
			data, err = protojson.Marshal(msg)
		} else {
			data, err = proto.Marshal(msg)
		}
		if err != nil {
			return nil, err
		}
		if c.BadAt > 0 && i == c.BadAt {
			data = []byte("{\"requestData\": not json") // neither JSON nor a protobuf message
			if !c.JSON {
				data = []byte{0x0a, 0xff, 0xff, 0xff, 0xff, 0x0f, 0x01}
			}
		}
		if enveloped {
			data = c17Envelope(0, data)
		}
		body = append(body, data...)
	}
	var contentType string
	switch c.Protocol {
	case 0:
		if c.streaming() {
			contentType = "application/connect+" + codec
		} else {
			contentType = "application/" + codec
		}
	case 1:
		contentType = "application/grpc+" + codec
	default:
		contentType = "application/grpc-web+" + codec
	}
	req, err := http.NewRequestWithContext(ctx, http.MethodPost, "http://"+addr+"/connectrpc.conformance.v1.ConformanceService/"+c17RPCs[c.RPC], bytes.NewReader(body))
	if err != nil {
		return nil, err
	}
	req.Header.Set("Content-Type", contentType)
	switch c.Protocol {
	case 0:
		req.Header.Set("Connect-Protocol-Version", "1")
		if c.Timeout {
			req.Header.Set("Connect-Timeout-Ms", "20000")
		}
	case 1:
		req.Header.Set("Te", "trailers")
		if c.Timeout {
			req.Header.Set("Grpc-Timeout", "20S")
		}
	default:
		if c.Timeout {
			req.Header.Set("Grpc-Timeout", "20000m")
		}
	}
	req.Header.Set("X-Test-Case-Name", "C17/raw-response")
	req.Header.Set("X-Expect-Http-Version", map[bool]string{false: "1", true: "2"}[c.H2])
	req.Header.Set("X-Expect-Http-Method", "POST")
	req.Header.Set("X-Expect-Protocol", fmt.Sprint(c.Protocol+1))
	req.Header.Set("X-Expect-Codec", map[bool]string{false: "1", true: "2"}[c.JSON])
	req.Header.Set("X-Expect-Compression", "1")
	req.Header.Set("X-Expect-Tls", "false")
	return req, nil
}

// c17PlainTransport returns a plain net/http (or x/net/http2 prior-knowledge)
// client transport over simnet and its cleanup function.
func c17PlainTransport(h2 bool) (http.RoundTripper, func()) {
	if h2 {
		tr := &http2.Transport{AllowHTTP: true, DisableCompression: true,
			DialTLSContext: func(ctx context.Context, network, addr string, _ *tls.Config) (net.Conn, error) {
				return simnet.DialContext(ctx, network, addr)
			}}
		return tr, tr.CloseIdleConnections
	}
	tr := &http.Transport{DialContext: simnet.DialContext, DisableCompression: true}
	return tr, tr.CloseIdleConnections
}

func c17ResponseRun(t *testing.T, tape *simrt.Tape, o simwork.Opts) *simwork.Result {
	res := &simwork.Result{Faults: map[string]int{}, Probes: map[string]int{}, End: "done"}
	simrt.Bump()
	g := &c17Gen{tape: tape, thorough: o.Tier == "thorough", probes: res.Probes}
	c := c17GenRespCase(g)
	res.Sample = c.sample()
	obs := &c17RespObs{}

	netMark := verifNetStart()
	p := simwork.Bubble(t, func(t *testing.T) {
		bubbleStart := time.Now()
		defer func() {
			// fake-clock time of the exchange (evidence only). With several Ps the
			// instant at which net/http's goroutines finish moves by microseconds,
			// so it is left out of the step records that the determinism self-test
			// and replays compare (KeepLog); verdict and LogHash never depend on it.
			if !o.KeepLog {
				res.SimTime = time.Since(bubbleStart)
			}
		}()
		defer simnet.CloseAll()                                  // runs last: no connection goroutine outlives the run
		simnet.Reset()
		c17ResetPools()
		simnet.Configure(simnet.Config{Seed: uint64(c.NetSeed), MaxSegment: 2048, SmallPermil: 250, MaxLatency: 500 * time.Microsecond})
		lines := &c17Lines{}
		version := conformancev1.HTTPVersion_HTTP_VERSION_1
		if c.H2 {
			version = conformancev1.HTTPVersion_HTTP_VERSION_2
		}
		server, _, err := createServer(&conformancev1.ServerCompatRequest{Protocol: conformancev1.Protocol_PROTOCOL_CONNECT, HttpVersion: version},
			"127.0.0.1:0", "", "", true, lines, nil)
		if err != nil {
			res.Invalid = append(res.Invalid, "createServer: "+err.Error())
			return
		}
		go func() { _ = server.Serve() }()
		defer func() { _ = server.GracefulShutdown(time.Second) }()
		tr, cleanup := c17PlainTransport(c.H2)
		defer cleanup()
		ctx, cancel := context.WithTimeout(context.Background(), 30*time.Second)
		defer cancel()
		req, err := c.request(ctx, server.Addr())
		if err != nil {
			res.Invalid = append(res.Invalid, "build request: "+err.Error())
			return
		}
		resp, err := tr.RoundTrip(req)
		if err != nil {
			obs.Err = err.Error()
		} else {
			obs.Status, obs.Proto, obs.Header = resp.StatusCode, resp.Proto, resp.Header.Clone()
			obs.TE, obs.Length = resp.TransferEncoding, resp.ContentLength
			body, err := io.ReadAll(resp.Body)
			if err != nil {
				obs.BodyErr = err.Error()
			}
			_ = resp.Body.Close()
			obs.Body = body
			obs.Trailer = resp.Trailer.Clone()
		}
		lines.mu.Lock()
		obs.Feedback = append([]string{}, lines.lines...)
		lines.mu.Unlock()
	})
	verifNetFaults(res, netMark)
	if p != nil {
		c17AddViolation(res, "c17/panic", "panic outside the server's handler goroutines: %v", p)
	}
	if len(res.Invalid) > 0 {
		return res
	}
	if c.NReq == 0 {
		c17JudgeOrdinary(c, obs, res)
	} else {
		c17JudgeResponse(c, obs, res)
		c17ShapeProbes(c, res)
	}
	if v := c17CheckEncoders(&c.Body); v.Class != "" {
		c17AddViolation(res, v.Class, "%s", v.Detail)
	}

	js, _ := json.Marshal(res.Sample)
	res.LogHash = c17Hash("resp", string(js), c.NetSeed)
	res.Nontrivial = len(c.Headers) > 0 || len(c.Trailers) > 0 || c.Body.Kind != 0 || c.NReq == 0
	res.Cover = append(res.Cover, fmt.Sprintf("resp:h2=%v:proto=%d:rpc=%s:nreq=%d:timeout=%v:json=%v:body=%d:status=%d", c.H2, c.Protocol, c17RPCs[c.RPC], c.NReq, c.Timeout, c.JSON, c.Body.Kind, c.Status))
	if o.KeepLog {
		res.Log = append(res.Log, "case: "+string(js))
		res.Log = append(res.Log, fmt.Sprintf("observed: err=%q status=%d proto=%s transfer-encoding=%v content-length=%d body-err=%q", obs.Err, obs.Status, obs.Proto, obs.TE, obs.Length, obs.BodyErr))
		for _, k := range c17SortedKeys(obs.Header) {
			res.Log = append(res.Log, fmt.Sprintf("  header %s: %q", k, obs.Header[k]))
		}
		for _, k := range c17SortedKeys(obs.Trailer) {
			res.Log = append(res.Log, fmt.Sprintf("  trailer %s: %q", k, obs.Trailer[k]))
		}
		res.Log = append(res.Log, "  body: "+c17Short(obs.Body))
		for _, l := range obs.Feedback {
			res.Log = append(res.Log, "  server feedback: "+l)
		}
	}
	return res
}

// headers that the transport (net/http, the CORS middleware in front of the
// raw responder) may add on its own
var c17TransportHeaders = map[string]bool{"Date": true, "Content-Length": true, "Transfer-Encoding": true, "Trailer": true,
	"Connection": true, "Keep-Alive": true, "Vary": true, "X-Content-Type-Options": true}

func c17HandlerContentType(v string) bool {
	for _, p := range []string{"application/proto", "application/json", "application/connect+", "application/grpc"} {
		if strings.HasPrefix(v, p) {
			return true
		}
	}
	return false
}

func c17JudgeResponse(c *c17RespCase, obs *c17RespObs, res *simwork.Result) {
	abrupt := func(msg string) bool {
		return strings.Contains(msg, "INTERNAL_ERROR") || strings.Contains(msg, "EOF") || strings.Contains(msg, "connection reset") || strings.Contains(msg, "server closed")
	}
	if obs.Err != "" {
		class := "c17/status"
		if abrupt(obs.Err) {
			class = "c17/panic"
		}
		c17AddViolation(res, class, "no response: %s (an aborted exchange is what net/http makes of a panicking handler)", obs.Err)
		return
	}
	wantStatus := int(c.Status)
	if wantStatus == 0 {
		wantStatus = 200
		res.Probes["status-unset"]++
	}
	if obs.Status != wantStatus {
		c17AddViolation(res, "c17/status", "status %d, specified %d", obs.Status, c.Status)
	}
	bodyless := wantStatus == 204 || wantStatus == 304
	if bodyless {
		res.Probes["bodyless-status"]++
	}

	// headers
	want, keys := c17Expect(c.Headers)
	for _, k := range keys {
		got := obs.Header.Values(k)
		if wantStatus == 304 && k == "Content-Type" && len(got) == 0 {
			// net/http removes body-describing fields from a 304 (HTTP rule)
			res.Probes["304-content-type-suppressed-by-net/http(not judged)"]++
			continue
		}
		if c17EqualStrings(got, want[k]) {
			if k == "Content-Type" {
				res.Probes["raw-content-type-delivered"]++
			}
			if strings.HasPrefix(k, "Grpc-") || strings.HasPrefix(k, "Connect-") {
				res.Probes["raw-protocol-header-delivered"]++
			}
			continue
		}
		if len(got) > len(want[k]) && c17IsSubsequence(want[k], got) {
			c17AddViolation(res, "c17/header-extra", "header %s: values %q, specified only %q", k, got, want[k])
		} else {
			c17AddViolation(res, "c17/header-missing", "header %s: values %q, specified %q (in this order)", k, got, want[k])
		}
	}
	for _, k := range c17SortedKeys(obs.Header) {
		if _, given := want[k]; given || c17TransportHeaders[k] || strings.HasPrefix(k, "Access-Control-") {
			continue
		}
		if k == "Content-Type" {
			// net/http sniffs a content type when none is set; only a content
			// type the RPC handler would have chosen is an alarm
			sniffed := true
			for _, v := range obs.Header[k] {
				if c17HandlerContentType(v) {
					sniffed = false
				}
			}
			if sniffed {
				res.Probes["content-type-sniffed-by-net/http"]++
				continue
			}
		}
		c17AddViolation(res, "c17/header-extra", "header %s: %q was not specified in the raw response", k, obs.Header[k])
	}

	// body
	if obs.BodyErr != "" {
		class := "c17/body"
		if abrupt(obs.BodyErr) {
			class = "c17/panic"
		}
		c17AddViolation(res, class, "body ended with an error after %d bytes: %s", len(obs.Body), obs.BodyErr)
	} else if bodyless && len(obs.Body) == 0 {
		// HTTP does not allow a body with this status: nothing to compare
	} else if v := c17CheckBody(&c.Body, obs.Body); v.Class != "" {
		c17AddViolation(res, v.Class, "%s", v.Detail)
	}

	// trailers
	wantT, tkeys := c17Expect(c.Trailers)
	if !c.H2 && bodyless && len(tkeys) > 0 {
		// HTTP/1.1 has no framing that could carry trailers here
		res.Probes["h1-bodyless-status-with-trailers(not judged)"]++
	} else if obs.BodyErr == "" {
		for _, k := range tkeys {
			got := obs.Trailer.Values(k)
			if c17EqualStrings(got, wantT[k]) {
				continue
			}
			if len(got) > len(wantT[k]) && c17IsSubsequence(wantT[k], got) {
				c17AddViolation(res, "c17/header-extra", "trailer %s: values %q, specified only %q", k, got, wantT[k])
			} else {
				c17AddViolation(res, "c17/trailer-missing", "trailer %s: values %q, specified %q (in this order); transfer-encoding %v, content-length %d", k, got, wantT[k], obs.TE, obs.Length)
			}
		}
		for _, k := range c17SortedKeys(obs.Trailer) {
			if _, given := wantT[k]; !given {
				c17AddViolation(res, "c17/header-extra", "trailer %s: %q was not specified in the raw response", k, obs.Trailer[k])
			}
		}
		if len(tkeys) > 0 {
			if !c.H2 {
				if n, ok := c.Body.deterministicLen(); ok && n < 2048 {
					res.Probes["h1-trailers-with-small-body"]++
				} else {
					res.Probes["h1-trailers-with-larger-body"]++
				}
			} else {
				res.Probes["h2-trailers"]++
			}
		}
	}
	if len(c.Headers) > 0 && len(c.Trailers) > 0 {
		for _, k := range keys {
			if _, both := wantT[k]; both {
				res.Probes["same-name-in-headers-and-trailers"]++
				break
			}
		}
	}
}

// c17ShapeProbes counts the request shapes through which a raw response was
// asked for (only completed exchanges).
func c17ShapeProbes(c *c17RespCase, res *simwork.Result) {
	if c.BadAt > 0 {
		res.Probes["raw-with-undecodable-later-request-message"]++
	}
	switch c.RPC {
	case 2:
		res.Probes["raw-via-client-stream"]++
		if !c.H2 {
			res.Probes["raw-via-client-stream-http1"]++
		}
	case 3:
		if c.H2 {
			res.Probes["raw-via-bidi-h2"]++
		} else {
			res.Probes["raw-via-bidi-http1"]++
			if c.Timeout {
				res.Probes["raw-via-bidi-http1-with-timeout-header"]++
			}
		}
	}
	if c.NReq > 1 {
		res.Probes["raw-in-first-of-several-requests"]++
	}
	if c.Timeout {
		res.Probes["request-with-timeout-header"]++
	}
}

// c17SplitEnvelopes cuts a response body into its envelopes.
func c17SplitEnvelopes(body []byte) (flags []byte, payloads [][]byte, err error) {
	for len(body) > 0 {
		if len(body) < 5 {
			return flags, payloads, fmt.Errorf("%d stray bytes at the end", len(body))
		}
		n := int(uint32(body[1])<<24 | uint32(body[2])<<16 | uint32(body[3])<<8 | uint32(body[4]))
		if n > len(body)-5 {
			return flags, payloads, fmt.Errorf("envelope of %d bytes, only %d left", n, len(body)-5)
		}
		flags = append(flags, body[0])
		payloads = append(payloads, body[5:5+n])
		body = body[5+n:]
	}
	return flags, payloads, nil
}

// c17JudgeOrdinary judges the zero-request shape: no request message, hence
// no response definition and no raw response; the first Receive of the raw
// response recorder fails with EOF, which it has to hand on to the handler
// unchanged. The handler then answers successfully: ClientStream with one
// response whose payload reports zero requests, BidiStream with no response.
func c17JudgeOrdinary(c *c17RespCase, obs *c17RespObs, res *simwork.Result) {
	const class = "c17/ordinary-response"
	if obs.Err != "" {
		c17AddViolation(res, class, "zero request messages: no response: %s", obs.Err)
		return
	}
	if obs.BodyErr != "" {
		c17AddViolation(res, class, "zero request messages: body ended with an error after %d bytes: %s", len(obs.Body), obs.BodyErr)
		return
	}
	codec := "proto"
	if c.JSON {
		codec = "json"
	}
	wantCT := []string{"application/connect+" + codec, "application/grpc+" + codec, "application/grpc-web+" + codec}[c.Protocol]
	if obs.Status != 200 || obs.Header.Get("Content-Type") != wantCT {
		c17AddViolation(res, class, "zero request messages: status %d content-type %q, the handler's ordinary response has 200 and %q", obs.Status, obs.Header.Get("Content-Type"), wantCT)
		return
	}
	flags, payloads, err := c17SplitEnvelopes(obs.Body)
	if err != nil {
		c17AddViolation(res, class, "zero request messages: body is not a sequence of envelopes: %v: %s", err, c17Short(obs.Body))
		return
	}
	var messages [][]byte
	ended := ""
	for i, f := range flags {
		switch {
		case f == 0:
			messages = append(messages, payloads[i])
		case c.Protocol == 0 && f == 2:
			var end struct {
				Error json.RawMessage `json:"error"`
			}
			if err := json.Unmarshal(payloads[i], &end); err != nil {
				c17AddViolation(res, class, "zero request messages: end-stream message %q is not JSON: %v", payloads[i], err)
				return
			}
			if len(end.Error) > 0 {
				c17AddViolation(res, class, "zero request messages: the stream ended with an error instead of the handler's ordinary result: %s", payloads[i])
				return
			}
			ended = "end-stream"
		case c.Protocol == 2 && f == 0x80:
			ended = "web-trailers"
			status := ""
			for _, line := range strings.Split(string(payloads[i]), "\r\n") {
				if k, v, ok := strings.Cut(line, ":"); ok && strings.EqualFold(strings.TrimSpace(k), "grpc-status") {
					status = strings.TrimSpace(v)
				}
			}
			if status != "0" {
				c17AddViolation(res, class, "zero request messages: grpc-web trailers %q: status %q instead of the handler's ordinary success", payloads[i], status)
				return
			}
		default:
			c17AddViolation(res, class, "zero request messages: unexpected envelope flags %d in the handler's response", f)
			return
		}
	}
	switch c.Protocol {
	case 0:
		if ended == "" {
			c17AddViolation(res, class, "zero request messages: Connect stream without end-stream message: %s", c17Short(obs.Body))
			return
		}
	case 1:
		status := obs.Trailer.Get("Grpc-Status")
		if status == "" {
			status = obs.Header.Get("Grpc-Status")
		}
		if status != "0" {
			c17AddViolation(res, class, "zero request messages: grpc-status %q (message %q) instead of the handler's ordinary success", status, obs.Trailer.Get("Grpc-Message")+obs.Header.Get("Grpc-Message"))
			return
		}
	default:
		if ended == "" && obs.Header.Get("Grpc-Status") != "0" {
			c17AddViolation(res, class, "zero request messages: gRPC-Web response without trailers: %s", c17Short(obs.Body))
			return
		}
	}
	wantMessages := 0
	if c.RPC == 2 {
		wantMessages = 1
	}
	if len(messages) != wantMessages {
		c17AddViolation(res, class, "zero request messages: %d response messages, the handler sends %d", len(messages), wantMessages)
		return
	}
	if c.RPC == 2 {
		out := &conformancev1.ClientStreamResponse{}
		if c.JSON {
			err = protojson.Unmarshal(messages[0], out)
		} else {
			err = proto.Unmarshal(messages[0], out)
		}
		if err != nil {
			c17AddViolation(res, class, "zero request messages: response message does not decode: %v", err)
			return
		}
		if n := len(out.GetPayload().GetRequestInfo().GetRequests()); n != 0 || out.GetPayload().GetRequestInfo() == nil || len(out.GetPayload().GetData()) != 0 {
			c17AddViolation(res, class, "zero request messages: payload reports %d requests, data %q, request info present=%v; the handler's ordinary response echoes zero requests and no data", n, out.GetPayload().GetData(), out.GetPayload().GetRequestInfo() != nil)
			return
		}
	}
	res.Probes["zero-request-stream-ordinary-response"]++
	if c.RPC == 3 && !c.H2 {
		res.Probes["zero-request-bidi-http1"]++
	}
	if c.Timeout {
		res.Probes["request-with-timeout-header"]++
	}
}
