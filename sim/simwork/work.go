//go:build verif

// Package simwork is the worker side of a check: it reads a job description
// from the environment, runs seeded simulated executions of a scenario, each
// in its own synctest bubble, shrinks violations, and writes a JSON result.
package simwork

import (
	"runtime/metrics"
	"encoding/json"
	"fmt"
	"os"
	"runtime"
	"sort"
	"strings"
	"testing"
	"testing/synctest"
	"time"

	"connectrpc.com/conformance/internal/verifsim/simrt"
)

// Job is what the driver passes in VERIF_JOB (JSON).
type Job struct {
	Property string         `json:"property"`
	Scenario string         `json:"scenario"`
	Tier     string         `json:"tier"`
	BaseSeed uint64         `json:"base_seed"`
	Worker   int            `json:"worker"`
	Runs     int            `json:"runs"`    // max runs (0 = unlimited)
	Seconds  int            `json:"seconds"` // wall budget (0 = unlimited)
	Out      string         `json:"out"`
	Replay   string         `json:"replay"`    // replay file to run instead of generating
	DumpLogs int            `json:"dumplogs"`  // determinism self-test: write the step log hash of each run
	OnlySeed uint64         `json:"only_seed"` // debugging: run exactly this seed and keep its full step log
	Known    []KnownSig     `json:"known"`
	Params   map[string]int `json:"params"`
}

// KnownSig is a known-finding signature: violations whose class contains
// Class (and whose detail contains Detail, if set) are counted, not reported.
type KnownSig struct {
	ID     string `json:"id"`
	Class  string `json:"class"`
	Detail string `json:"detail"`
}

// Violation is one failed oracle clause.
type Violation struct {
	Class  string `json:"class"`  // stable identifier of the clause that failed
	Detail string `json:"detail"` // what was observed
}

// Result is what one simulated run reports.
type Result struct {
	Violations []Violation
	Invalid    []string       // simulator limitations hit: the run is discarded
	Faults     map[string]int // fault kinds that actually fired
	Probes     map[string]int // rare branches reached
	Cover      []string       // abstract coverage keys (model states, truth-table rows)
	Steps      int
	Switches   int
	Preempts   int
	SimTime    time.Duration
	LogHash    uint64
	Nontrivial bool
	End        string
	Sample     any      // the case, written out
	Log        []string // step log (only when requested)
}

// Opts are per-run options passed to a scenario.
type Opts struct {
	Tier    string
	KeepLog bool
	Params  map[string]int
}

// RunFunc executes one simulated run decided entirely by tape.
type RunFunc func(t *testing.T, tape *simrt.Tape, o Opts) *Result

// ReplayFile is the on-disk form of a (minimised) failing run.
type ReplayFile struct {
	Property string         `json:"property"`
	Scenario string         `json:"scenario"`
	Tier     string         `json:"tier"`
	Seed     uint64         `json:"seed"`
	Tape     []uint32       `json:"tape"`
	Class    string         `json:"class"`
	Detail   string         `json:"detail"`
	LogHash  string         `json:"log_hash"`
	Sample   any            `json:"sample,omitempty"`
	Labels   []string       `json:"tape_labels,omitempty"`
	Log      []string       `json:"log,omitempty"`
	Params   map[string]int `json:"params,omitempty"`
	OrigLen  int            `json:"original_tape_len"`
}

// Out is the JSON a worker writes.
type Out struct {
	Property     string            `json:"property"`
	Scenario     string            `json:"scenario"`
	Worker       int               `json:"worker"`
	Runs         int               `json:"runs"`
	Discarded    int               `json:"discarded"`
	DiscardWhy   map[string]int    `json:"discard_reasons"`
	Steps        int64             `json:"steps"`
	Switches     int64             `json:"switches"`
	Preempts     int64             `json:"preempts"`
	SimSeconds   float64           `json:"sim_seconds"`
	WallSeconds  float64           `json:"wall_seconds"`
	Faults       map[string]int    `json:"faults"`
	Probes       map[string]int    `json:"probes"`
	Ends         map[string]int    `json:"ends"`
	Hashes       []string          `json:"hashes"`            // distinct schedule hashes (all)
	NontrivHash  []string          `json:"nontrivial_hashes"` // distinct schedule hashes of non-trivial runs
	Cover        []string          `json:"cover"`
	Samples      []any             `json:"samples"`
	Violations   []ReplayFile      `json:"violations"`
	Known        map[string]int    `json:"known"`
	KnownSamples map[string]string `json:"known_samples"`
	RunHashes    []string          `json:"run_hashes,omitempty"` // determinism self-test
	RunLog       []string          `json:"run_log,omitempty"`
	FirstSeed    uint64            `json:"first_seed"`
	ReplayOK     *bool             `json:"replay_ok,omitempty"`
	ReplayClass  string            `json:"replay_class,omitempty"`
	ReplayDetail string            `json:"replay_detail,omitempty"`
	ReplayHash   string            `json:"replay_hash,omitempty"`
}

// Bubble runs f in a fresh synctest bubble and swallows the end-of-bubble
// deadlock panic that leaked (parked) goroutines cause. Any other panic is
// returned.
func Bubble(t *testing.T, f func(t *testing.T)) (panicked any) {
	defer func() {
		if r := recover(); r != nil {
			// leaked (parked) goroutines after the root returned are expected;
			// a bubble in which everything including the root is blocked is not
			if strings.Contains(fmt.Sprint(r), "main bubble goroutine has exited") {
				return
			}
			if os.Getenv("VERIF_DEBUG") != "" {
				buf := make([]byte, 1<<20)
				n := runtime.Stack(buf, true)
				fmt.Fprintf(os.Stderr, "BUBBLE PANIC %v\n%s\n", r, buf[:n])
			}
			panicked = r
		}
	}()
	synctest.Test(t, f)
	return nil
}

func matchKnown(known []KnownSig, v Violation) string {
	for _, k := range known {
		if strings.Contains(v.Class, k.Class) && (k.Detail == "" || strings.Contains(v.Detail, k.Detail)) {
			return k.ID
		}
	}
	return ""
}

// firstUnknown returns the first violation not covered by a known signature.
func firstUnknown(known []KnownSig, r *Result) *Violation {
	for i := range r.Violations {
		if matchKnown(known, r.Violations[i]) == "" {
			return &r.Violations[i]
		}
	}
	return nil
}

func hasClass(known []KnownSig, r *Result, class string) *Violation {
	for i := range r.Violations {
		if r.Violations[i].Class == class && matchKnown(known, r.Violations[i]) == "" {
			return &r.Violations[i]
		}
	}
	return nil
}

// Main is called from the package's TestVerif function.
func Main(t *testing.T, scenarios map[string]RunFunc) {
	js := os.Getenv("VERIF_JOB")
	if js == "" {
		t.Skip("VERIF_JOB not set")
	}
	var job Job
	if err := json.Unmarshal([]byte(js), &job); err != nil {
		fatal("bad VERIF_JOB: %v", err)
	}
	fn := scenarios[job.Scenario]
	if fn == nil {
		fatal("unknown scenario %q", job.Scenario)
	}
	if limit := job.Params["max_alloc_mb"]; limit > 0 {
		// resource oracle: one simulated run must not allocate more than the
		// configured amount (a length announced by an untrusted peer that is used
		// as an allocation size shows up here long before the process is killed)
		inner := fn
		fn = func(t *testing.T, tape *simrt.Tape, o Opts) *Result {
			before := allocatedBytes()
			res := inner(t, tape, o)
			if delta := allocatedBytes() - before; delta > uint64(limit)<<20 {
				res.Violations = append(res.Violations, Violation{Class: strings.ToLower(job.Property) + "/allocation",
					Detail: fmt.Sprintf("the run allocated %d MiB (limit for one run of this scenario: %d MiB)", delta>>20, limit)})
			}
			return res
		}
	}
	startWatchdog()
	out := &Out{Property: job.Property, Scenario: job.Scenario, Worker: job.Worker,
		Faults: map[string]int{}, Probes: map[string]int{}, Ends: map[string]int{},
		DiscardWhy: map[string]int{}, Known: map[string]int{}, KnownSamples: map[string]string{}}
	opts := Opts{Tier: job.Tier, Params: job.Params}
	if job.Replay != "" {
		replay(t, fn, &job, out, opts)
		writeOut(&job, out)
		return
	}
	start := time.Now()
	hashes := map[uint64]bool{}
	nthashes := map[uint64]bool{}
	cover := map[string]bool{}
	deadline := time.Time{}
	if job.Seconds > 0 {
		deadline = start.Add(time.Duration(job.Seconds) * time.Second)
	}
	for i := 0; job.Runs == 0 || i < job.Runs; i++ {
		if !deadline.IsZero() && time.Now().After(deadline) {
			break
		}
		seed := simrt.DeriveSeed(job.BaseSeed, job.Worker, i)
		if job.OnlySeed != 0 {
			seed = job.OnlySeed
		}
		if i == 0 {
			out.FirstSeed = seed
		}
		setStatus(&job, seed)
		tape := simrt.NewTape(seed)
		o := opts
		o.KeepLog = job.DumpLogs > 0
		res := fn(t, tape, o)
		if res.End == "" && len(res.Invalid) == 0 && len(res.Violations) == 0 {
			// a scenario must say how its run ended; an empty value means the
			// body was cut short (never count such a run as explored)
			res.Invalid = append(res.Invalid, "run ended without an end reason")
		}
		if len(res.Invalid) > 0 {
			out.Discarded++
			out.DiscardWhy[res.Invalid[0]]++
			continue
		}
		out.Runs++
		out.Steps += int64(res.Steps)
		out.Switches += int64(res.Switches)
		out.Preempts += int64(res.Preempts)
		out.SimSeconds += res.SimTime.Seconds()
		out.Ends[res.End]++
		for k, v := range res.Faults {
			out.Faults[k] += v
		}
		for k, v := range res.Probes {
			out.Probes[k] += v
		}
		for _, c := range res.Cover {
			cover[c] = true
		}
		hashes[res.LogHash] = true
		if res.Nontrivial {
			nthashes[res.LogHash] = true
		}
		if job.OnlySeed != 0 {
			out.RunLog = res.Log
		}
		if job.DumpLogs > 0 {
			out.RunHashes = append(out.RunHashes, fmt.Sprintf("%d:%016x:%d:%s:%d", seed, res.LogHash, res.Steps, res.SimTime, len(res.Violations)))
		}
		if len(out.Samples) < 3 && res.Sample != nil && (res.Nontrivial || i < 3) {
			out.Samples = append(out.Samples, res.Sample)
		}
		for _, v := range res.Violations {
			if id := matchKnown(job.Known, v); id != "" {
				out.Known[id]++
				if _, has := out.KnownSamples[id]; !has {
					out.KnownSamples[id] = fmt.Sprintf("seed=%d %s: %s", seed, v.Class, v.Detail)
				}
			}
		}
		if v := firstUnknown(job.Known, res); v != nil {
			// checkpoint: the unminimised violation is on disk before any further
			// run happens in this process (code under test that keeps process-wide
			// state across runs can take the whole worker down while shrinking;
			// the driver verifies the replay in a fresh process either way)
			out.Violations = append(out.Violations, ReplayFile{Property: job.Property, Scenario: job.Scenario, Tier: job.Tier, Seed: seed,
				Tape: tape.Values(), Class: v.Class, Detail: v.Detail + " (not minimised: the worker ended while shrinking)", LogHash: fmt.Sprintf("%016x", res.LogHash),
				Sample: res.Sample, OrigLen: len(tape.Values()), Params: job.Params})
			out.WallSeconds = time.Since(start).Seconds()
			writeOut(&job, out)
			out.Violations = out.Violations[:len(out.Violations)-1]
			rf := shrink(t, fn, &job, opts, seed, tape.Values(), *v)
			out.Violations = append(out.Violations, rf)
			if len(out.Violations) >= 2 {
				break
			}
		}
	}
	out.WallSeconds = time.Since(start).Seconds()
	for h := range hashes {
		out.Hashes = append(out.Hashes, fmt.Sprintf("%016x", h))
	}
	for h := range nthashes {
		out.NontrivHash = append(out.NontrivHash, fmt.Sprintf("%016x", h))
	}
	for c := range cover {
		out.Cover = append(out.Cover, c)
	}
	sort.Strings(out.Hashes)
	sort.Strings(out.NontrivHash)
	sort.Strings(out.Cover)
	writeOut(&job, out)
}

func replay(t *testing.T, fn RunFunc, job *Job, out *Out, opts Opts) {
	data, err := os.ReadFile(job.Replay)
	if err != nil {
		fatal("read replay: %v", err)
	}
	var rf ReplayFile
	if err := json.Unmarshal(data, &rf); err != nil {
		fatal("parse replay: %v", err)
	}
	if rf.Params != nil {
		opts.Params = rf.Params
	}
	if rf.Tier != "" {
		opts.Tier = rf.Tier
	}
	opts.KeepLog = true
	res := fn(t, simrt.ReplayTape(rf.Tape), opts)
	ok := false
	out.Runs = 1
	for _, v := range res.Violations {
		if v.Class == rf.Class {
			ok = true
			out.ReplayClass = v.Class
			out.ReplayDetail = v.Detail
		}
	}
	if !ok && len(res.Violations) > 0 {
		out.ReplayClass = res.Violations[0].Class
		out.ReplayDetail = res.Violations[0].Detail
	}
	out.ReplayHash = fmt.Sprintf("%016x", res.LogHash)
	if ok && rf.LogHash != "" && rf.LogHash != out.ReplayHash {
		// same violation but another schedule: replay is not exact
		ok = false
		out.ReplayDetail = "schedule hash differs from recorded one: " + out.ReplayHash + " vs " + rf.LogHash + "; " + out.ReplayDetail
	}
	out.ReplayOK = &ok
	fmt.Printf("REPLAY class=%q reproduced=%v hash=%s\n", rf.Class, ok, out.ReplayHash)
	if ok {
		fmt.Printf("  detail: %s\n", out.ReplayDetail)
		for _, l := range res.Log {
			fmt.Println("  " + l)
		}
	}
}

// shrink minimises the tape of a failing run while the same violation class
// persists, and returns the replay record.
func shrink(t *testing.T, fn RunFunc, job *Job, opts Opts, seed uint64, tape []uint32, v Violation) ReplayFile {
	best := append([]uint32(nil), tape...)
	orig := len(best)
	budget := 400
	try := func(cand []uint32) bool {
		if budget <= 0 {
			return false
		}
		budget--
		res := fn(t, simrt.ReplayTape(cand), opts)
		if len(res.Invalid) > 0 {
			return false
		}
		return hasClass(job.Known, res, v.Class) != nil
	}
	// 1. truncate (missing entries read as 0)
	lo, hi := 0, len(best)
	for lo < hi {
		mid := (lo + hi) / 2
		if try(best[:mid]) {
			hi = mid
		} else {
			lo = mid + 1
		}
	}
	if hi < len(best) && try(best[:hi]) {
		best = best[:hi]
	}
	// 2. zero blocks
	for size := 16; size >= 1; size /= 2 {
		for i := 0; i+size <= len(best); i += size {
			allZero := true
			for _, x := range best[i : i+size] {
				if x != 0 {
					allZero = false
				}
			}
			if allZero {
				continue
			}
			cand := append([]uint32(nil), best...)
			for j := i; j < i+size; j++ {
				cand[j] = 0
			}
			if try(cand) {
				best = cand
			}
		}
	}
	// 3. lower single values
	for i := range best {
		for best[i] > 0 && budget > 0 {
			cand := append([]uint32(nil), best...)
			cand[i] = best[i] / 2
			if !try(cand) {
				break
			}
			best = cand
		}
	}
	// trailing zeros are implicit
	for len(best) > 0 && best[len(best)-1] == 0 {
		best = best[:len(best)-1]
	}
	// final run with the minimised tape for the record
	o := opts
	o.KeepLog = true
	rt := simrt.ReplayTape(best)
	rt.KeepLabels = true
	res := fn(t, rt, o)
	rf := ReplayFile{Property: job.Property, Scenario: job.Scenario, Tier: job.Tier, Seed: seed, Tape: best,
		Class: v.Class, Detail: v.Detail, OrigLen: orig, Params: job.Params}
	if vv := hasClass(job.Known, res, v.Class); vv != nil {
		rf.Detail = vv.Detail
		rf.LogHash = fmt.Sprintf("%016x", res.LogHash)
		rf.Sample = res.Sample
		rf.Labels = rt.Labels()
		rf.Log = res.Log
		if len(rf.Log) > 400 {
			rf.Log = rf.Log[:400]
		}
	} else {
		// should not happen (the last accepted candidate failed); keep the original
		rf.Tape = tape
		rf.Detail = v.Detail + " (minimisation was not stable; original tape kept)"
	}
	return rf
}

func writeOut(job *Job, out *Out) {
	data, err := json.Marshal(out)
	if err != nil {
		fatal("marshal: %v", err)
	}
	if job.Out == "" {
		os.Stdout.Write(data)
		return
	}
	if err := os.WriteFile(job.Out, data, 0o644); err != nil {
		fatal("write out: %v", err)
	}
}

func setStatus(job *Job, seed uint64) {
	if job.Out == "" {
		return
	}
	_ = os.WriteFile(job.Out+".status", []byte(fmt.Sprintf("%d", seed)), 0o644)
}

func fatal(format string, args ...any) {
	fmt.Fprintf(os.Stderr, "simwork: "+format+"\n", args...)
	os.Exit(2)
}

// startWatchdog turns a frozen simulation (no scheduler progress for 60 s of
// wall time) into exit 2 with a goroutine dump; it never produces a verdict.
func startWatchdog() {
	go func() {
		last := simrt.Progress()
		lastChange := time.Now()
		for {
			time.Sleep(2 * time.Second)
			p := simrt.Progress()
			if p != last {
				last = p
				lastChange = time.Now()
				continue
			}
			if time.Since(lastChange) > 60*time.Second {
				buf := make([]byte, 1<<20)
				n := runtime.Stack(buf, true)
				fmt.Fprintf(os.Stderr, "simwork: WATCHDOG no simulated progress for 60s\n%s\n", buf[:n])
				os.Exit(2)
			}
		}
	}()
}

// allocatedBytes is the cumulative number of heap bytes allocated by the process.
func allocatedBytes() uint64 {
	sample := []metrics.Sample{{Name: "/gc/heap/allocs:bytes"}}
	metrics.Read(sample)
	if sample[0].Value.Kind() == metrics.KindUint64 {
		return sample[0].Value.Uint64()
	}
	return 0
}
