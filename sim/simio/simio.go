//go:build verif

// Package simio provides simulated byte streams: the only "pipes", "sockets"
// and "bodies" the code under test sees in engine S. Every chunk size, arrival
// time and fault comes from the choice tape; blocking happens on the bubble's
// fake clock and is annotated for the scheduler.
package simio

import (
	"errors"
	"io"
	"time"

	"connectrpc.com/conformance/internal/verifsim/simrt"
)

// How a stream ends.
const (
	EndEOF         = iota // clean end of file after the data
	EndEOFWithData        // the last bytes are returned together with io.EOF
	EndError              // a non-EOF error after the data
	EndStall              // no more data, never closed: only a clock can end the wait
	EndErrorWithData      // the last bytes are returned together with the error
)

// ErrInjected is the non-EOF I/O error injected by EndError.
var ErrInjected = errors.New("simio: injected I/O error")

// Segment is a piece of the stream that becomes readable Delay after the
// previous segment did.
type Segment struct {
	Data  []byte
	Delay time.Duration
}

// Reader is a simulated input stream.
type Reader struct {
	Segs     []Segment
	End      int
	EndDelay time.Duration // delay of the end event after the last segment
	Err      error         // error for EndError (default ErrInjected)
	Tape     *simrt.Tape   // used for chunk sizes when no simulator is attached
	// Boundaries, if set, are stream offsets (message and prefix ends) that the
	// chunk planner likes to stop at exactly.
	Boundaries []int
	// SmallChunks biases towards 1..8 byte reads.
	SmallChunks bool
	// WholeReads disables chunking (a read gets everything available).
	WholeReads bool
	// ZeroReadBlocks makes a Read with an empty buffer behave like io.Pipe:
	// it blocks until the peer's next write (returns 0, nil) or the end of
	// the stream. OS pipes return at once instead.
	ZeroReadBlocks bool

	// observations
	Reads     int // Read calls with a non-empty buffer
	ZeroReads int // Read calls with an empty buffer
	BytesOut  int
	EndSeen   bool
	Chunks    []int

	started  bool
	start    time.Time
	arrivals []time.Duration // arrival time of each segment
	endAt    time.Duration
	buf      []byte // concatenation of all segments
	segEnd   []int  // end offset of each segment in buf
	closed   chan struct{}
	isClosed bool
}

func (r *Reader) init() {
	if r.started {
		return
	}
	r.started = true
	r.start = time.Now()
	var t time.Duration
	for _, s := range r.Segs {
		t += s.Delay
		r.arrivals = append(r.arrivals, t)
		r.buf = append(r.buf, s.Data...)
		r.segEnd = append(r.segEnd, len(r.buf))
	}
	r.endAt = t + r.EndDelay
	r.closed = make(chan struct{})
	if r.Err == nil {
		r.Err = ErrInjected
	}
}

// Start fixes time zero of the stream (otherwise the first Read does).
func (r *Reader) Start() { r.init() }

// Total is the number of bytes the stream carries.
func (r *Reader) Total() int {
	r.init()
	return len(r.buf)
}

// ArrivalOf returns when byte offset off (0-based) becomes readable.
func (r *Reader) ArrivalOf(off int) time.Duration {
	r.init()
	for i, e := range r.segEnd {
		if off < e {
			return r.arrivals[i]
		}
	}
	return r.endAt
}

// EndAt returns when the end event (EOF / error) becomes observable.
func (r *Reader) EndAt() time.Duration {
	r.init()
	return r.endAt
}

func (r *Reader) choose(n int, label string) int {
	if s := simrt.Current(); s != nil {
		return s.Choose(n, label)
	}
	if r.Tape != nil {
		return r.Tape.Choose(n, label)
	}
	return n - 1
}

// available returns the stream offset up to which data has arrived, and the
// time until the next arrival (or end event); wait < 0 means nothing further
// will ever happen (stall).
func (r *Reader) available() (upto int, wait time.Duration, ended bool) {
	now := time.Since(r.start)
	for i, a := range r.arrivals {
		if a <= now {
			upto = r.segEnd[i]
		} else {
			return upto, a - now, false
		}
	}
	if r.End == EndStall {
		return upto, -1, false
	}
	if r.endAt <= now {
		return upto, 0, true
	}
	return upto, r.endAt - now, false
}

// Close unblocks a stalled Read (used by harnesses to end a run).
func (r *Reader) Close() error {
	r.init()
	if !r.isClosed {
		r.isClosed = true
		close(r.closed)
	}
	return nil
}

func (r *Reader) Read(p []byte) (int, error) {
	r.init()
	if len(p) == 0 {
		r.ZeroReads++
		if !r.ZeroReadBlocks {
			return 0, nil
		}
		simrt.Yield("simio.read0")
		for {
			if r.isClosed {
				return 0, io.ErrClosedPipe
			}
			upto, wait, ended := r.available()
			if r.BytesOut < upto {
				return 0, nil
			}
			if ended {
				if r.End == EndError || r.End == EndErrorWithData {
					return 0, r.Err
				}
				return 0, io.EOF
			}
			if wait < 0 {
				<-r.closed
				simrt.AfterBlock("simio.read0.stall")
				continue
			}
			tm := time.NewTimer(wait)
			select {
			case <-tm.C:
			case <-r.closed:
				tm.Stop()
			}
			simrt.AfterBlock("simio.read0.wait")
		}
	}
	r.Reads++
	simrt.Yield("simio.read")
	for {
		if r.isClosed {
			return 0, io.ErrClosedPipe
		}
		upto, wait, ended := r.available()
		if r.BytesOut < upto {
			n := r.plan(upto-r.BytesOut, len(p))
			copy(p, r.buf[r.BytesOut:r.BytesOut+n])
			r.BytesOut += n
			r.Chunks = append(r.Chunks, n)
			if r.BytesOut == len(r.buf) && ended {
				switch r.End {
				case EndEOFWithData:
					r.EndSeen = true
					return n, io.EOF
				case EndErrorWithData:
					r.EndSeen = true
					return n, r.Err
				}
			}
			return n, nil
		}
		if ended {
			r.EndSeen = true
			switch r.End {
			case EndError, EndErrorWithData:
				return 0, r.Err
			default:
				return 0, io.EOF
			}
		}
		// block until something arrives
		if wait < 0 {
			<-r.closed
			simrt.AfterBlock("simio.read.stall")
			continue
		}
		tm := time.NewTimer(wait)
		select {
		case <-tm.C:
		case <-r.closed:
			tm.Stop()
		}
		simrt.AfterBlock("simio.read.wait")
	}
}

// plan picks how many of the avail bytes this Read returns (at most want).
func (r *Reader) plan(avail, want int) int {
	max := avail
	if want < max {
		max = want
	}
	if max <= 1 || r.WholeReads {
		return max
	}
	kind := r.choose(4, "io.chunkkind")
	if r.SmallChunks && kind == 3 {
		kind = 1
	}
	switch kind {
	case 0:
		return max
	case 1:
		n := 1 + r.choose(8, "io.small")
		if n > max {
			n = max
		}
		return n
	case 2:
		// stop exactly at the next boundary if one is in reach
		for _, b := range r.Boundaries {
			if b > r.BytesOut && b-r.BytesOut <= max {
				return b - r.BytesOut
			}
		}
		return max
	default:
		return 1 + r.choose(max, "io.chunk")
	}
}

// ---------------------------------------------------------------------------

// Writer is a simulated output stream that records what was written and can
// inject short writes and write errors.
type Writer struct {
	Tape    *simrt.Tape
	FailAt  int  // >=0: the write that crosses this offset fails after writing up to it
	Short   bool // failing write reports the bytes it did write (n < len) with the error
	Err     error
	Data    []byte
	Writes  []int
	Failed  bool
	Partial bool // split accepted writes into several recorded pieces (no effect on the caller)
}

// NewWriter returns a Writer without faults.
func NewWriter() *Writer { return &Writer{FailAt: -1} }

func (w *Writer) Write(p []byte) (int, error) {
	simrt.Yield("simio.write")
	if w.Failed {
		if w.Err == nil {
			w.Err = ErrInjected
		}
		return 0, w.Err
	}
	if w.FailAt >= 0 && len(w.Data)+len(p) > w.FailAt {
		keep := w.FailAt - len(w.Data)
		if keep < 0 {
			keep = 0
		}
		w.Data = append(w.Data, p[:keep]...)
		w.Writes = append(w.Writes, keep)
		w.Failed = true
		if w.Err == nil {
			w.Err = ErrInjected
		}
		if w.Short {
			return keep, w.Err
		}
		return keep, w.Err
	}
	w.Data = append(w.Data, p...)
	w.Writes = append(w.Writes, len(p))
	return len(p), nil
}

// Split cuts data into segments at tape-chosen points with tape-chosen delays.
// delays lists the candidate gaps; index 0 should be 0 (most gaps are zero).
func Split(tape *simrt.Tape, data []byte, maxSegs int, delays []time.Duration) []Segment {
	if len(data) == 0 {
		return nil
	}
	n := 1 + tape.Choose(maxSegs, "io.nsegs")
	cuts := map[int]bool{}
	for i := 1; i < n; i++ {
		cuts[1+tape.Choose(len(data), "io.cut")] = true
	}
	var segs []Segment
	prev := 0
	for off := 1; off <= len(data); off++ {
		if cuts[off] || off == len(data) {
			d := time.Duration(0)
			if len(delays) > 0 && tape.Bool(1, 3, "io.delayed") {
				d = delays[tape.Choose(len(delays), "io.delay")]
			}
			segs = append(segs, Segment{Data: data[prev:off], Delay: d})
			prev = off
		}
	}
	return segs
}
