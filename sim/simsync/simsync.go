//go:build verif

// Package simsync provides a mutex whose Lock blocks durably (on a channel)
// so that a goroutine waiting for it does not keep a testing/synctest bubble's
// fake clock from advancing. In engine N the repository's own sync.Mutex
// declarations are replaced by this type (identical exclusion semantics).
package simsync

import "sync/atomic"

// Mutex is a drop-in replacement for sync.Mutex (zero value is unlocked).
type Mutex struct {
	ch atomic.Pointer[chan struct{}]
}

func (m *Mutex) c() chan struct{} {
	if p := m.ch.Load(); p != nil {
		return *p
	}
	c := make(chan struct{}, 1)
	if m.ch.CompareAndSwap(nil, &c) {
		return c
	}
	return *m.ch.Load()
}

// Lock acquires the mutex.
func (m *Mutex) Lock() { m.c() <- struct{}{} }

// TryLock acquires the mutex if it is free.
func (m *Mutex) TryLock() bool {
	select {
	case m.c() <- struct{}{}:
		return true
	default:
		return false
	}
}

// Unlock releases the mutex.
func (m *Mutex) Unlock() {
	select {
	case <-m.c():
	default:
		panic("simsync: unlock of unlocked mutex")
	}
}
