//go:build verif

// Package simnet is an in-memory network for engine N: TCP-like stream
// connections and UDP-like packet sockets addressed by fake 127.0.0.1:port
// addresses. Writes never block (unbounded buffers: protocol stacks hold their
// write mutex across conn.Write); all waiting is on sync.Cond / channels /
// bubble timers, which testing/synctest treats as durable. Per connection and
// direction a private PRNG derived from the process seed decides segmentation
// and latency, so the perturbation depends only on the stream position.
package simnet

import (
	"context"
	"errors"
	"fmt"
	"io"
	"net"
	"os"
	"strconv"
	"sync"
	"sync/atomic"
	"syscall"
	"time"
)

// Config is the process-wide perturbation level.
type Config struct {
	Seed         uint64
	MaxSegment   int           // 0: a write is one segment; else segments of 1..MaxSegment bytes
	SmallPermil  int           // per mille of segments that are 1..8 bytes
	MaxLatency   time.Duration // per segment, uniform in [0, MaxLatency]
	MaxDatagram  time.Duration // per datagram latency, uniform in [MinDatagram, MaxDatagram]
	MinDatagram  time.Duration
}

var cfg atomic.Pointer[Config]

// Configure sets the perturbation level (before any connection is made).
func Configure(c Config) { cfg.Store(&c) }

// Stats counts what the network did (reported in evidence).
var Stats struct {
	Conns, Listens, Refused         atomic.Int64
	Segments, Bytes, DelayedSegs    atomic.Int64
	Datagrams, DroppedDatagrams     atomic.Int64
	SmallSegments                   atomic.Int64
}

type prng struct{ s uint64 }

func (p *prng) next() uint64 {
	p.s += 0x9e3779b97f4a7c15
	z := p.s
	z = (z ^ (z >> 30)) * 0xbf58476d1ce4e5b9
	z = (z ^ (z >> 27)) * 0x94d049bb133111eb
	return z ^ (z >> 31)
}

func (p *prng) intn(n int) int {
	if n <= 1 {
		return 0
	}
	return int(p.next() % uint64(n))
}

func derive(vals ...uint64) *prng {
	var s uint64 = 0x243f6a8885a308d3
	c := cfg.Load()
	if c != nil {
		s ^= c.Seed
	}
	p := &prng{s: s}
	for _, v := range vals {
		p.s ^= v
		p.next()
	}
	return p
}

// ---------------------------------------------------------------------------
// the network

type network struct {
	mu        sync.Mutex
	listeners map[int]*listener
	packets   map[int]*PacketConn
	nextPort  int
	connSeq   map[int]int
	conns     []*conn // every stream connection created since the last Reset (both ends)
}

var netw = &network{listeners: map[int]*listener{}, packets: map[int]*PacketConn{}, nextPort: 20000, connSeq: map[int]int{}}

func (n *network) allocPort(want int, tcp bool) (int, error) {
	if want != 0 {
		if tcp {
			if _, busy := n.listeners[want]; busy {
				return 0, &net.OpError{Op: "listen", Net: "tcp", Err: os.NewSyscallError("bind", syscall.EADDRINUSE)}
			}
		} else if _, busy := n.packets[want]; busy {
			return 0, &net.OpError{Op: "listen", Net: "udp", Err: os.NewSyscallError("bind", syscall.EADDRINUSE)}
		}
		return want, nil
	}
	for {
		n.nextPort++
		p := n.nextPort
		_, a := n.listeners[p]
		_, b := n.packets[p]
		if !a && !b {
			return p, nil
		}
	}
}

func splitPort(addr string) (int, error) {
	_, portStr, err := net.SplitHostPort(addr)
	if err != nil {
		return 0, err
	}
	if portStr == "" {
		return 0, nil
	}
	return strconv.Atoi(portStr)
}

var loopback = net.IPv4(127, 0, 0, 1)

// ---------------------------------------------------------------------------
// TCP-like

type listener struct {
	port    int
	mu      sync.Mutex
	cond    *sync.Cond
	backlog []*conn
	closed  bool
}

// Listen is the replacement for net.Listen("tcp", addr).
func Listen(network, addr string) (net.Listener, error) {
	port, err := splitPort(addr)
	if err != nil {
		return nil, err
	}
	netw.mu.Lock()
	defer netw.mu.Unlock()
	p, err := netw.allocPort(port, true)
	if err != nil {
		return nil, err
	}
	l := &listener{port: p}
	l.cond = sync.NewCond(&l.mu)
	netw.listeners[p] = l
	Stats.Listens.Add(1)
	return l, nil
}

func (l *listener) Accept() (net.Conn, error) {
	l.mu.Lock()
	defer l.mu.Unlock()
	for len(l.backlog) == 0 && !l.closed {
		l.cond.Wait()
	}
	if l.closed {
		return nil, &net.OpError{Op: "accept", Net: "tcp", Addr: l.Addr(), Err: net.ErrClosed}
	}
	c := l.backlog[0]
	l.backlog = l.backlog[1:]
	return c, nil
}

func (l *listener) Close() error {
	netw.mu.Lock()
	if netw.listeners[l.port] == l {
		delete(netw.listeners, l.port)
	}
	netw.mu.Unlock()
	l.mu.Lock()
	already := l.closed
	l.closed = true
	pending := l.backlog
	l.backlog = nil
	l.cond.Broadcast()
	l.mu.Unlock()
	for _, c := range pending {
		_ = c.Close()
	}
	if already {
		return &net.OpError{Op: "close", Net: "tcp", Addr: l.Addr(), Err: net.ErrClosed}
	}
	return nil
}

func (l *listener) Addr() net.Addr { return &net.TCPAddr{IP: loopback, Port: l.port} }

// DialContext is the replacement for (&net.Dialer{}).DialContext.
func DialContext(ctx context.Context, network, addr string) (net.Conn, error) {
	if err := ctx.Err(); err != nil {
		return nil, err
	}
	port, err := splitPort(addr)
	if err != nil {
		return nil, err
	}
	netw.mu.Lock()
	l := netw.listeners[port]
	var local int
	var seq int
	if l != nil {
		local, _ = netw.allocPort(0, true)
		netw.connSeq[port]++
		seq = netw.connSeq[port]
	}
	netw.mu.Unlock()
	if l == nil {
		Stats.Refused.Add(1)
		return nil, &net.OpError{Op: "dial", Net: "tcp", Addr: &net.TCPAddr{IP: loopback, Port: port}, Err: os.NewSyscallError("connect", syscall.ECONNREFUSED)}
	}
	c2s := newHalf(derive(uint64(port), uint64(seq), 1))
	s2c := newHalf(derive(uint64(port), uint64(seq), 2))
	client := &conn{rd: s2c, wr: c2s, local: &net.TCPAddr{IP: loopback, Port: local}, remote: &net.TCPAddr{IP: loopback, Port: port}}
	server := &conn{rd: c2s, wr: s2c, local: &net.TCPAddr{IP: loopback, Port: port}, remote: &net.TCPAddr{IP: loopback, Port: local}}
	l.mu.Lock()
	if l.closed {
		l.mu.Unlock()
		Stats.Refused.Add(1)
		return nil, &net.OpError{Op: "dial", Net: "tcp", Addr: server.local, Err: os.NewSyscallError("connect", syscall.ECONNREFUSED)}
	}
	l.backlog = append(l.backlog, server)
	l.cond.Broadcast()
	l.mu.Unlock()
	Stats.Conns.Add(1)
	netw.mu.Lock()
	netw.conns = append(netw.conns, client, server)
	netw.mu.Unlock()
	return client, nil
}

// CloseAll closes every connection, listener and datagram socket that was
// created since the last Reset: "the machines are switched off". A harness
// calls it at the end of a run so that goroutines of the protocol stacks that
// are still parked in a Read (idle keep-alive connections of transports that
// nobody closes because a real process would simply exit) end, instead of
// outliving the run.
func CloseAll() {
	netw.mu.Lock()
	conns := netw.conns
	netw.conns = nil
	var ls []*listener
	for _, l := range netw.listeners {
		ls = append(ls, l)
	}
	var ps []*PacketConn
	for _, p := range netw.packets {
		ps = append(ps, p)
	}
	netw.mu.Unlock()
	for _, c := range conns {
		_ = c.Close()
	}
	for _, l := range ls {
		_ = l.Close()
	}
	for _, p := range ps {
		_ = p.Close()
	}
}

type segment struct {
	data []byte
	at   time.Time
}

// half is one direction of a connection.
type half struct {
	mu       sync.Mutex
	cond     *sync.Cond
	queue    []segment
	lastAt   time.Time
	wclosed  bool // writer closed: EOF after the queue drains
	rclosed  bool // reader closed: writes fail
	rng      *prng
	deadline time.Time
	dlTimer  *time.Timer
	wakeTm   *time.Timer
}

func newHalf(r *prng) *half {
	h := &half{rng: r}
	h.cond = sync.NewCond(&h.mu)
	return h
}

func (h *half) write(p []byte) (int, error) {
	h.mu.Lock()
	defer h.mu.Unlock()
	if h.wclosed {
		return 0, &net.OpError{Op: "write", Net: "tcp", Err: net.ErrClosed}
	}
	if h.rclosed {
		// The peer has closed its end. A TCP stack accepts (and then drops)
		// such data until a reset comes back; whether and when the writer
		// notices is timing dependent in reality. The benign choice is made:
		// the write succeeds and the bytes are discarded.
		return len(p), nil
	}
	c := cfg.Load()
	now := time.Now()
	rest := p
	for len(rest) > 0 {
		n := len(rest)
		if c != nil && c.MaxSegment > 0 {
			if c.SmallPermil > 0 && h.rng.intn(1000) < c.SmallPermil {
				n = 1 + h.rng.intn(8)
				Stats.SmallSegments.Add(1)
			} else {
				n = 1 + h.rng.intn(c.MaxSegment)
			}
			if n > len(rest) {
				n = len(rest)
			}
		}
		at := now
		if c != nil && c.MaxLatency > 0 {
			at = now.Add(time.Duration(h.rng.intn(int(c.MaxLatency) + 1)))
			Stats.DelayedSegs.Add(1)
		}
		if at.Before(h.lastAt) {
			at = h.lastAt // in-order delivery
		}
		h.lastAt = at
		data := make([]byte, n)
		copy(data, rest[:n])
		h.queue = append(h.queue, segment{data: data, at: at})
		Stats.Segments.Add(1)
		Stats.Bytes.Add(int64(n))
		rest = rest[n:]
	}
	h.cond.Broadcast()
	return len(p), nil
}

func (h *half) read(p []byte) (int, error) {
	h.mu.Lock()
	defer h.mu.Unlock()
	for {
		if h.rclosed {
			return 0, &net.OpError{Op: "read", Net: "tcp", Err: net.ErrClosed}
		}
		if len(p) == 0 {
			return 0, nil
		}
		now := time.Now()
		if len(h.queue) > 0 {
			head := &h.queue[0]
			if !head.at.After(now) {
				n := copy(p, head.data)
				if n == len(head.data) {
					h.queue = h.queue[1:]
				} else {
					head.data = head.data[n:]
				}
				return n, nil
			}
			// wake up when the head segment arrives
			d := head.at.Sub(now)
			if h.wakeTm != nil {
				h.wakeTm.Stop()
			}
			h.wakeTm = time.AfterFunc(d, func() {
				h.mu.Lock()
				h.cond.Broadcast()
				h.mu.Unlock()
			})
		} else if h.wclosed {
			return 0, io.EOF
		}
		if !h.deadline.IsZero() && !h.deadline.After(now) {
			return 0, &net.OpError{Op: "read", Net: "tcp", Err: os.ErrDeadlineExceeded}
		}
		h.cond.Wait()
	}
}

func (h *half) setDeadline(t time.Time) {
	h.mu.Lock()
	defer h.mu.Unlock()
	h.deadline = t
	if h.dlTimer != nil {
		h.dlTimer.Stop()
		h.dlTimer = nil
	}
	if !t.IsZero() {
		d := time.Until(t)
		if d < 0 {
			d = 0
		}
		h.dlTimer = time.AfterFunc(d, func() {
			h.mu.Lock()
			h.cond.Broadcast()
			h.mu.Unlock()
		})
	}
	h.cond.Broadcast()
}

type conn struct {
	rd, wr        *half
	local, remote *net.TCPAddr
	closeOnce     sync.Once
}

func (c *conn) Read(p []byte) (int, error)  { return c.rd.read(p) }
func (c *conn) Write(p []byte) (int, error) { return c.wr.write(p) }
func (c *conn) Close() error {
	c.closeOnce.Do(func() {
		c.wr.mu.Lock()
		c.wr.wclosed = true
		c.wr.cond.Broadcast()
		c.wr.mu.Unlock()
		c.rd.mu.Lock()
		c.rd.rclosed = true
		c.rd.cond.Broadcast()
		c.rd.mu.Unlock()
	})
	return nil
}

// CloseWrite half-closes the connection (TCP FIN).
func (c *conn) CloseWrite() error {
	c.wr.mu.Lock()
	c.wr.wclosed = true
	c.wr.cond.Broadcast()
	c.wr.mu.Unlock()
	return nil
}
func (c *conn) LocalAddr() net.Addr  { return c.local }
func (c *conn) RemoteAddr() net.Addr { return c.remote }
func (c *conn) SetDeadline(t time.Time) error {
	c.rd.setDeadline(t)
	return nil
}
func (c *conn) SetReadDeadline(t time.Time) error {
	c.rd.setDeadline(t)
	return nil
}
func (c *conn) SetWriteDeadline(time.Time) error { return nil } // writes never block

// ---------------------------------------------------------------------------
// UDP-like

type datagram struct {
	data []byte
	from *net.UDPAddr
	at   time.Time
}

// PacketConn is an in-memory UDP socket.
type PacketConn struct {
	port     int
	mu       sync.Mutex
	cond     *sync.Cond
	queue    []datagram
	closed   bool
	deadline time.Time
	dlTimer  *time.Timer
	wakeTm   *time.Timer
	rng      *prng
}

// ListenPacket is the replacement for net.ListenPacket("udp", addr).
func ListenPacket(network, addr string) (*PacketConn, error) {
	port, err := splitPort(addr)
	if err != nil {
		return nil, err
	}
	netw.mu.Lock()
	defer netw.mu.Unlock()
	p, err := netw.allocPort(port, false)
	if err != nil {
		return nil, err
	}
	pc := &PacketConn{port: p, rng: derive(uint64(p), 7)}
	pc.cond = sync.NewCond(&pc.mu)
	netw.packets[p] = pc
	return pc, nil
}

// ResolveUDPAddr resolves "host:port" to a fake loopback address.
func ResolveUDPAddr(addr string) (*net.UDPAddr, error) {
	port, err := splitPort(addr)
	if err != nil {
		return nil, err
	}
	return &net.UDPAddr{IP: loopback, Port: port}, nil
}

func (p *PacketConn) ReadFrom(b []byte) (int, net.Addr, error) {
	p.mu.Lock()
	defer p.mu.Unlock()
	for {
		if p.closed {
			return 0, nil, &net.OpError{Op: "read", Net: "udp", Err: net.ErrClosed}
		}
		now := time.Now()
		// deliver the earliest datagram that has arrived
		best := -1
		var next time.Time
		for i := range p.queue {
			if !p.queue[i].at.After(now) {
				if best < 0 || p.queue[i].at.Before(p.queue[best].at) {
					best = i
				}
			} else if next.IsZero() || p.queue[i].at.Before(next) {
				next = p.queue[i].at
			}
		}
		if best >= 0 {
			d := p.queue[best]
			p.queue = append(p.queue[:best], p.queue[best+1:]...)
			n := copy(b, d.data)
			return n, d.from, nil
		}
		if !p.deadline.IsZero() && !p.deadline.After(now) {
			return 0, nil, &net.OpError{Op: "read", Net: "udp", Err: os.ErrDeadlineExceeded}
		}
		if !next.IsZero() {
			if p.wakeTm != nil {
				p.wakeTm.Stop()
			}
			p.wakeTm = time.AfterFunc(next.Sub(now), func() {
				p.mu.Lock()
				p.cond.Broadcast()
				p.mu.Unlock()
			})
		}
		p.cond.Wait()
	}
}

func (p *PacketConn) WriteTo(b []byte, addr net.Addr) (int, error) {
	ua, ok := addr.(*net.UDPAddr)
	if !ok {
		return 0, errors.New("simnet: not a UDP address")
	}
	p.mu.Lock()
	closed := p.closed
	var lat time.Duration
	c := cfg.Load()
	if c != nil && c.MaxDatagram > 0 {
		lat = c.MinDatagram + time.Duration(p.rng.intn(int(c.MaxDatagram-c.MinDatagram)+1))
	}
	p.mu.Unlock()
	if closed {
		return 0, &net.OpError{Op: "write", Net: "udp", Err: net.ErrClosed}
	}
	netw.mu.Lock()
	dst := netw.packets[ua.Port]
	netw.mu.Unlock()
	Stats.Datagrams.Add(1)
	if dst == nil {
		Stats.DroppedDatagrams.Add(1)
		return len(b), nil // nobody listens: the datagram is lost
	}
	data := make([]byte, len(b))
	copy(data, b)
	dst.mu.Lock()
	if !dst.closed {
		dst.queue = append(dst.queue, datagram{data: data, from: &net.UDPAddr{IP: loopback, Port: p.port}, at: time.Now().Add(lat)})
		dst.cond.Broadcast()
	}
	dst.mu.Unlock()
	return len(b), nil
}

func (p *PacketConn) Close() error {
	netw.mu.Lock()
	if netw.packets[p.port] == p {
		delete(netw.packets, p.port)
	}
	netw.mu.Unlock()
	p.mu.Lock()
	p.closed = true
	p.cond.Broadcast()
	p.mu.Unlock()
	return nil
}

func (p *PacketConn) LocalAddr() net.Addr { return &net.UDPAddr{IP: loopback, Port: p.port} }
func (p *PacketConn) SetDeadline(t time.Time) error { return p.SetReadDeadline(t) }
func (p *PacketConn) SetReadDeadline(t time.Time) error {
	p.mu.Lock()
	defer p.mu.Unlock()
	p.deadline = t
	if p.dlTimer != nil {
		p.dlTimer.Stop()
		p.dlTimer = nil
	}
	if !t.IsZero() {
		d := time.Until(t)
		if d < 0 {
			d = 0
		}
		p.dlTimer = time.AfterFunc(d, func() {
			p.mu.Lock()
			p.cond.Broadcast()
			p.mu.Unlock()
		})
	}
	p.cond.Broadcast()
	return nil
}
func (p *PacketConn) SetWriteDeadline(time.Time) error { return nil }

// Describe returns a short description of the current level (for evidence).
func Describe() string {
	c := cfg.Load()
	if c == nil {
		return "no perturbation"
	}
	return fmt.Sprintf("seed=%d max-segment=%d small=%d/1000 max-latency=%s datagram-latency=%s..%s", c.Seed, c.MaxSegment, c.SmallPermil, c.MaxLatency, c.MinDatagram, c.MaxDatagram)
}

// DialVia replaces d.DialContext(ctx, network, addr) for a net.Dialer d (the
// dialer value is ignored: timeouts are the context's business).
func DialVia(_ any, ctx context.Context, network, addr string) (net.Conn, error) {
	return DialContext(ctx, network, addr)
}

// Reset forgets all listeners and sockets (between bubbles of one process).
func Reset() {
	netw.mu.Lock()
	defer netw.mu.Unlock()
	netw.listeners = map[int]*listener{}
	netw.packets = map[int]*PacketConn{}
	netw.connSeq = map[int]int{}
	netw.nextPort = 20000
	netw.conns = nil
}
