//go:build verif

package simrt

import (
	"context"
	"io"
	"time"
)

// The helpers below are what hand-written harness code (scripted peers,
// workload tasks) uses around its own blocking operations; they are the
// manual equivalent of what the instrumenter inserts into product code.

// Read performs r.Read(p) as an annotated blocking operation.
func Read(r io.Reader, p []byte, site string) (int, error) {
	Yield(site)
	n, err := r.Read(p)
	AfterBlock(site)
	return n, err
}

// ReadFull reads exactly len(p) bytes unless the stream ends.
func ReadFull(r io.Reader, p []byte, site string) (int, error) {
	var off int
	for off < len(p) {
		n, err := Read(r, p[off:], site)
		off += n
		if err != nil {
			if err == io.EOF && off > 0 && off < len(p) {
				return off, io.ErrUnexpectedEOF
			}
			if off == len(p) {
				return off, nil
			}
			return off, err
		}
	}
	return off, nil
}

// Write performs w.Write(p) as an annotated blocking operation.
func Write(w io.Writer, p []byte, site string) (int, error) {
	Yield(site)
	n, err := w.Write(p)
	AfterBlock(site)
	return n, err
}

// Close performs c.Close() as an annotated blocking operation.
func Close(c io.Closer, site string) error {
	Yield(site)
	err := c.Close()
	AfterBlock(site)
	return err
}

// Sleep sleeps on the bubble's clock.
func Sleep(d time.Duration, site string) {
	Yield(site)
	time.Sleep(d)
	AfterBlock(site)
}

// SleepCtx sleeps for d or until ctx is done; it reports whether ctx ended it.
func SleepCtx(ctx context.Context, d time.Duration, site string) bool {
	Yield(site)
	tm := time.NewTimer(d)
	defer tm.Stop()
	select {
	case <-ctx.Done():
		AfterBlock(site)
		return true
	case <-tm.C:
		AfterBlock(site)
		return false
	}
}

// Recv receives from ch as an annotated blocking operation.
func Recv[T any](ch <-chan T, site string) (T, bool) {
	Yield(site)
	v, ok := <-ch
	AfterBlock(site)
	return v, ok
}

// Send sends on ch as an annotated blocking operation.
func Send[T any](ch chan<- T, v T, site string) {
	Yield(site)
	ch <- v
	AfterBlock(site)
}

// ChanMutex is a mutex whose Lock blocks durably (channel based), for use by
// harness code inside the bubble.
type ChanMutex chan struct{}

// NewChanMutex returns an unlocked ChanMutex.
func NewChanMutex() ChanMutex { return make(ChanMutex, 1) }

// Lock acquires m.
func (m ChanMutex) Lock(site string) {
	Yield(site)
	m <- struct{}{}
	AfterBlock(site)
}

// Unlock releases m.
func (m ChanMutex) Unlock() { <-m }
