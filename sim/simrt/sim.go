//go:build verif

package simrt

import (
	"fmt"
	"hash/fnv"
	"runtime"
	"runtime/debug"
	"sort"
	"strings"
	"sync"
	"sync/atomic"
	"testing/synctest"
	"time"
)

// hook kinds
const (
	kindYield = iota
	kindLock
	kindAfterBlock
	kindStart
)

type taskState int

const (
	stRunning taskState = iota // holds the token (was released by the scheduler)
	stParked                   // at a hook, waiting to be released
	stBlocked                  // lost the token by blocking durably outside a hook
	stExited
)

// Task is a registered goroutine of instrumented (or harness) code.
type Task struct {
	ID    int
	Name  string
	gid   int64
	state taskState
	site  string
	kind  int
	probe func() bool // non-nil for lock hooks: would the lock be acquirable now?
	wake  chan struct{}
	// Blocked records the last site after which the task was found blocked.
	lastSite string
	fresh    bool // auto-registered and not yet parked once
	since    int  // scheduler step at which the task became runnable (parked and eligible)
}

// StepRec describes one scheduler step (KeepSteps).
type StepRec struct {
	Step int
	Task int
	Lock bool // the task was released at a lock acquisition site
	Site string
	At   time.Duration
}

// EndReason says why a run ended.
type EndReason int

const (
	EndGoal    EndReason = iota // goal reached and system settled
	EndIdle                     // horizon fired with the goal not reached: nothing can happen any more
	EndBudget                   // step budget exhausted
	EndStopped                  // Stop() was called by the scenario
)

func (e EndReason) String() string {
	switch e {
	case EndGoal:
		return "goal"
	case EndIdle:
		return "idle-without-goal"
	case EndBudget:
		return "step-budget"
	case EndStopped:
		return "stopped"
	}
	return "?"
}

// Sim is one simulated run. Create it inside a synctest bubble.
type Sim struct {
	Tape *Tape

	// Goal reports whether the scenario has reached its goal; evaluated by the
	// scheduler while every task is parked or blocked. May be nil (never).
	Goal func() bool
	// Settle is how long (simulated) the system must stay idle after the goal
	// holds before the run ends; Horizon is the same without the goal.
	Settle, Horizon time.Duration
	// MaxSteps bounds the run.
	MaxSteps int
	// KeepLog keeps the full step log (otherwise only its hash).
	KeepLog bool
	// Invariant, if set, is evaluated after every step; a non-empty string is
	// recorded as a violation event and ends the run.
	Invariant func() string

	mu       sync.Mutex
	byGID    map[int64]*Task
	tasks    []*Task
	parked   []*Task
	current  *Task
	arrival  chan struct{}
	ended    bool
	forever  chan struct{}
	steps    int
	switches int
	preempts int
	nextID   int
	lastRun  int
	logHash  uint64
	log      []string
	events   []string // anomalies: unannotated blocking sites, panics
	panics   []string
	invalid  []string
	start    time.Time
	siteCnt  map[string]int
	policy   int
	stickyP  int
	End      EndReason
	endSites []string
	invMsg   string
	stopReq  atomic.Bool
	rootGID  int64 // the goroutine that created the simulator and runs the scheduler: hooks are no-ops on it
	// DelayedRunnable counts steps at which the scheduler let the clock
	// advance although tasks were runnable ("slow node" fault).
	DelayedRunnable int
	// SlowNodePermille: probability (per mille, per step) of the slow-node
	// fault; 0 disables.
	SlowNodePermille int
	// FairBound, when > 0, makes the scheduler fair: a task that has been
	// runnable for FairBound steps is released next (oldest first). Oracles
	// that state progress "within N steps" are only sound in such runs.
	FairBound int
	// ForcedFair counts the steps at which fairness overrode the tape.
	ForcedFair int
	// KeepSteps records (task, hook kind, simulated time) of every step, so a
	// scenario can read off at which step an operation's critical section ran.
	KeepSteps bool
	StepRecs  []StepRec
	// MaxWait is the largest number of steps any task spent runnable before it
	// was released (measured; progress oracles derive their step bounds from it).
	MaxWait int
}

var cur atomic.Pointer[Sim]

// progress is bumped by every scheduler step; a wall-clock watchdog outside
// the bubble uses it to turn a frozen simulation into exit 2.
var progress atomic.Uint64

// Progress returns the global step counter (for watchdogs).
func Progress() uint64 { return progress.Load() }

// Active reports whether a simulator is attached.
func Active() bool { return cur.Load() != nil }

// Current returns the attached simulator or nil.
func Current() *Sim { return cur.Load() }

// New creates a simulator and attaches it. Must be called inside a bubble.
func New(tape *Tape) *Sim {
	s := &Sim{
		Tape:     tape,
		Settle:   90 * time.Second,
		Horizon:  10 * time.Minute,
		MaxSteps: 20000,
		byGID:    map[int64]*Task{},
		arrival:  make(chan struct{}, 1),
		forever:  make(chan struct{}),
		siteCnt:  map[string]int{},
		start:    time.Now(),
		lastRun:  -1,
		logHash:  14695981039346656037,
		rootGID:  goid(),
	}
	cur.Store(s)
	return s
}

// Detach removes the simulator; hooks become no-ops again. Goroutines that are
// still parked stay parked (they are leaked with the bubble).
func (s *Sim) Detach() { cur.CompareAndSwap(s, nil) }

// Elapsed is the simulated time since the simulator was created.
func (s *Sim) Elapsed() time.Duration { return time.Since(s.start) }

// Steps returns the number of scheduler steps so far.
func (s *Sim) Steps() int { return s.steps }

// Switches returns the number of steps at which a different task than the
// previous one was released.
func (s *Sim) Switches() int { return s.switches }

// LogHash is a hash over the step log (task, site) and is what "distinct
// schedules" are counted by.
func (s *Sim) LogHash() uint64 { return s.logHash }

// Log returns the step log (KeepLog).
func (s *Sim) Log() []string { return s.log }

// Events returns anomalies recorded during the run.
func (s *Sim) Events() []string { return s.events }

// Panics returns panics caught in tasks.
func (s *Sim) Panics() []string { return s.panics }

// Invalid returns the reasons that make this run unusable as evidence
// (simulator limitations, never product behaviour).
func (s *Sim) Invalid() []string { return s.invalid }

// EndSites lists where tasks were parked/blocked when the run ended.
func (s *Sim) EndSites() []string { return s.endSites }

// InvariantMsg is the failed invariant, if any.
func (s *Sim) InvariantMsg() string { return s.invMsg }

// Stop asks the scheduler to end the run at the next step.
func (s *Sim) Stop() { s.stopReq.Store(true) }

func goid() int64 {
	var buf [64]byte
	n := runtime.Stack(buf[:], false)
	// "goroutine 123 ["
	var id int64
	for i := len("goroutine "); i < n; i++ {
		c := buf[i]
		if c < '0' || c > '9' {
			break
		}
		id = id*10 + int64(c-'0')
	}
	return id
}

func (s *Sim) note(ev string) {
	s.events = append(s.events, ev)
}

// register creates a task for the calling goroutine.
func (s *Sim) register(id int, name string) *Task {
	t := &Task{ID: id, Name: name, gid: goid(), wake: make(chan struct{}), state: stRunning}
	s.byGID[t.gid] = t
	s.tasks = append(s.tasks, t)
	return t
}

// lookup finds (or auto-registers) the calling goroutine's task. s.mu held.
func (s *Sim) lookupLocked(site string) *Task {
	g := goid()
	if t := s.byGID[g]; t != nil {
		return t
	}
	// A goroutine that was not started through Go (a timer callback, a helper
	// started by library code). Its id is derived from the site and a per-site
	// counter, so it does not depend on arrival order across sites.
	s.siteCnt[site]++
	h := fnv.New32a()
	h.Write([]byte(site))
	id := 1_000_000 + int(h.Sum32()%1_000_000)*16 + s.siteCnt[site]
	t := &Task{ID: id, Name: "auto@" + site, gid: g, wake: make(chan struct{}), state: stBlocked, fresh: true}
	s.byGID[g] = t
	s.tasks = append(s.tasks, t)
	return t
}

// park hands the token back and waits for release.
func (s *Sim) park(site string, kind int, probe func() bool) {
	if goid() == s.rootGID {
		// scenario set-up or oracle code running on the scheduler's own
		// goroutine: nothing else runs concurrently, no scheduling point
		return
	}
	s.mu.Lock()
	if s.ended {
		s.mu.Unlock()
		<-s.forever
		return
	}
	t := s.lookupLocked(site)
	fresh := t.fresh
	t.fresh = false
	if t.state == stBlocked && kind != kindAfterBlock && kind != kindStart && !fresh {
		s.note(fmt.Sprintf("unannotated blocking site: task %d(%s) blocked after %s and resurfaced at %s", t.ID, t.Name, t.lastSite, site))
		s.invalid = append(s.invalid, "unannotated blocking site before "+site)
	}
	if s.current == t {
		s.current = nil
	}
	t.state = stParked
	t.site = site
	t.kind = kind
	t.probe = probe
	t.since = -1
	s.parked = append(s.parked, t)
	s.mu.Unlock()
	select {
	case s.arrival <- struct{}{}:
	default:
	}
	<-t.wake
	t.lastSite = site
}

// Yield is a scheduling point.
func Yield(site string) {
	s := cur.Load()
	if s == nil {
		return
	}
	s.park(site, kindYield, nil)
}

// BeforeLock is a scheduling point in front of a mutex acquisition. The task
// is only eligible while try() would succeed, so a released task never blocks
// inside Lock (a goroutine waiting on a sync.Mutex is not durably blocked and
// would freeze the bubble's clock).
func BeforeLock(try func() bool, unlock func(), site string) {
	s := cur.Load()
	if s == nil {
		return
	}
	s.park(site, kindLock, func() bool {
		if try() {
			unlock()
			return true
		}
		return false
	})
}

// AfterBlock is placed after every statement that can block. If the task lost
// the token while blocked it parks until released; otherwise it is a no-op.
func AfterBlock(site string) {
	s := cur.Load()
	if s == nil {
		return
	}
	if goid() == s.rootGID {
		return
	}
	s.mu.Lock()
	if s.ended {
		s.mu.Unlock()
		<-s.forever
		return
	}
	t := s.lookupLocked(site)
	if t.state == stRunning && s.current == t {
		s.mu.Unlock()
		return
	}
	s.mu.Unlock()
	s.park(site, kindAfterBlock, nil)
}

// Go starts fn as a registered task. The id is allocated by the caller, which
// is the only running task, so ids are deterministic.
func Go(site string, fn func()) {
	s := cur.Load()
	if s == nil {
		go fn()
		return
	}
	s.mu.Lock()
	s.nextID++
	id := s.nextID
	t := &Task{ID: id, Name: site, wake: make(chan struct{}), state: stBlocked}
	s.tasks = append(s.tasks, t)
	s.mu.Unlock()
	go func() {
		s.mu.Lock()
		t.gid = goid()
		s.byGID[t.gid] = t
		s.mu.Unlock()
		defer s.exit(t)
		s.park(site, kindStart, nil)
		fn()
	}()
}

func (s *Sim) exit(t *Task) {
	if r := recover(); r != nil {
		msg := fmt.Sprintf("panic in task %d(%s): %v\n%s", t.ID, t.Name, r, trimStack(debug.Stack()))
		s.mu.Lock()
		s.panics = append(s.panics, msg)
		s.mu.Unlock()
	}
	s.mu.Lock()
	t.state = stExited
	if s.current == t {
		s.current = nil
	}
	delete(s.byGID, t.gid)
	s.mu.Unlock()
	select {
	case s.arrival <- struct{}{}:
	default:
	}
}

func trimStack(b []byte) string {
	lines := strings.Split(string(b), "\n")
	if len(lines) > 40 {
		lines = lines[:40]
	}
	return strings.Join(lines, "\n")
}

// Run is the scheduler loop. It must be called from the bubble's root
// goroutine (which is not a task) and returns when the run has ended.
func (s *Sim) Run() EndReason {
	s.policy = s.Tape.Choose(3, "sched.policy")
	s.stickyP = 50 + s.Tape.Choose(46, "sched.sticky") // 50..95 %
	for {
		synctest.Wait()
		progress.Add(1)
		s.mu.Lock()
		if s.current != nil {
			// the released task blocked durably outside a hook
			s.current.state = stBlocked
			s.current = nil
		}
		parked := append([]*Task(nil), s.parked...)
		s.mu.Unlock()
		if len(s.panics) > 0 {
			return s.finish(EndStopped)
		}
		if s.Invariant != nil {
			if msg := s.Invariant(); msg != "" {
				s.invMsg = msg
				return s.finish(EndStopped)
			}
		}
		if s.stopReq.Load() {
			return s.finish(EndStopped)
		}
		sort.Slice(parked, func(i, j int) bool { return parked[i].ID < parked[j].ID })
		var elig []*Task
		for _, t := range parked {
			if t.probe == nil || t.probe() {
				if t.since < 0 {
					t.since = s.steps
				}
				elig = append(elig, t)
			} else {
				t.since = -1
			}
		}
		if s.steps >= s.MaxSteps {
			return s.finish(EndBudget)
		}
		slow := false
		if len(elig) > 0 && s.SlowNodePermille > 0 {
			if s.Tape.Choose(1000, "sched.slow") >= 1000-s.SlowNodePermille {
				slow = true
				s.DelayedRunnable++
				s.steps++
			}
		}
		if len(elig) == 0 || slow {
			goal := s.Goal != nil && s.Goal()
			d := s.Horizon
			if goal {
				d = s.Settle
			}
			if slow {
				d = time.Duration(1+s.Tape.Choose(5000, "sched.slow.ms")) * time.Millisecond
			}
			// drain stale arrival tokens: after Wait every goroutine is blocked,
			// so the parked list above is complete.
			select {
			case <-s.arrival:
			default:
			}
			timer := time.NewTimer(d)
			select {
			case <-s.arrival:
				timer.Stop()
				continue
			case <-timer.C:
				if slow {
					continue
				}
				if goal {
					return s.finish(EndGoal)
				}
				return s.finish(EndIdle)
			}
		}
		idx := s.pick(elig)
		t := elig[idx]
		s.mu.Lock()
		for i, p := range s.parked {
			if p == t {
				s.parked = append(s.parked[:i], s.parked[i+1:]...)
				break
			}
		}
		t.state = stRunning
		s.current = t
		if t.since >= 0 && s.steps-t.since > s.MaxWait {
			s.MaxWait = s.steps - t.since
		}
		s.steps++
		if t.ID != s.lastRun {
			s.switches++
			s.lastRun = t.ID
		}
		s.mu.Unlock()
		s.logStep(t)
		if s.KeepSteps {
			s.StepRecs = append(s.StepRecs, StepRec{Step: s.steps, Task: t.ID, Lock: t.kind == kindLock, Site: t.site, At: time.Since(s.start)})
		}
		t.wake <- struct{}{}
	}
}

func (s *Sim) pick(elig []*Task) int {
	n := len(elig)
	if s.FairBound > 0 && n > 1 {
		oldest := -1
		for i, t := range elig {
			if s.steps-t.since >= s.FairBound && (oldest < 0 || t.since < elig[oldest].since) {
				oldest = i
			}
		}
		if oldest >= 0 {
			s.ForcedFair++
			return oldest
		}
	}
	if n == 1 {
		// no tape entry is consumed for forced moves: keeps tapes short and
		// lets the all-zero tape mean "lowest id first".
		return 0
	}
	switch s.policy {
	case 1, 2: // sticky: keep running the same task with probability stickyP
		for i, t := range elig {
			if t.ID == s.lastRun {
				if s.Tape.Choose(100, "sched.stay") < s.stickyP {
					return i
				}
				break
			}
		}
	}
	c := s.Tape.Choose(n, "sched.pick")
	if elig[c].ID != s.lastRun {
		for _, t := range elig {
			if t.ID == s.lastRun {
				s.preempts++
				break
			}
		}
	}
	return c
}

// Preempts is the number of steps at which the previously running task was
// still runnable but another one was released.
func (s *Sim) Preempts() int { return s.preempts }

// Choose draws from the tape on behalf of a task (or of the scenario before
// Run). A draw by a task that does not hold the token would make the tape
// order depend on the Go scheduler; it is recorded and invalidates the run.
func (s *Sim) Choose(n int, label string) int {
	s.mu.Lock()
	if t := s.byGID[goid()]; t != nil && s.current != t {
		s.invalid = append(s.invalid, "tape draw by task without token: "+label)
	}
	v := s.Tape.Choose(n, label)
	s.mu.Unlock()
	return v
}

func (s *Sim) logStep(t *Task) {
	h := s.logHash
	mix := func(b byte) {
		h ^= uint64(b)
		h *= 1099511628211
	}
	mix(byte(t.ID))
	mix(byte(t.ID >> 8))
	for i := 0; i < len(t.site); i++ {
		mix(t.site[i])
	}
	mix(0xff)
	s.logHash = h
	if s.KeepLog {
		s.log = append(s.log, fmt.Sprintf("%d t%d %s @%s", s.steps, t.ID, t.site, time.Since(s.start)))
	}
}

func (s *Sim) finish(r EndReason) EndReason {
	s.mu.Lock()
	s.ended = true
	s.End = r
	for _, t := range s.tasks {
		switch t.state {
		case stParked:
			s.endSites = append(s.endSites, fmt.Sprintf("t%d(%s) parked at %s", t.ID, t.Name, t.site))
		case stBlocked:
			s.endSites = append(s.endSites, fmt.Sprintf("t%d(%s) blocked after %s", t.ID, t.Name, t.lastSite))
		case stRunning:
			s.endSites = append(s.endSites, fmt.Sprintf("t%d(%s) running after %s", t.ID, t.Name, t.lastSite))
		}
	}
	s.mu.Unlock()
	return r
}

// MixLog folds harness-level observations into the schedule hash, so that
// "distinct" also distinguishes different fault placements.
func (s *Sim) MixLog(v string) {
	h := s.logHash
	for i := 0; i < len(v); i++ {
		h ^= uint64(v[i])
		h *= 1099511628211
	}
	s.logHash = h
	if s.KeepLog {
		s.log = append(s.log, "# "+v)
	}
}

// Keys returns the keys of m in an order chosen by the tape (sorted by their
// printed form first, so the order is a function of the tape only). With no
// simulator attached the sorted order is returned.
func Keys[M ~map[K]V, K comparable, V any](m M, site string) []K {
	keys := make([]K, 0, len(m))
	for k := range m {
		keys = append(keys, k)
	}
	if len(keys) < 2 {
		return keys
	}
	strs := make([]string, len(keys))
	idx := make([]int, len(keys))
	for i, k := range keys {
		strs[i] = fmt.Sprint(k)
		idx[i] = i
	}
	sort.Slice(idx, func(a, b int) bool { return strs[idx[a]] < strs[idx[b]] })
	out := make([]K, len(keys))
	for i, j := range idx {
		out[i] = keys[j]
	}
	s := cur.Load()
	if s == nil {
		return out
	}
	// Fisher-Yates driven by the tape
	for i := len(out) - 1; i > 0; i-- {
		j := s.Tape.Choose(i+1, "maporder")
		out[i], out[j] = out[j], out[i]
	}
	return out
}

// Bump records progress for the wall-clock watchdog (scenarios that do not
// use the scheduler call it once per run).
func Bump() { progress.Add(1) }


// TaskID returns the id of the calling task (0 if the caller is not a task).
func (s *Sim) TaskID() int {
	s.mu.Lock()
	defer s.mu.Unlock()
	if t := s.byGID[goid()]; t != nil {
		return t.ID
	}
	return 0
}

// Flip is a tape-driven coin used by instrumented selects to fix the order in
// which ready cases are polled (false when no simulator is attached).
func Flip(site string) bool {
	s := cur.Load()
	if s == nil || goid() == s.rootGID {
		return false
	}
	return s.Choose(2, "select.order") == 1
}
