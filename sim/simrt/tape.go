//go:build verif

// Package simrt is the runtime of the deterministic simulator: a choice tape
// (the single source of every decision), registered tasks, yield hooks, and a
// scheduler loop that runs inside a testing/synctest bubble.
//
// With no simulator attached every hook is a no-op.
package simrt

import (
	"fmt"
	"hash/fnv"
)

// Tape is the single source of nondeterminism of a simulated run. In
// generation mode values come from a splitmix64 stream seeded with one
// integer; in replay mode they come from a recorded slice (missing entries
// read as 0, out-of-range entries are reduced modulo n, so that shrunk tapes
// stay meaningful).
type Tape struct {
	seed   uint64
	state  uint64
	replay bool
	vals   []uint32 // recorded (generation) or given (replay)
	pos    int
	labels []string // only kept when KeepLabels
	// KeepLabels makes the tape remember the label of each draw (for
	// replay files and samples).
	KeepLabels bool
}

// NewTape returns a generating tape.
func NewTape(seed uint64) *Tape {
	return &Tape{seed: seed, state: seed}
}

// ReplayTape returns a tape that feeds back vals verbatim.
func ReplayTape(vals []uint32) *Tape {
	cp := make([]uint32, len(vals))
	copy(cp, vals)
	return &Tape{replay: true, vals: cp}
}

func (t *Tape) next64() uint64 {
	t.state += 0x9e3779b97f4a7c15
	z := t.state
	z = (z ^ (z >> 30)) * 0xbf58476d1ce4e5b9
	z = (z ^ (z >> 27)) * 0x94d049bb133111eb
	return z ^ (z >> 31)
}

// Choose returns a value in [0, n). n <= 1 yields 0 but still consumes a tape
// entry, so that tape positions do not depend on the sizes of choice sets.
func (t *Tape) Choose(n int, label string) int {
	var v uint32
	if t.replay {
		if t.pos < len(t.vals) {
			v = t.vals[t.pos]
		}
		if n > 1 {
			v %= uint32(n)
		} else {
			v = 0
		}
	} else {
		if n > 1 {
			v = uint32(t.next64() % uint64(n))
		} else {
			t.next64()
		}
		t.vals = append(t.vals, v)
	}
	t.pos++
	if t.KeepLabels {
		t.labels = append(t.labels, fmt.Sprintf("%s=%d/%d", label, v, n))
	}
	return int(v)
}

// Bool returns true with probability num/den. The tape value 0 always means
// false (unless num == den), so that shrinking towards zero removes faults.
func (t *Tape) Bool(num, den int, label string) bool {
	return t.Choose(den, label) >= den-num
}

// Range returns a value in [lo, hi].
func (t *Tape) Range(lo, hi int, label string) int {
	if hi <= lo {
		t.Choose(1, label)
		return lo
	}
	return lo + t.Choose(hi-lo+1, label)
}

// Values returns the values consumed so far (for a replay file). In replay
// mode it returns the effective prefix.
func (t *Tape) Values() []uint32 {
	if t.replay {
		n := t.pos
		out := make([]uint32, n)
		copy(out, t.vals)
		return out
	}
	out := make([]uint32, len(t.vals))
	copy(out, t.vals)
	return out
}

// Pos is the number of draws made so far.
func (t *Tape) Pos() int { return t.pos }

// Labels returns the remembered draw labels (KeepLabels).
func (t *Tape) Labels() []string { return t.labels }

// Seed returns the seed of a generating tape (0 for replay tapes).
func (t *Tape) Seed() uint64 { return t.seed }

// DeriveSeed mixes a base seed with a worker index and a run index.
func DeriveSeed(base uint64, worker, run int) uint64 {
	h := fnv.New64a()
	var b [24]byte
	put := func(off int, v uint64) {
		for i := 0; i < 8; i++ {
			b[off+i] = byte(v >> (8 * i))
		}
	}
	put(0, base)
	put(8, uint64(worker))
	put(16, uint64(run))
	h.Write(b[:])
	x := h.Sum64()
	// one splitmix round for avalanche
	x ^= x >> 30
	x *= 0xbf58476d1ce4e5b9
	x ^= x >> 27
	x *= 0x94d049bb133111eb
	x ^= x >> 31
	return x
}
