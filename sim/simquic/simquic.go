//go:build verif

// Package simquic runs quic-go over simnet's in-memory datagram sockets.
package simquic

import (
	"context"
	"crypto/tls"

	"connectrpc.com/conformance/internal/verifsim/simnet"
	"github.com/quic-go/quic-go"
)

// ListenAddrEarly replaces quic.ListenAddrEarly.
func ListenAddrEarly(addr string, tlsConf *tls.Config, config *quic.Config) (*quic.EarlyListener, error) {
	conn, err := simnet.ListenPacket("udp", addr)
	if err != nil {
		return nil, err
	}
	tr := &quic.Transport{Conn: conn}
	return tr.ListenEarly(tlsConf, config)
}

// Dial is used as http3.Transport.Dial.
func Dial(ctx context.Context, addr string, tlsCfg *tls.Config, cfg *quic.Config) (quic.EarlyConnection, error) {
	conn, err := simnet.ListenPacket("udp", "127.0.0.1:0")
	if err != nil {
		return nil, err
	}
	raddr, err := simnet.ResolveUDPAddr(addr)
	if err != nil {
		return nil, err
	}
	tr := &quic.Transport{Conn: conn}
	return tr.DialEarly(ctx, raddr, tlsCfg, cfg)
}
