"""Engine N driver (whole system in one process per shard over simnet + fake clock). DESIGN.md sect. 3.6, 3.7, C01."""
import json
import os
import shutil
import subprocess
import sys
import time
from concurrent.futures import ThreadPoolExecutor

VERIF = os.path.dirname(os.path.dirname(os.path.abspath(__file__)))
REPO = os.environ.get("VERIF_REPO", "/repo")
GOROOT = "/opt/veriftools/go1.26.8"
MODCACHE = "/root/go/pkg/mod"
QUIC = "github.com/quic-go/quic-go@v0.50.1"

N_PKGS = ["./internal/app/referenceserver", "./internal/app/referenceclient", "./internal/app/grpcserver", "./internal/app/grpcclient", "./internal/tracer"]

ADAPTATIONS = [
    "repository sync.Mutex declarations -> simsync.Mutex (channel based, Lock blocks durably; same exclusion)",
    "quic-go http3.Server.Close: the server mutex is released while waiting for the connections to end (ServeListener's deferred removeListener otherwise waits on that sync.RWMutex, which is not a durable wait and freezes the fake clock)",
    "net/http transfer.go: body.mu type -> channel-based mutex (held across the blocking body read; identical exclusion, durable wait)",
    "quic-go connection.go: the run loop's `now` is read 1 microsecond late (a fake-clock timer fires at exactly its deadline; the pacer otherwise spins without blocking)",
]


def infra(msg):
    print("INFRA-ERROR: " + msg, flush=True)
    sys.exit(2)


def prepare(work):
    """quic-go patched copy + net/http overlay; returns (extra_overlay, modlines)."""
    os.makedirs(work, exist_ok=True)
    qsrc = os.path.join(MODCACHE, QUIC)
    qdst = os.path.join(work, "quic-go")
    shutil.rmtree(qdst, ignore_errors=True)
    shutil.copytree(qsrc, qdst)
    for root, dirs, files in os.walk(qdst):
        os.chmod(root, 0o755)
        for f in files:
            os.chmod(os.path.join(root, f), 0o644)
    p = os.path.join(qdst, "connection.go")
    s = open(p).read()
    anchor = "\t\t// This could cause packets to be declared lost, and retransmissions to be enqueued.\n\t\tnow := time.Now()\n"
    if s.count(anchor) != 1:
        infra("quic-go patch anchor not found exactly once")
    s = s.replace(anchor, anchor.replace("now := time.Now()", "now := time.Now().Add(time.Microsecond) // verif: fake-clock adaptation"))
    open(p, "w").write(s)
    # http3.Server.Close holds the server mutex while it waits for the connections; ServeListener's deferred
    # removeListener then waits for that sync.RWMutex (not a durable wait): release the mutex during the wait
    p = os.path.join(qdst, "http3", "server.go")
    s = open(p).read()
    anchor = "\t// wait for all connections to be closed\n\t<-s.connHandlingDone\n\treturn err\n"
    if s.count(anchor) != 1:
        infra("quic-go http3 server patch anchor not found exactly once")
    s = s.replace(anchor, "\t// wait for all connections to be closed\n\ts.mutex.Unlock() // verif: do not hold the mutex across the wait\n\t<-s.connHandlingDone\n\ts.mutex.Lock()\n\treturn err\n")
    open(p, "w").write(s)
    # net/http body.mu
    tsrc = os.path.join(GOROOT, "src/net/http/transfer.go")
    s = open(tsrc).read()
    anchor = "\tmu         sync.Mutex // guards following, and calls to Read and Close\n"
    if s.count(anchor) != 1:
        infra("net/http transfer.go anchor not found exactly once")
    s = s.replace(anchor, "\tmu         verifChanMutex // verif: durable wait instead of sync.Mutex\n")
    s += '''

// verifChanMutex is a channel-based mutex (engine N adaptation, see /verif/DESIGN.md sect. 3.7).
type verifChanMutex struct {
	once sync.Once
	ch   chan struct{}
}

func (m *verifChanMutex) init() { m.once.Do(func() { m.ch = make(chan struct{}, 1) }) }
func (m *verifChanMutex) Lock()   { m.init(); m.ch <- struct{}{} }
func (m *verifChanMutex) Unlock() { m.init(); <-m.ch }
'''
    tdst = os.path.join(work, "transfer.go")
    open(tdst, "w").write(s)
    return {tsrc: tdst}, ["replace github.com/quic-go/quic-go => " + qdst], None


def n_config(work):
    extra_overlay, modlines, pfile = prepare(work)
    instrument = [
        {"pkg": "./internal", "files": ["delimited.go", "printer.go"], "mode": "N"},
        {"pkg": "./internal/app/connectconformance", "files": [], "mode": "N",
         "redirect": ["runCommand=verifRunCommand", "runInProcess=verifRunInProcess"]},
    ]
    for p in N_PKGS:
        spec = {"pkg": p, "files": [], "mode": "N"}
        instrument.append(spec)
    return {
        "testpkg": "./internal/app/connectconformance",
        "instrument": instrument,
        "sim": ["simnet", "simsync", "simquic", "simrt"],
        "harness": [("connectconformance_n", "internal/app/connectconformance")],
        "extra_overlay": extra_overlay,
        "modlines": modlines,
    }


def run_shard(binp, job, work, timeout):
    out = os.path.join(work, job["name"] + ".json")
    job = dict(job)
    job["out"] = out
    e = dict(os.environ)
    e.update({"VERIF_NJOB": json.dumps(job), "GOMAXPROCS": "1", "GODEBUG": "asyncpreemptoff=1"})
    logp = os.path.join(work, job["name"] + ".log")
    t0 = time.time()
    with open(logp, "w") as log:
        try:
            p = subprocess.run([binp, "-test.run", "^TestVerifN$", "-test.timeout", "0", "-test.count", "1"], cwd=work, env=e,
                               stdout=log, stderr=subprocess.STDOUT, timeout=timeout)
            rc = p.returncode
        except subprocess.TimeoutExpired:
            rc = -9
    data = None
    if os.path.exists(out):
        try:
            data = json.load(open(out))
        except Exception:  # noqa: BLE001
            data = None
    return {"job": job, "rc": rc, "data": data, "log": logp, "wall": time.time() - t0}


def write_yaml_config(path, versions, protocols, codecs=None, compressions=None, extra=None):
    lines = ["features:", "  versions:"] + ["  - " + v for v in versions] + ["  protocols:"] + ["  - " + p for p in protocols]
    if codecs:
        lines += ["  codecs:"] + ["  - " + c for c in codecs]
    if compressions:
        lines += ["  compressions:"] + ["  - " + c for c in compressions]
    for k, v in (extra or {}).items():
        lines.append("  %s: %s" % (k, v))
    open(path, "w").write("\n".join(lines) + "\n")


def read_patterns(path):
    pats = []
    for line in open(path):
        line = line.strip()
        if line and not line.startswith("#"):
            pats.append(line)
    return pats
