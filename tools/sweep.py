#!/usr/bin/env python3
"""usage: sweep.py [--tier T] [--seconds N] --seeds 2,3,4 [ids...]   runs the checks on the unchanged tree over several seeds
(no evidence written) and appends one line per run to work/sweep.log; prints anything that is not a clean exit."""
import os, re, subprocess, sys, time
V = "/verif"
a = sys.argv[1:]
tier, secs, seeds, ids = "quick", None, [2, 3, 4], []
while a:
    x = a.pop(0)
    if x == "--tier": tier = a.pop(0)
    elif x == "--seconds": secs = a.pop(0)
    elif x == "--seeds": seeds = [int(s) for s in a.pop(0).split(",")]
    else: ids.append(x)
if not ids:
    ids = "C01 C02 C04 C05 C09 C10 C11 C12 C14 C15 C16 C17 C19 C20".split()
env = dict(os.environ, GOFLAGS="-mod=mod", GOPROXY="off", GOSUMDB="off", GOTOOLCHAIN="local")
with open(V + "/work/sweep.log", "a") as log:
    for s in seeds:
        for i in ids:
            cmd = [V + "/vcheck", i, "--tier", tier, "--seed", str(s), "--no-evidence"]
            if secs:
                cmd += ["--seconds", secs]
            t0 = time.time()
            p = subprocess.run(cmd, stdout=subprocess.PIPE, stderr=subprocess.STDOUT, text=True, env=env)
            bad = [l for l in p.stdout.splitlines() if re.match(r"^(VIOLATION|INFRA|  class:|  detail:)", l)]
            line = "%s %s tier=%s seed=%d rc=%d wall=%.0fs %s" % (time.strftime("%H:%M:%S"), i, tier, s, p.returncode, time.time() - t0, " | ".join(b[:300] for b in bad))
            log.write(line + "\n"); log.flush()
            if p.returncode != 0:
                print(line, flush=True)
                open(V + "/work/sweep-%s-%s-%d.out" % (i, tier, s), "w").write(p.stdout[-20000:])
print("sweep done")
