"""C01: the reference implementations pass every embedded permutation (engine N)."""
import json
import os
import sys
import time
from concurrent.futures import ThreadPoolExecutor

import vcheck
import vcheck_n as N

VERIF = N.VERIF
REPO = N.REPO

VERSIONS = ["HTTP_VERSION_1", "HTTP_VERSION_2", "HTTP_VERSION_3"]
PROTOCOLS = ["PROTOCOL_CONNECT", "PROTOCOL_GRPC", "PROTOCOL_GRPC_WEB"]
CODECS = ["CODEC_PROTO", "CODEC_JSON"]
COMPRESSIONS = ["COMPRESSION_IDENTITY", "COMPRESSION_GZIP", "COMPRESSION_BR", "COMPRESSION_ZSTD", "COMPRESSION_DEFLATE", "COMPRESSION_SNAPPY"]
REF_EXTRA = {"supportsTlsClientCerts": "true", "supportsHalfDuplexBidiOverHttp1": "true"}
LEVELS = {
    0: {"max_segment": 0, "small_permil": 0, "max_latency_us": 0, "dgram_min_us": 0, "dgram_max_us": 0},
    1: {"max_segment": 2048, "small_permil": 250, "max_latency_us": 500, "dgram_min_us": 50, "dgram_max_us": 350},
}


def valid(v, p):
    return not (p == "PROTOCOL_GRPC" and v != "HTTP_VERSION_2")


def make_jobs(tier, seed, work):
    jobs = []
    cfgdir = os.path.join(work, "configs")
    os.makedirs(cfgdir, exist_ok=True)
    testing = os.path.join(REPO, "testing")
    for f in ("referenceserver-known-failing.txt", "referenceclient-known-failing.txt"):
        if N.read_patterns(os.path.join(testing, f)):
            return None, "the shipped %s is not empty" % f
    levels = [1] if tier == "quick" else [0, 1]
    idx = 0
    for mode, peer in (("server", "referenceserver"), ("client", "referenceclient")):
        for v in VERSIONS:
            for p in PROTOCOLS:
                if not valid(v, p):
                    continue
                idx += 1
                codecs, comps = CODECS, COMPRESSIONS
                if tier == "quick":
                    codecs = [CODECS[(seed + idx) % 2]]
                    comps = ["COMPRESSION_IDENTITY", COMPRESSIONS[1 + (seed + idx) % 5]]
                name = "ref-%s-%s-%s" % (mode, v[-1], p.split("_", 1)[1].lower())
                cfgp = os.path.join(cfgdir, name + ".yaml")
                N.write_yaml_config(cfgp, [v], [p], codecs, comps, REF_EXTRA)
                for lv in levels:
                    j = {"kind": "run", "name": "%s-l%d" % (name, lv), "run": "reference " + mode + "-mode", "mode": mode, "peer": peer,
                         "config_file": cfgp, "known_failing": [], "trace": True, "seed": seed * 1000 + idx * 10 + lv,
                         "max_servers": [4, 2][(seed + idx) % 2], "parallelism": [4, 8, 16][(seed + idx) % 3], "level": lv}
                    j.update(LEVELS[lv])
                    jobs.append(j)
    # Mixed-instance shards: the shards above hold one (HTTP version, protocol) each, so one peer process only ever
    # serves one kind of server instance. As in a real run, these two let ONE client / server process work on
    # HTTP/1.1, HTTP/2 and HTTP/3 instances, with and without TLS, at the same time (4 servers at once), so that
    # whatever a peer keeps between test cases (transports, TLS configurations, pools) is shared across kinds.
    # They repeat permutations of the shards above and are not part of the partition check.
    for mode, peer in (("server", "referenceserver"), ("client", "referenceclient")):
        idx += 1
        name = "mix-%s" % mode
        cfgp = os.path.join(cfgdir, name + ".yaml")
        # (both codecs: in the quick tier each ordinary shard has only one, and some expectations depend on the codec)
        N.write_yaml_config(cfgp, VERSIONS, ["PROTOCOL_CONNECT", "PROTOCOL_GRPC"], CODECS, ["COMPRESSION_IDENTITY"], REF_EXTRA)
        j = {"kind": "run", "name": name + "-l1", "run": "reference " + mode + "-mode, mixed instances", "mode": mode, "peer": peer,
             "config_file": cfgp, "known_failing": [], "trace": True, "seed": seed * 1000 + idx * 10 + 1,
             "run_patterns": ["Basic/**", "TLS Client Certs/**", "Connect with GET/**"], "max_servers": 12, "parallelism": 16, "level": 1}
        j.update(LEVELS[1])
        jobs.append(j)
    for name, conf, mode, peer, kf in (
            ("grpc-server", "grpc-impls-config.yaml", "server", "grpcserver", "grpcserver-known-failing.txt"),
            ("grpc-client", "grpc-impls-config.yaml", "client", "grpcclient", "grpcclient-known-failing.txt"),
            ("grpcweb-server", "grpc-web-server-impl-config.yaml", "server", "grpcserver", "grpcserver-web-known-failing.txt")):
        for lv in levels:
            idx += 1
            j = {"kind": "run", "name": "%s-l%d" % (name, lv), "run": name, "mode": mode, "peer": peer,
                 "config_file": os.path.join(testing, conf), "known_failing": N.read_patterns(os.path.join(testing, kf)), "trace": True,
                 "seed": seed * 1000 + idx * 10 + lv, "max_servers": 4, "parallelism": [4, 8, 16][(seed + idx) % 3], "level": lv}
            j.update(LEVELS[lv])
            jobs.append(j)
    return jobs, None


def main(args, cfg):
    tier = args.tier if args.tier in ("quick", "thorough") else "quick"
    seed = args.seed if args.seed is not None else int(os.environ.get("VERIF_SEED", "1") or "1")
    work = os.path.join(VERIF, "work", "C01" + os.environ.get("VERIF_WORK_SUFFIX", ""))
    t0 = time.time()
    bcfg = N.n_config(os.path.join(work + "-prep"))
    bcfg["id"] = "C01"
    binp, build_s, _ = vcheck.build(bcfg, work)

    if args.replay:
        rf = json.load(open(args.replay))
        job = rf["job"]
        if rf.get("config_text"):
            os.makedirs(os.path.join(work, "configs"), exist_ok=True)
            job["config_file"] = os.path.join(work, "configs", "replay.yaml")
            open(job["config_file"], "w").write(rf["config_text"])
        job["run_patterns"] = [rf["test_name"]]
        job["name"] = "replay"
        r = N.run_shard(binp, job, work, 900)
        d = r["data"]
        if d is None:
            vcheck.infra("replay shard failed rc=%s log=%s" % (r["rc"], r["log"]))
        print(json.dumps({k: d[k] for k in ("ok", "err", "total", "passed", "failed", "failed_lines")}, indent=1))
        if not d["ok"]:
            print("VIOLATION property=C01 replay=%s" % os.path.abspath(args.replay))
            return 1
        print("replay: the permutation passes now")
        return 0

    jobs, err = make_jobs(tier, seed, work)
    if err:
        print("VIOLATION property=C01 replay=/dev/null\n  class: c01/known-failing-list-not-empty\n  detail: " + err)
        return 1
    nworkers = args.workers or 16
    results = []
    with ThreadPoolExecutor(nworkers) as ex:
        for r in ex.map(lambda j: N.run_shard(binp, j, work, 3600), sorted(jobs, key=lambda j: ("-3-" not in j["name"], j["name"]))):
            results.append(r)
    # the shards of a reference run partition its permutations (thorough tier proves it by a dry expansion)
    partition_note = "not checked in the quick tier (reduced codec/compression matrix)"
    if tier == "thorough":
        for mode in ("server", "client"):
            full = N.run_shard(binp, {"kind": "expand", "name": "expand-full-" + mode, "mode": mode,
                                      "config_file": os.path.join(REPO, "testing", "reference-impls-config.yaml")}, work, 600)
            if full["data"] is None:
                vcheck.infra("dry expansion failed: " + full["log"])
            names = set()
            for j in jobs:
                if j["name"].startswith("ref-" + mode) and j["name"].endswith("-l0"):
                    e = N.run_shard(binp, {"kind": "expand", "name": "expand-" + j["name"], "mode": mode, "config_file": j["config_file"]}, work, 600)
                    if e["data"] is None:
                        vcheck.infra("dry expansion failed: " + e["log"])
                    dup = names & set(e["data"]["names"])
                    if dup:
                        vcheck.infra("shards overlap: %s" % sorted(dup)[:3])
                    names |= set(e["data"]["names"])
            if names != set(full["data"]["names"]):
                vcheck.infra("shards do not partition the %s-mode run: %d vs %d permutations" % (mode, len(names), len(full["data"]["names"])))
        partition_note = "union of shard expansions == unsharded expansion for both modes"

    failures = []
    agg = {"permutations": 0, "passed": 0, "failed": 0, "expected_failures": 0, "could_not_run": 0, "sim_seconds": 0.0, "net": {}}
    per_run = {}
    for r in results:
        d = r["data"]
        if d is None:
            tail = open(r["log"]).read()[-3000:]
            print("shard %s died rc=%s\n%s" % (r["job"]["name"], r["rc"], tail))
            vcheck.infra("shard %s produced no result (frozen or crashed simulation never yields a verdict)" % r["job"]["name"])
        agg["permutations"] += d["total"]
        agg["passed"] += d["passed"]
        agg["failed"] += d["failed"]
        agg["expected_failures"] += d["expected_failures"]
        agg["could_not_run"] += d["could_not_run"]
        agg["sim_seconds"] += d["sim_seconds"]
        for k, v in d["net"].items():
            agg["net"][k] = agg["net"].get(k, 0) + v
        pr = per_run.setdefault(r["job"]["run"] + " level %d" % r["job"]["level"], {"permutations": 0, "passed": 0, "failed": 0, "expected_failures": 0})
        for k in pr:
            pr[k] += d[{"permutations": "total"}.get(k, k)]
        if d.get("panic"):
            failures.append((r, "c01/hang" if d["panic"].startswith("HANG:") else "c01/panic", d["panic"][:1500], None))
        elif not d["ok"] or d["err"] or d["failed"] or d["could_not_run"]:
            names = d["failed_names"] or [None]
            detail = "run %s: ok=%s err=%r failed=%d could-not-run=%d; %s" % (r["job"]["name"], d["ok"], d["err"], d["failed"], d["could_not_run"],
                                                                          " || ".join(d["failed_lines"][:3])[:2500])
            failures.append((r, "c01/unexpected-failure", detail, names[0]))
        if r["job"]["known_failing"] and d["expected_failures"] == 0:
            failures.append((r, "c01/known-failing-not-failing", "run %s has known-failing patterns but no expected failure" % r["job"]["name"], None))

    exit_code = 0
    lines = []
    os.makedirs(os.path.join(VERIF, "replays"), exist_ok=True)
    for r, cls, detail, name in failures[:3]:
        path = os.path.join(VERIF, "replays", "C01-%s.json" % r["job"]["name"])
        json.dump({"property": "C01", "class": cls, "detail": detail, "test_name": name, "job": r["job"], "config_text": open(r["job"]["config_file"]).read()}, open(path, "w"), indent=1)
        if name:
            # engine N replay: the single failing permutation, three times in fresh processes, same verdict required
            same = 0
            for k in range(3):
                j = dict(r["job"])
                j["run_patterns"] = [name]
                j["name"] = "verify-%d" % k
                rr = N.run_shard(binp, j, work, 900)
                if rr["data"] is not None and not rr["data"]["ok"]:
                    same += 1
            if same != 3:
                print("failure of %s in %s reproduced %d/3 times when run alone; detail: %s" % (name, r["job"]["name"], same, detail[:800]))
                vcheck.infra("engine-N failure did not replay deterministically; logs in %s" % work)
        lines += ["VIOLATION property=C01 replay=%s" % path, "  class: " + cls, "  detail: " + detail[:3000]]
        exit_code = 1

    wall = time.time() - t0
    if not args.no_evidence:
        rate = agg["permutations"] / max(wall - build_s, 1e-9)
        samples = []
        for r in results[:3]:
            j = r["job"]
            samples.append({"shard": j["name"], "mode": j["mode"], "peer": j["peer"], "config": open(j["config_file"]).read(), "max_servers": j["max_servers"],
                            "parallelism": j["parallelism"], "network_level": r["data"]["net_level"], "permutations": r["data"]["total"], "passed": r["data"]["passed"],
                            "expected_failures": r["data"]["expected_failures"], "simulated_seconds": r["data"]["sim_seconds"]})
        ev = {
            "property_id": "C01", "tier": tier, "seed": seed, "level": "exploration",
            "coverage": {
                "evaluations": agg["permutations"],
                "distinct_nontrivial": agg["permutations"],
                "rule": "an evaluation is one (config case x embedded test case) permutation executed by the real runner against the real peers in one process over the simulated network and fake clock; permutations are distinct by construction (unique full names within a run; the same permutation under another network level counts again); every one is non-trivial in the sense that it is a complete RPC exchange through real protocol stacks. Quick tier: every suite x every HTTP version x protocol shard with one codec and identity + one compression rotated by the seed; thorough tier: the complete matrix of the five Go-peer runs at two network perturbation levels.",
                "samples": samples,
                "exhaustive": tier == "thorough",
                "per_run": per_run,
                "passed": agg["passed"], "failed": agg["failed"], "expected_failures": agg["expected_failures"], "could_not_run": agg["could_not_run"],
                "simulated_seconds": round(agg["sim_seconds"], 2),
                "permutations_per_hour": int(rate * 3600),
                "runs_per_hour": int(len(results) / max(wall - build_s, 1e-9) * 3600),
                "seeds_per_hour": int(len(results) / max(wall - build_s, 1e-9) * 3600),
                "network": agg["net"],
                "faults_fired": {"segmentation (segments)": agg["net"].get("segments", 0), "small 1-8 byte segments": agg["net"].get("small_segments", 0),
                                 "per-segment latency": agg["net"].get("delayed_segments", 0), "datagrams": agg["net"].get("datagrams", 0)},
                "shards": len(results),
                "shard_partition": partition_note,
                "environment_adaptations": N.ADAPTATIONS,
                "components_real": ["connectconformance runner (Run), reference client, reference server, grpc-go client and server peers, connect-go, net/http, x/net/http2, grpc-go, grpc-web wrapper, quic-go HTTP/3, crypto/tls, compression libraries, wire tracers"],
                "components_stubbed": ["kernel TCP/UDP (simnet)", "wall clock (synctest fake clock)", "OS processes (peers run in-process through the repository's runInProcess seam)",
                                       "the Node gRPC-Web client run of `make runconformance` (not runnable offline) is excluded"],
                "replay_semantics": "simulated environment, real scheduler: a failure is replayed by re-running the single permutation (same shard config, seed and network level) three times in fresh processes",
                "build_seconds": round(build_s, 1),
            },
            "assumptions": ["fault-free configuration: C01 promises nothing under faults; only legal perturbations (segmentation, sub-millisecond latency) are applied",
                            "goroutine interleaving inside third-party protocol stacks is chosen by the Go scheduler (GOMAXPROCS=1), not by a tape"],
            "wall_s": round(wall, 2),
            "violations": len(failures),
        }
        os.makedirs(os.path.join(VERIF, "evidence"), exist_ok=True)
        json.dump(ev, open(os.path.join(VERIF, "evidence", "C01.json"), "w"), indent=1)
    print("C01 tier=%s seed=%d shards=%d permutations=%d passed=%d failed=%d expected-failures=%d sim=%.1fs wall=%.1fs (build %.0fs)" % (
        tier, seed, len(results), agg["permutations"], agg["passed"], agg["failed"], agg["expected_failures"], agg["sim_seconds"], wall, build_s))
    for line in lines:
        print(line)
    sys.stdout.flush()
    return exit_code
