#!/usr/bin/env python3
"""Writes /verif/MANIFEST.json from tools/vconfig.py + tools/manifest_text.py (kept in one place so the manifest stays consistent)."""
import json, os, sys
HERE = os.path.dirname(os.path.abspath(__file__))
sys.path.insert(0, HERE)
from vconfig import CHECKS
from manifest_text import TEXT, NOT_APPLICABLE, PENDING

ENGINE = {"S": "S-controlled", "N": "N-whole-system"}
checks = []
import re
for pid in sorted(CHECKS):
    if not re.match(r'^C[0-9]+$', pid):
        continue
    t = TEXT[pid]
    checks.append({
        "property_id": pid,
        "quick_cmd": "./vcheck %s --tier quick" % pid,
        "thorough_cmd": "./vcheck %s --tier thorough" % pid,
        "evidence_file": "/verif/evidence/%s.json" % pid,
        "replay_cmd_template": "./vcheck %s --replay {path}" % pid,
        "engine": ENGINE[t["engine"]],
        "level_claimed": {"category": CHECKS[pid].get("level", "exploration"), "text": t["level_text"], "design_ref": t["design_ref"]},
        "level_note": t["level_note"],
        "technique": t["technique"],
    })
na = [{"property_id": k, "reason": v} for k, v in sorted(NOT_APPLICABLE.items())]
na += [{"property_id": k, "reason": v} for k, v in sorted(PENDING.items()) if k not in CHECKS]
m = {
    "version": 1,
    "setup_cmd": "cd /verif/tools/instrument && GOFLAGS=-mod=mod GOPROXY=off GOSUMDB=off GOTOOLCHAIN=local go1.26.8 build -o /verif/bin/verif-instrument . && chmod +x /verif/vcheck",
    "hooks": {
        "guard": "verif",
        "enable": "no hook is committed to /repo: at check time ./vcheck writes instrumented copies of the current working tree (tools/instrument), adds the simulator packages and harness files (all `//go:build verif`) and builds with `go1.26.8 test -c -tags verif -overlay <work>/overlay.json -modfile <work>/go.mod` from /repo",
        "baseline_off_cmd": "for m in $(cat /w/out/gomods.txt); do MF=$(cd /repo/$m && . /w/out/goenv.sh && gomodflag); (cd /repo/$m && go test $MF -json -vet=off -count=1 -timeout 25m ./...); done",
        "source_commits": [],
        "add_only": True,
    },
    "engines": [
        {"name": "S-controlled", "path": "/verif/sim/simrt", "serves_properties": sorted(p for p in CHECKS if p in TEXT and TEXT[p]["engine"] == "S"),
         "kind_free_text": "deterministic simulation: instrumented copies of the repository's concurrent components run as registered tasks inside a testing/synctest bubble (fake clock); a seeded scheduler releases exactly one task between two hooks, all I/O, peers and faults come from one choice tape; violations are shrunk and replayed from the tape"},
        {"name": "N-whole-system", "path": "/verif/sim/simnet", "serves_properties": sorted(p for p in CHECKS if p in TEXT and TEXT[p]["engine"] == "N"),
         "kind_free_text": "deterministic simulation of the whole system (runner + four reference peers + protocol stacks) in one process over a simulated network and the fake clock; environment seeded, goroutine schedule inside third-party stacks left to the Go scheduler (GOMAXPROCS=1)"},
    ],
    "checks": checks,
    "not_applicable": na,
    "notes": "See DESIGN.md. Known findings and fixed defects: /verif/known_findings.json. Exit 2 = infrastructure trouble, never a verdict.",
}
with open(os.path.join(os.path.dirname(HERE), "MANIFEST.json"), "w") as f:
    json.dump(m, f, indent=1)
print("wrote MANIFEST.json with %d checks, %d not_applicable" % (len(checks), len(na)))
