"""Second part of check C09 (run by vcheck.py after the main part; reported under property C09): the reference client's request loop over stdin."""

CHECK = {
    "engine_n": True,
    "sim": ["simio"],
    "report_as": "C09",
    "testpkg": "./internal/app/referenceclient",
    "harness": [("referenceclient", "internal/app/referenceclient")],
    "scenarios": [{"name": "c09-clientloop", "share": 1.0}],
    "budget": {"quick": {"seconds": 10, "workers": 16}, "thorough": {"seconds": 300, "workers": 16}},
    "level": "exploration",
    "rule": "c09-clientloop: one run = the real reference client loop (run(): stream decoder over stdin, one goroutine per request, encoder over stdout; -p 1..4; binary or --json) inside a synctest bubble reading 0-5 ClientCompatRequests of different sizes (fillers with braces, quotes, newlines and non-ASCII text inside strings and bytes fields) from a simulated stdin: seeded split into segments with arrival gaps, seeded partition into reads (whole reads that span several messages, 1-8 byte reads, boundary-aligned), cut at any byte / inside a prefix / exactly between messages / one byte short, end by EOF, EOF-with-data or I/O error. The requests fail before any network use, so each yields an error result at once. Oracle: every completely delivered request is answered exactly once under its own name, nothing else is answered, the output is a well-formed message sequence, run() returns nil for a stream that ends between messages and an error for one that ends inside a message or with an I/O error, and returns at all. Distinct = hash of the generated case.",
    "expect_probes": ["binary", "json", "clean-end", "truncated", "io-error", "read-spanning-several-messages"],
    "real": ["internal/app/referenceclient: run (request loop), invoke up to its argument checks; internal/codec.go stream decoders / encoders (binary and JSON) - current tree"],
    "stubbed": ["stdin (simio.Reader with seeded segmentation, chunking, truncation, I/O error)", "wall clock (synctest)", "no RPC is issued (requests are rejected before any network use)"],
    "assumptions": ["goroutine interleaving of the request goroutines is the Go scheduler's; the verdict only uses the set of answers"],
}
