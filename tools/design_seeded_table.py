#!/usr/bin/env python3
"""Copies seeded/RESULTS.md (plus a one-line summary of each change) into the marked block of DESIGN.md sect. 10.6."""
import json, os, re
V = "/verif"
rows = []
for line in open(V + "/seeded/RESULTS.md"):
    c = [x.strip() for x in line.strip().strip("|").split("|")]
    if len(c) >= 4 and re.match(r"^C\d+-\d+$", c[0]):
        rows.append(c[:4])
out = ["| change | what was changed (sub-agent's summary, shortened) | verdict | caught by / classes |", "|---|---|---|---|"]
det = 0
for sid, prop, verdict, cls in rows:
    try:
        m = json.load(open(V + "/seeded/%s/meta.json" % sid))
    except Exception:  # noqa: BLE001
        m = {}
    summ = re.sub(r"\s+", " ", (m.get("summary") or "")).replace("|", "/")
    if len(summ) > 230:
        summ = summ[:227] + "..."
    if verdict.startswith("DETECTED"):
        det += 1
    by = prop if " via " in prop else prop
    out.append("| %s | %s | %s | %s: %s |" % (sid, summ, verdict, by, cls.replace("|", "/")))
out.append("")
out.append("%d of %d confirmed changes detected by the quick-style run." % (det, len(rows)))
p = V + "/DESIGN.md"
s = open(p).read()
a, b = s.index("<!-- SEEDED-TABLE-BEGIN -->"), s.index("<!-- SEEDED-TABLE-END -->")
s = s[:a] + "<!-- SEEDED-TABLE-BEGIN -->\n" + "\n".join(out) + "\n" + s[b:]
open(p, "w").write(s)
print("table with", len(rows), "rows,", det, "detected")
