"""Second part of check C16 (run by vcheck.py after the main part; reported under property C16): the runner's use of the trace hand-off."""

CHECK = {
    "report_as": "C16",
    "testpkg": "./internal/app/connectconformance",
    "instrument": [
        {"pkg": "./internal/app/connectconformance", "files": [], "mode": "S",
         "instpkgs": ["connectrpc.com/conformance/internal", "connectrpc.com/conformance/internal/tracer"],
         "redirect": ["runCommand=verifRunCommand", "runInProcess=verifRunInProcess"]},
        {"pkg": "./internal", "files": ["delimited.go", "printer.go"], "mode": "S"},
        {"pkg": "./internal/app/connectconformance/testsuites", "files": [], "mode": "S"},
        {"pkg": "./internal/tracer", "files": ["tracer.go"], "mode": "S"},
    ],
    "harness": [("connectconformance", "internal/app/connectconformance")],
    "scenarios": [{"name": "c16-fetch", "share": 1.0}],
    "budget": {"quick": {"seconds": 10, "workers": 16}, "thorough": {"seconds": 300, "workers": 16}},
    "level": "exploration",
    "rule": "c16-fetch: one simulated execution of the runner's consumer side of the trace hand-off: testResults (results.go: setOutcome / failed -> fetchTrace waiter goroutine: Await with a TraceTimeout context, Clear, store) and tracer.Tracer (Init / Complete / Await / Clear), both instrumented, for 1-3 test names; per name the outcome (failure, pass, setup error, known failing), the instant of the outcome (0 .. 7 s), the instant at which a producer task completes the trace (at start, racing the outcome, shortly after, just inside / just outside the waiter's timeout, never), an optional second completion with another trace, an uninitialised slot, a slow node, and every scheduling decision come from the tape; then report() is called and the printed report is examined. Oracle: a reported failure whose trace was completed clearly inside the timeout shows exactly the FIRST completed trace; one completed clearly outside (or never) shows none; non-failures show none; report() returns no later than last outcome + TraceTimeout (constant read from the package); afterwards every slot is cleared: a new wait fails immediately. Distinct = hash of the step log.",
    "expect_probes": ["trace-completed-inside-timeout", "trace-completed-after-wait-began", "trace-completed-before-wait-began", "trace-completed-outside-timeout-or-never"],
    "real": ["internal/app/connectconformance/results.go (newResults, setOutcome, failed, fetchTrace, report) and internal/tracer/tracer.go (Tracer) - instrumented copies of the current tree"],
    "stubbed": ["producers of traces (scripted tasks calling Tracer.Complete)", "wall clock (synctest fake clock)", "goroutine scheduling (seeded scheduler)"],
    "assumptions": ["completions within 20 ms of the waiter's deadline are left open (waiter start and completion are separate scheduler steps)", "runs with slow-node delays only check the clauses that do not depend on timing"],
}
