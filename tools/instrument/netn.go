package main

func (in *inst) netRedirects() {}
