package main

import (
	"go/ast"
	"go/types"

	"golang.org/x/tools/go/ast/astutil"
)

const simquicPath = "connectrpc.com/conformance/internal/verifsim/simquic"

func namedType(t types.Type) (pkg, name string) {
	if p, ok := t.(*types.Pointer); ok {
		t = p.Elem()
	}
	n, ok := t.(*types.Named)
	if !ok || n.Obj().Pkg() == nil {
		return "", ""
	}
	return n.Obj().Pkg().Path(), n.Obj().Name()
}

// netRedirects sends the peers' network entry points to the simulated network
// (engine N): net.Listen, net.Dialer.DialContext, http.Transport literals,
// quic.ListenAddrEarly and http3.Transport literals.
func (in *inst) netRedirects() {
	usedNet, usedQuic := false, false
	pkgFunc := func(c *ast.CallExpr) (string, string, *ast.Ident) {
		sel, ok := c.Fun.(*ast.SelectorExpr)
		if !ok {
			return "", "", nil
		}
		id, ok := sel.X.(*ast.Ident)
		if !ok {
			return "", "", nil
		}
		pn, ok := in.info.Uses[id].(*types.PkgName)
		if !ok {
			return "", "", nil
		}
		return pn.Imported().Path(), sel.Sel.Name, id
	}
	ast.Inspect(in.file, func(n ast.Node) bool {
		switch x := n.(type) {
		case *ast.CallExpr:
			if path, name, id := pkgFunc(x); id != nil {
				switch {
				case path == "net" && name == "Listen":
					id.Name = "verifsimnet"
					usedNet = true
					in.counts["net.Listen"]++
				case path == "github.com/quic-go/quic-go" && name == "ListenAddrEarly":
					id.Name = "verifsimquic"
					usedQuic = true
					in.counts["quic.ListenAddrEarly"]++
				}
				return true
			}
			if sel, ok := x.Fun.(*ast.SelectorExpr); ok && sel.Sel.Name == "DialContext" && len(x.Args) == 3 {
				if tv, ok := in.info.Types[sel.X]; ok {
					if p, nm := namedType(tv.Type); p == "net" && nm == "Dialer" {
						recv := sel.X
						x.Fun = &ast.SelectorExpr{X: ast.NewIdent("verifsimnet"), Sel: ast.NewIdent("DialVia")}
						x.Args = append([]ast.Expr{recv}, x.Args...)
						usedNet = true
						in.counts["Dialer.DialContext"]++
					}
				}
			}
		case *ast.CompositeLit:
			tv, ok := in.info.Types[x]
			if !ok {
				return true
			}
			p, nm := namedType(tv.Type)
			hasKey := func(k string) bool {
				for _, e := range x.Elts {
					if kv, ok := e.(*ast.KeyValueExpr); ok {
						if id, ok := kv.Key.(*ast.Ident); ok && id.Name == k {
							return true
						}
					}
				}
				return false
			}
			switch {
			case p == "net/http" && nm == "Transport" && !hasKey("DialContext"):
				x.Elts = append(x.Elts, &ast.KeyValueExpr{Key: ast.NewIdent("DialContext"),
					Value: &ast.SelectorExpr{X: ast.NewIdent("verifsimnet"), Sel: ast.NewIdent("DialContext")}})
				usedNet = true
				in.counts["http.Transport"]++
			case p == "github.com/quic-go/quic-go/http3" && nm == "Transport" && !hasKey("Dial"):
				x.Elts = append(x.Elts, &ast.KeyValueExpr{Key: ast.NewIdent("Dial"),
					Value: &ast.SelectorExpr{X: ast.NewIdent("verifsimquic"), Sel: ast.NewIdent("Dial")}})
				usedQuic = true
				in.counts["http3.Transport"]++
			}
		}
		return true
	})
	if len(in.redirect) > 0 {
		in.applyRedirects(in.file)
	}
	if usedNet {
		astutil.AddNamedImport(in.fset, in.file, "verifsimnet", simnetPath)
	}
	if usedQuic {
		astutil.AddNamedImport(in.fset, in.file, "verifsimquic", simquicPath)
	}
	// imports that became unused
	for _, path := range []string{"net", "github.com/quic-go/quic-go"} {
		if !in.stillUses(path) {
			astutil.DeleteImport(in.fset, in.file, path)
		}
	}
}

// stillUses reports whether the file still refers to the package imported from
// path (identifiers renamed by the rewrites above no longer count).
func (in *inst) stillUses(path string) bool {
	used := false
	ast.Inspect(in.file, func(n ast.Node) bool {
		id, ok := n.(*ast.Ident)
		if !ok {
			return true
		}
		if pn, ok := in.info.Uses[id].(*types.PkgName); ok && pn.Imported().Path() == path && id.Name == pn.Name() {
			used = true
		}
		return true
	})
	return used
}
