// verif-instrument writes instrumented copies of selected source files of
// /repo for the deterministic simulator (DESIGN.md sect. 3.1).
//
// Mode S (controlled scheduling) inserts yield hooks; mode N (whole system)
// only swaps mutex types and redirects network entry points.
//
// Usage:
//
//	verif-instrument -repo /repo -out DIR -mode S|N -pkg ./internal/app/connectconformance -files a.go,b.go ...
//
// It prints one line "path<TAB>copy" per instrumented file. Exit status 2 on
// any trouble (never 1).
package main

import (
	"bytes"
	"encoding/json"
	"flag"
	"fmt"
	"go/ast"
	"go/format"
	"go/token"
	"go/types"
	"os"
	"path/filepath"
	"sort"
	"strconv"
	"strings"

	"golang.org/x/tools/go/ast/astutil"
	"golang.org/x/tools/go/packages"
)

const simrtPath = "connectrpc.com/conformance/internal/verifsim/simrt"
const simsyncPath = "connectrpc.com/conformance/internal/verifsim/simsync"
const simnetPath = "connectrpc.com/conformance/internal/verifsim/simnet"

var blockingNames = map[string]bool{
	"Read": true, "Write": true, "Close": true, "ReadString": true, "ReadBytes": true,
	"ReadByte": true, "ReadRune": true, "ReadFull": true, "ReadAll": true, "Copy": true,
	"Wait": true, "Acquire": true, "Sleep": true, "result": true, "Flush": true,
	"WriteString": true, "Fprintf": true, "Fprint": true, "Fprintln": true,
	"ReadFrom": true, "WriteTo": true, "CopyN": true, "CloseWithError": true,
	"Do": true, "RoundTrip": true, "ServeHTTP": true,
	// further stdlib readers a refactoring may switch to (bufio.Scanner / bufio.Reader)
	"Scan": true, "ReadLine": true, "ReadSlice": true, "Peek": true, "Discard": true,
}

type inst struct {
	fset     *token.FileSet
	info     *types.Info
	pkg      *types.Package
	file     *ast.File
	base     string
	mode     string
	instPkgs map[string]bool // import paths whose code is instrumented too
	counts   map[string]int
	warns    []string
	redirect map[string]string
	usedRT   bool
}

func die(format string, args ...any) {
	fmt.Fprintf(os.Stderr, "verif-instrument: "+format+"\n", args...)
	os.Exit(2)
}

func main() {
	repo := flag.String("repo", "/repo", "repository root")
	out := flag.String("out", "", "output directory")
	mode := flag.String("mode", "S", "S or N")
	pkgPat := flag.String("pkg", "", "package pattern relative to repo (e.g. ./internal/tracer)")
	files := flag.String("files", "", "comma separated base names of files in the package (empty: all non-test, non-generated)")
	instPkgs := flag.String("instpkgs", "", "comma separated import paths that are instrumented as well")
	redirects := flag.String("redirect", "", "comma separated old=new identifier redirects for package-level function calls")
	tags := flag.String("tags", "verif", "build tags")
	textPatches := flag.String("textpatches", "", "JSON file: [{\"file\": base name, \"old\": text, \"new\": text}] applied to the printed output; each old text must occur exactly once")
	flag.Parse()
	type textPatch struct {
		File string `json:"file"`
		Old  string `json:"old"`
		New  string `json:"new"`
	}
	var patches []textPatch
	if *textPatches != "" {
		data, err := os.ReadFile(*textPatches)
		if err != nil {
			die("%v", err)
		}
		if err := json.Unmarshal(data, &patches); err != nil {
			die("textpatches: %v", err)
		}
	}
	patched := map[int]bool{}
	if *out == "" || *pkgPat == "" {
		die("need -out and -pkg")
	}
	cfg := &packages.Config{
		Mode:       packages.NeedName | packages.NeedFiles | packages.NeedSyntax | packages.NeedTypes | packages.NeedTypesInfo | packages.NeedImports | packages.NeedDeps,
		Dir:        *repo,
		BuildFlags: []string{"-tags=" + *tags},
		Env:        append(os.Environ(), "GOFLAGS=-mod=mod", "GOPROXY=off", "GOSUMDB=off"),
	}
	// NeedDeps with NeedTypes loads dependencies from source for type
	// checking; that is slow for this module, so ask for export data instead.
	cfg.Mode = packages.NeedName | packages.NeedFiles | packages.NeedCompiledGoFiles | packages.NeedSyntax | packages.NeedTypes | packages.NeedTypesInfo | packages.NeedImports | packages.NeedExportFile
	pkgs, err := packages.Load(cfg, *pkgPat)
	if err != nil {
		die("load: %v", err)
	}
	if len(pkgs) != 1 {
		die("expected one package for %s, got %d", *pkgPat, len(pkgs))
	}
	pkg := pkgs[0]
	if len(pkg.Errors) > 0 {
		for _, e := range pkg.Errors {
			fmt.Fprintln(os.Stderr, e)
		}
		die("package %s has errors", pkg.PkgPath)
	}
	want := map[string]bool{}
	if *files != "" {
		for _, f := range strings.Split(*files, ",") {
			want[strings.TrimSpace(f)] = true
		}
	}
	ip := map[string]bool{pkg.PkgPath: true}
	for _, p := range strings.Split(*instPkgs, ",") {
		if p = strings.TrimSpace(p); p != "" {
			ip[p] = true
		}
	}
	redir := map[string]string{}
	for _, r := range strings.Split(*redirects, ",") {
		if r = strings.TrimSpace(r); r != "" {
			kv := strings.SplitN(r, "=", 2)
			if len(kv) != 2 {
				die("bad redirect %q", r)
			}
			redir[kv[0]] = kv[1]
		}
	}
	if err := os.MkdirAll(*out, 0o755); err != nil {
		die("%v", err)
	}
	total := map[string]int{}
	found := map[string]bool{}
	for i, f := range pkg.Syntax {
		path := pkg.CompiledGoFiles[i]
		base := filepath.Base(path)
		if strings.HasSuffix(base, "_test.go") {
			continue
		}
		if len(want) > 0 && !want[base] {
			continue
		}
		if len(want) == 0 && isGenerated(f) {
			continue
		}
		found[base] = true
		in := &inst{fset: pkg.Fset, info: pkg.TypesInfo, pkg: pkg.Types, file: f, base: base, mode: *mode,
			instPkgs: ip, counts: map[string]int{}, redirect: redir}
		in.run()
		stripComments(f)
		var buf bytes.Buffer
		if err := format.Node(&buf, pkg.Fset, f); err != nil {
			die("print %s: %v", base, err)
		}
		outBytes := buf.Bytes()
		for pi, tp := range patches {
			if tp.File != base {
				continue
			}
			if n := strings.Count(string(outBytes), tp.Old); n != 1 {
				die("text patch for %s: anchor occurs %d times, want exactly 1:\n%s", base, n, tp.Old)
			}
			outBytes = []byte(strings.Replace(string(outBytes), tp.Old, tp.New, 1))
			patched[pi] = true
		}
		buf.Reset()
		buf.Write(outBytes)
		rel, err := filepath.Rel(*repo, path)
		if err != nil {
			die("%v", err)
		}
		dst := filepath.Join(*out, rel)
		if err := os.MkdirAll(filepath.Dir(dst), 0o755); err != nil {
			die("%v", err)
		}
		if err := os.WriteFile(dst, buf.Bytes(), 0o644); err != nil {
			die("%v", err)
		}
		fmt.Printf("%s\t%s\n", path, dst)
		keys := make([]string, 0, len(in.counts))
		for k := range in.counts {
			keys = append(keys, k)
		}
		sort.Strings(keys)
		var parts []string
		for _, k := range keys {
			parts = append(parts, fmt.Sprintf("%s=%d", k, in.counts[k]))
			total[k] += in.counts[k]
		}
		fmt.Fprintf(os.Stderr, "instrumented %s: %s\n", rel, strings.Join(parts, " "))
		for _, w := range in.warns {
			fmt.Fprintf(os.Stderr, "  warning: %s\n", w)
		}
	}
	for pi, tp := range patches {
		if found[tp.File] && !patched[pi] {
			die("text patch for %s was not applied", tp.File)
		}
	}
	for f := range want {
		if !found[f] {
			die("file %s not found in package %s", f, pkg.PkgPath)
		}
	}
}

// stripComments removes ordinary comments (inserted statements would
// otherwise be interleaved with them by the printer); directives and the
// file header are kept.
func stripComments(f *ast.File) {
	var keep []*ast.CommentGroup
	for _, cg := range f.Comments {
		if cg.End() < f.Package {
			keep = append(keep, cg)
			continue
		}
		var lines []*ast.Comment
		for _, c := range cg.List {
			if strings.HasPrefix(c.Text, "//go:") {
				lines = append(lines, c)
			}
		}
		if len(lines) > 0 {
			keep = append(keep, &ast.CommentGroup{List: lines})
		}
	}
	f.Comments = keep
}

func isGenerated(f *ast.File) bool {
	for _, cg := range f.Comments {
		if cg.Pos() > f.Package {
			break
		}
		if strings.Contains(cg.Text(), "Code generated") {
			return true
		}
	}
	return false
}

func (in *inst) site(n ast.Node) *ast.BasicLit {
	p := in.fset.Position(n.Pos())
	return &ast.BasicLit{Kind: token.STRING, Value: strconv.Quote(fmt.Sprintf("%s:%d", in.base, p.Line))}
}

func (in *inst) rtCall(fn string, args ...ast.Expr) ast.Stmt {
	in.usedRT = true
	return &ast.ExprStmt{X: &ast.CallExpr{
		Fun:  &ast.SelectorExpr{X: ast.NewIdent("verifsimrt"), Sel: ast.NewIdent(fn)},
		Args: args,
	}}
}

func (in *inst) run() {
	if in.mode == "N" {
		in.runN()
		return
	}
	for _, d := range in.file.Decls {
		fd, ok := d.(*ast.FuncDecl)
		if !ok || fd.Body == nil {
			// package-level var initialisers may hold FuncLits
			ast.Inspect(d, func(n ast.Node) bool {
				if fl, ok := n.(*ast.FuncLit); ok {
					in.block(fl.Body)
					return false
				}
				return true
			})
			continue
		}
		in.block(fd.Body)
	}
	if in.usedRT {
		astutil.AddNamedImport(in.fset, in.file, "verifsimrt", simrtPath)
	}
}

func (in *inst) block(b *ast.BlockStmt) {
	if b == nil {
		return
	}
	b.List = in.list(b.List)
}

// funcLitsIn processes FuncLit bodies nested in the expressions of n (but not
// in nested statements, which the statement walk reaches by itself).
func (in *inst) funcLitsIn(n ast.Node) {
	if n == nil {
		return
	}
	ast.Inspect(n, func(m ast.Node) bool {
		switch x := m.(type) {
		case *ast.FuncLit:
			in.block(x.Body)
			return false
		case *ast.BlockStmt:
			return false
		}
		return true
	})
}

func (in *inst) list(list []ast.Stmt) []ast.Stmt {
	var out []ast.Stmt
	for _, st := range list {
		pre, repl, post := in.stmt(st)
		out = append(out, pre...)
		out = append(out, repl)
		out = append(out, post...)
	}
	return out
}

// exprsOf returns the expressions of a simple statement that are evaluated
// as part of the statement itself.
func exprNodes(st ast.Stmt) []ast.Node {
	switch s := st.(type) {
	case *ast.ExprStmt:
		return []ast.Node{s.X}
	case *ast.AssignStmt:
		var ns []ast.Node
		for _, e := range s.Lhs {
			ns = append(ns, e)
		}
		for _, e := range s.Rhs {
			ns = append(ns, e)
		}
		return ns
	case *ast.SendStmt:
		return []ast.Node{s.Chan, s.Value}
	case *ast.DeclStmt:
		return []ast.Node{s.Decl}
	case *ast.ReturnStmt:
		var ns []ast.Node
		for _, e := range s.Results {
			ns = append(ns, e)
		}
		return ns
	case *ast.IncDecStmt:
		return []ast.Node{s.X}
	}
	return nil
}

type opInfo struct {
	blocking bool
	atomic   bool
}

// scan looks for blocking operations and atomic accesses in n, not descending
// into function literals.
func (in *inst) scan(nodes ...ast.Node) opInfo {
	var oi opInfo
	for _, n := range nodes {
		if n == nil {
			continue
		}
		ast.Inspect(n, func(m ast.Node) bool {
			switch x := m.(type) {
			case *ast.FuncLit:
				return false
			case *ast.UnaryExpr:
				if x.Op == token.ARROW {
					oi.blocking = true
				}
			case *ast.CallExpr:
				if in.isBlockingCall(x) {
					oi.blocking = true
				}
				if in.isAtomicCall(x) {
					oi.atomic = true
				}
				if id, ok := x.Fun.(*ast.Ident); ok && id.Name == "close" && len(x.Args) == 1 {
					if _, isBuiltin := in.info.Uses[id].(*types.Builtin); isBuiltin {
						oi.atomic = true // closing a channel is a visible operation: yield before it
					}
				}
			}
			return true
		})
	}
	return oi
}

func (in *inst) calleeObj(c *ast.CallExpr) types.Object {
	switch f := c.Fun.(type) {
	case *ast.Ident:
		return in.info.Uses[f]
	case *ast.SelectorExpr:
		if sel := in.info.Selections[f]; sel != nil {
			return sel.Obj()
		}
		return in.info.Uses[f.Sel]
	case *ast.IndexExpr: // generic instantiation f[T](...)
		switch g := f.X.(type) {
		case *ast.Ident:
			return in.info.Uses[g]
		case *ast.SelectorExpr:
			return in.info.Uses[g.Sel]
		}
	}
	return nil
}

func (in *inst) isBlockingCall(c *ast.CallExpr) bool {
	obj := in.calleeObj(c)
	fn, ok := obj.(*types.Func)
	if !ok {
		return false
	}
	if !blockingNames[fn.Name()] {
		return false
	}
	sig, _ := fn.Type().(*types.Signature)
	if sig != nil && sig.Recv() != nil {
		// interface method: dynamic, assume it can block
		if types.IsInterface(sig.Recv().Type()) {
			return true
		}
	}
	if fn.Pkg() != nil && in.instPkgs[fn.Pkg().Path()] {
		// concrete function of instrumented code: its own body carries hooks
		return false
	}
	return true
}

func (in *inst) isAtomicCall(c *ast.CallExpr) bool {
	obj := in.calleeObj(c)
	fn, ok := obj.(*types.Func)
	if !ok || fn.Pkg() == nil {
		return false
	}
	return fn.Pkg().Path() == "sync/atomic"
}

func isMutexType(t types.Type) (rw bool, ok bool) {
	if p, isPtr := t.(*types.Pointer); isPtr {
		t = p.Elem()
	}
	n, isNamed := t.(*types.Named)
	if !isNamed || n.Obj().Pkg() == nil {
		return false, false
	}
	if n.Obj().Pkg().Path() != "sync" {
		return false, false
	}
	switch n.Obj().Name() {
	case "Mutex":
		return false, true
	case "RWMutex":
		return true, true
	}
	return false, false
}

// lockCall recognises X.Lock() / X.RLock() on sync mutexes.
func (in *inst) lockCall(st ast.Stmt) (x ast.Expr, read bool, ok bool) {
	es, isExpr := st.(*ast.ExprStmt)
	if !isExpr {
		return nil, false, false
	}
	c, isCall := es.X.(*ast.CallExpr)
	if !isCall || len(c.Args) != 0 {
		return nil, false, false
	}
	sel, isSel := c.Fun.(*ast.SelectorExpr)
	if !isSel || (sel.Sel.Name != "Lock" && sel.Sel.Name != "RLock") {
		return nil, false, false
	}
	tv, has := in.info.Types[sel.X]
	if !has {
		return nil, false, false
	}
	if _, isMu := isMutexType(tv.Type); !isMu {
		// embedded mutex: method promoted through a struct
		if s := in.info.Selections[sel]; s != nil {
			if fn, isFn := s.Obj().(*types.Func); isFn && fn.Pkg() != nil && fn.Pkg().Path() == "sync" {
				return sel.X, sel.Sel.Name == "RLock", true
			}
		}
		return nil, false, false
	}
	return sel.X, sel.Sel.Name == "RLock", true
}

func (in *inst) stmt(st ast.Stmt) (pre []ast.Stmt, repl ast.Stmt, post []ast.Stmt) {
	repl = st
	switch s := st.(type) {
	case *ast.BlockStmt:
		in.block(s)
		return
	case *ast.LabeledStmt:
		p, r, q := in.stmt(s.Stmt)
		if len(p) > 0 || len(q) > 0 {
			// keep the label on the statement itself; hooks go around it
			s.Stmt = r
			return p, s, q
		}
		s.Stmt = r
		return
	case *ast.IfStmt:
		in.funcLitsIn(s.Init)
		in.funcLitsIn(s.Cond)
		in.block(s.Body)
		oi := in.scan(s.Init, s.Cond)
		if s.Else != nil {
			_, r, _ := in.stmt(s.Else)
			s.Else = r
		}
		if oi.blocking {
			in.counts["if-blocking"]++
			pre = append(pre, in.rtCall("Yield", in.site(s)))
			s.Body.List = append([]ast.Stmt{in.rtCall("AfterBlock", in.site(s))}, s.Body.List...)
			switch e := s.Else.(type) {
			case nil:
				s.Else = &ast.BlockStmt{List: []ast.Stmt{in.rtCall("AfterBlock", in.site(s))}}
			case *ast.BlockStmt:
				e.List = append([]ast.Stmt{in.rtCall("AfterBlock", in.site(s))}, e.List...)
			default:
				s.Else = &ast.BlockStmt{List: []ast.Stmt{in.rtCall("AfterBlock", in.site(s)), e}}
			}
		} else if oi.atomic {
			in.counts["atomic"]++
			pre = append(pre, in.rtCall("Yield", in.site(s)))
		}
		return
	case *ast.ForStmt:
		in.funcLitsIn(s.Init)
		in.funcLitsIn(s.Cond)
		in.funcLitsIn(s.Post)
		in.block(s.Body)
		if oi := in.scan(s.Init, s.Post); oi.blocking {
			in.warns = append(in.warns, fmt.Sprintf("%s: blocking operation in for clause is not annotated", in.site(s).Value))
		} else if s.Cond != nil && in.scan(s.Cond).blocking {
			// for init; cond(); post { body }  =>  for init; ; post { Yield; c := cond(); AfterBlock; if !c { break }; body }
			in.counts["for-cond-blocking"]++
			cond := s.Cond
			s.Cond = nil
			head := []ast.Stmt{
				in.rtCall("Yield", in.site(s)),
				&ast.AssignStmt{Lhs: []ast.Expr{ast.NewIdent("verifCond")}, Tok: token.DEFINE, Rhs: []ast.Expr{cond}},
				in.rtCall("AfterBlock", in.site(s)),
				&ast.IfStmt{Cond: &ast.UnaryExpr{Op: token.NOT, X: ast.NewIdent("verifCond")},
					Body: &ast.BlockStmt{List: []ast.Stmt{&ast.BranchStmt{Tok: token.BREAK}}}},
			}
			s.Body.List = append(head, s.Body.List...)
		}
		return
	case *ast.RangeStmt:
		in.funcLitsIn(s.X)
		in.block(s.Body)
		tv := in.info.Types[s.X]
		if tv.Type != nil {
			switch tv.Type.Underlying().(type) {
			case *types.Chan:
				in.counts["range-chan"]++
				pre = append(pre, in.rtCall("Yield", in.site(s)))
				s.Body.List = append([]ast.Stmt{in.rtCall("AfterBlock", in.site(s))}, s.Body.List...)
				post = append(post, in.rtCall("AfterBlock", in.site(s)))
			case *types.Map:
				if r := in.mapRange(s); r != nil {
					in.counts["range-map"]++
					repl = r
				}
			}
		}
		return
	case *ast.SwitchStmt:
		in.funcLitsIn(s.Init)
		in.funcLitsIn(s.Tag)
		oi := in.scan(s.Init, s.Tag)
		for _, cc := range s.Body.List {
			c := cc.(*ast.CaseClause)
			for _, e := range c.List {
				in.funcLitsIn(e)
				o2 := in.scan(e)
				oi.blocking = oi.blocking || o2.blocking
				oi.atomic = oi.atomic || o2.atomic
			}
			c.Body = in.list(c.Body)
		}
		if oi.blocking {
			in.warns = append(in.warns, fmt.Sprintf("%s: blocking operation in switch header is not annotated", in.site(s).Value))
		}
		if oi.atomic || oi.blocking {
			in.counts["atomic"]++
			pre = append(pre, in.rtCall("Yield", in.site(s)))
		}
		return
	case *ast.TypeSwitchStmt:
		for _, cc := range s.Body.List {
			c := cc.(*ast.CaseClause)
			c.Body = in.list(c.Body)
		}
		return
	case *ast.SelectStmt:
		in.counts["select"]++
		hasDefault := false
		onlyRecv := true
		for _, cc := range s.Body.List {
			c := cc.(*ast.CommClause)
			if c.Comm == nil {
				hasDefault = true
			} else {
				in.funcLitsIn(c.Comm)
				if _, isSend := c.Comm.(*ast.SendStmt); isSend {
					onlyRecv = false
				}
			}
			c.Body = in.list(c.Body)
			if !hasDefault || c.Comm != nil {
				c.Body = append([]ast.Stmt{in.rtCall("AfterBlock", in.site(c))}, c.Body...)
			}
		}
		pre = append(pre, in.rtCall("Yield", in.site(s)))
		if !hasDefault && onlyRecv && len(s.Body.List) >= 2 {
			// A select that is entered while several cases are ready is decided by
			// the runtime's private coin. Poll the cases one by one first, in an
			// order taken from the tape, and only then block: after blocking exactly
			// one event wakes the select, so the outcome is a function of the tape.
			in.counts["select-ordered"]++
			repl = in.orderedSelect(s)
		}
		return
	case *ast.GoStmt:
		in.counts["go"]++
		in.funcLitsIn(s.Call)
		return nil, in.goStmt(s), nil
	case *ast.DeferStmt:
		in.funcLitsIn(s.Call)
		if _, isLit := s.Call.Fun.(*ast.FuncLit); !isLit && in.isBlockingCall(s.Call) {
			// defer x.Wait()  ->  defer func() { Yield; x.Wait(); AfterBlock }()
			if len(s.Call.Args) == 0 {
				in.counts["defer-blocking"]++
				call := *s.Call
				s.Call = &ast.CallExpr{Fun: &ast.FuncLit{
					Type: &ast.FuncType{Params: &ast.FieldList{}},
					Body: &ast.BlockStmt{List: []ast.Stmt{
						in.rtCall("Yield", in.site(s)),
						&ast.ExprStmt{X: &call},
						in.rtCall("AfterBlock", in.site(s)),
					}},
				}}
			} else {
				in.warns = append(in.warns, fmt.Sprintf("%s: deferred blocking call with arguments is not annotated", in.site(s).Value))
			}
		}
		return
	}
	// simple statements
	for _, n := range exprNodes(st) {
		in.funcLitsIn(n)
	}
	if x, read, ok := in.lockCall(st); ok {
		in.counts["lock"]++
		try, unlock := "TryLock", "Unlock"
		if read {
			try, unlock = "TryRLock", "RUnlock"
		}
		pre = append(pre, in.rtCall("BeforeLock",
			&ast.SelectorExpr{X: x, Sel: ast.NewIdent(try)},
			&ast.SelectorExpr{X: x, Sel: ast.NewIdent(unlock)},
			in.site(st)))
		return
	}
	in.applyRedirects(st)
	oi := in.scan(exprNodes(st)...)
	if _, isSend := st.(*ast.SendStmt); isSend {
		oi.blocking = true
	}
	switch {
	case oi.blocking:
		in.counts["blocking"]++
		pre = append(pre, in.rtCall("Yield", in.site(st)))
		if _, isRet := st.(*ast.ReturnStmt); isRet {
			in.warns = append(in.warns, fmt.Sprintf("%s: blocking operation in return statement has no AfterBlock", in.site(st).Value))
		} else {
			post = append(post, in.rtCall("AfterBlock", in.site(st)))
		}
	case oi.atomic:
		in.counts["atomic"]++
		pre = append(pre, in.rtCall("Yield", in.site(st)))
	}
	return
}

func (in *inst) applyRedirects(n ast.Node) {
	if len(in.redirect) == 0 {
		return
	}
	ast.Inspect(n, func(m ast.Node) bool {
		c, ok := m.(*ast.CallExpr)
		if !ok {
			return true
		}
		id, ok := c.Fun.(*ast.Ident)
		if !ok {
			return true
		}
		if to, has := in.redirect[id.Name]; has {
			if obj := in.info.Uses[id]; obj != nil && obj.Pkg() == in.pkg && obj.Parent() == in.pkg.Scope() {
				id.Name = to
				in.counts["redirect"]++
			}
		}
		return true
	})
}

// orderedSelect builds: if Flip { poll cases in source order } else { reverse order }; each
// poll is a non-blocking select whose default falls through to the next poll and finally
// to the original blocking select.
func (in *inst) orderedSelect(s *ast.SelectStmt) ast.Stmt {
	n := len(s.Body.List)
	build := func(order []int) ast.Stmt {
		var cur ast.Stmt = s
		for k := len(order) - 1; k >= 0; k-- {
			c := s.Body.List[order[k]].(*ast.CommClause)
			cur = &ast.SelectStmt{Body: &ast.BlockStmt{List: []ast.Stmt{
				&ast.CommClause{Comm: c.Comm, Body: c.Body},
				&ast.CommClause{Comm: nil, Body: []ast.Stmt{cur}},
			}}}
		}
		return cur
	}
	fwd := make([]int, n)
	rev := make([]int, n)
	for i := 0; i < n; i++ {
		fwd[i] = i
		rev[i] = n - 1 - i
	}
	in.usedRT = true
	return &ast.IfStmt{
		Cond: &ast.CallExpr{Fun: &ast.SelectorExpr{X: ast.NewIdent("verifsimrt"), Sel: ast.NewIdent("Flip")}, Args: []ast.Expr{in.site(s)}},
		Body: &ast.BlockStmt{List: []ast.Stmt{build(fwd)}},
		Else: &ast.BlockStmt{List: []ast.Stmt{build(rev)}},
	}
}

// goStmt rewrites `go f(args)` into a block that evaluates the arguments in
// place and starts the call as a registered task.
func (in *inst) goStmt(s *ast.GoStmt) ast.Stmt {
	in.applyRedirects(s.Call)
	var stmts []ast.Stmt
	call := *s.Call
	newArgs := make([]ast.Expr, len(call.Args))
	for i, a := range call.Args {
		if isConstLike(in.info, a) {
			newArgs[i] = a
			continue
		}
		tmp := ast.NewIdent(fmt.Sprintf("verifArg%d", i))
		stmts = append(stmts, &ast.AssignStmt{Lhs: []ast.Expr{tmp}, Tok: token.DEFINE, Rhs: []ast.Expr{a}})
		newArgs[i] = tmp
	}
	call.Args = newArgs
	if call.Ellipsis.IsValid() {
		call.Ellipsis = token.Pos(1) // keep the variadic spread
	}
	in.usedRT = true
	stmts = append(stmts, &ast.ExprStmt{X: &ast.CallExpr{
		Fun: &ast.SelectorExpr{X: ast.NewIdent("verifsimrt"), Sel: ast.NewIdent("Go")},
		Args: []ast.Expr{in.site(s), &ast.FuncLit{
			Type: &ast.FuncType{Params: &ast.FieldList{}},
			Body: &ast.BlockStmt{List: []ast.Stmt{&ast.ExprStmt{X: &call}}},
		}},
	}})
	return &ast.BlockStmt{List: stmts}
}

func isConstLike(info *types.Info, e ast.Expr) bool {
	if tv, ok := info.Types[e]; ok && tv.Value != nil {
		return true
	}
	if id, ok := e.(*ast.Ident); ok && id.Name == "nil" {
		return true
	}
	return false
}

// mapRange rewrites `for k, v := range m { body }` so that the iteration order
// comes from the tape.
func (in *inst) mapRange(s *ast.RangeStmt) ast.Stmt {
	if s.Tok == token.ASSIGN {
		in.warns = append(in.warns, fmt.Sprintf("%s: map range with '=' not rewritten", in.site(s).Value))
		return nil
	}
	in.usedRT = true
	mapTmp := ast.NewIdent("verifMap")
	keyName := "verifKey"
	userKey := false
	if id, ok := s.Key.(*ast.Ident); ok && id.Name != "_" {
		keyName = id.Name
		userKey = true
	}
	_ = userKey
	key := ast.NewIdent(keyName)
	var body []ast.Stmt
	valName := "_"
	if id, ok := s.Value.(*ast.Ident); ok && id.Name != "_" {
		valName = id.Name
	}
	// v, ok := m[k]; if !ok { continue }
	body = append(body,
		&ast.AssignStmt{
			Lhs: []ast.Expr{ast.NewIdent(valName), ast.NewIdent("verifOK")},
			Tok: token.DEFINE,
			Rhs: []ast.Expr{&ast.IndexExpr{X: mapTmp, Index: key}},
		},
		&ast.IfStmt{
			Cond: &ast.UnaryExpr{Op: token.NOT, X: ast.NewIdent("verifOK")},
			Body: &ast.BlockStmt{List: []ast.Stmt{&ast.BranchStmt{Tok: token.CONTINUE}}},
		},
	)
	body = append(body, s.Body.List...)
	loop := &ast.RangeStmt{
		Key:   ast.NewIdent("_"),
		Value: key,
		Tok:   token.DEFINE,
		X: &ast.CallExpr{
			Fun:  &ast.SelectorExpr{X: ast.NewIdent("verifsimrt"), Sel: ast.NewIdent("Keys")},
			Args: []ast.Expr{mapTmp, in.site(s)},
		},
		Body: &ast.BlockStmt{List: body},
	}
	return &ast.BlockStmt{List: []ast.Stmt{
		&ast.AssignStmt{Lhs: []ast.Expr{mapTmp}, Tok: token.DEFINE, Rhs: []ast.Expr{s.X}},
		loop,
	}}
}

// ---------------------------------------------------------------------------
// mode N

func (in *inst) runN() {
	usedSync := false
	stillSync := false
	ast.Inspect(in.file, func(n ast.Node) bool {
		sel, ok := n.(*ast.SelectorExpr)
		if !ok {
			return true
		}
		id, ok := sel.X.(*ast.Ident)
		if !ok {
			return true
		}
		pn, ok := in.info.Uses[id].(*types.PkgName)
		if !ok {
			return true
		}
		switch pn.Imported().Path() {
		case "sync":
			if sel.Sel.Name == "Mutex" || sel.Sel.Name == "RWMutex" {
				id.Name = "verifsimsync"
				usedSync = true
				in.counts["mutex"]++
			} else {
				stillSync = true
			}
		}
		return true
	})
	if usedSync {
		astutil.AddNamedImport(in.fset, in.file, "verifsimsync", simsyncPath)
		if !stillSync {
			astutil.DeleteImport(in.fset, in.file, "sync")
		}
	}
	in.netRedirects()
}

// netRedirects is filled in for engine N (sect. 3.1); see netn.go.
