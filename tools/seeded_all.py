#!/usr/bin/env python3
"""Runs every seeded change under /verif/seeded against its property's check (in scratch worktrees, in parallel)
and writes /verif/seeded/RESULTS.md. usage: seeded_all.py [--seconds N] [--jobs J] [ids...]"""
import json, os, subprocess, sys, re
from concurrent.futures import ThreadPoolExecutor
V = "/verif"
secs = "25"; jobs = 3; ids = []
a = sys.argv[1:]
while a:
    x = a.pop(0)
    if x == "--seconds": secs = a.pop(0)
    elif x == "--jobs": jobs = int(a.pop(0))
    else: ids.append(x)
dirs = sorted(d for d in os.listdir(V + "/seeded") if os.path.isfile(V + "/seeded/%s/patch.diff" % d) and (not ids or d in ids))
def one(d):
    meta = json.load(open(V + "/seeded/%s/meta.json" % d))
    prop = meta["property"]
    p = subprocess.run([V + "/tools/try_patch.sh", V + "/seeded/%s/patch.diff" % d, prop, "--seconds", secs, "--workers", "8"],
                       stdout=subprocess.PIPE, stderr=subprocess.STDOUT, text=True)
    out = p.stdout
    rc = re.findall(r"exit=(\d+)", out)
    cls = re.findall(r"^  class: (.*)$", out, re.M)
    rcv = rc[-1] if rc else "?"
    if rcv == "0":
        for other in meta.get("cross_checks", []):
            p2 = subprocess.run([V + "/tools/try_patch.sh", V + "/seeded/%s/patch.diff" % d, other, "--seconds", secs, "--workers", "8"],
                                stdout=subprocess.PIPE, stderr=subprocess.STDOUT, text=True)
            rc2 = re.findall(r"exit=(\d+)", p2.stdout)
            if rc2 and rc2[-1] == "1":
                cls = ["(by %s) " % other + c for c in re.findall(r"^  class: (.*)$", p2.stdout, re.M)]
                rcv = "1"
                out += p2.stdout
                prop = prop + " via " + other
                break
    if rcv in ("0", "2") and meta.get("out_of_reach"):
        rcv = "9"
    if rcv == "0" and meta.get("neutralised_by"):
        rcv = "8"
    return d, prop, rcv, cls, out
rows = []
with ThreadPoolExecutor(jobs) as ex:
    for d, prop, rc, cls, out in ex.map(one, dirs):
        verdict = {"1": "DETECTED", "0": "missed", "2": "infra", "9": "missed (out of reach, reason in meta.json)", "8": "no longer a breaking change (neutralised by a later fix in /repo; detected before it)"}.get(rc, "?")
        print(d, prop, verdict, cls[:2], flush=True)
        rows.append((d, prop, verdict, "; ".join(cls[:3])))
        open(V + "/seeded/%s/last_check.log" % d, "w").write(out[-6000:])
# merge with the rows of earlier runs (ids not run this time keep their last result)
prev = {}
try:
    for line in open(V + "/seeded/RESULTS.md"):
        c = [x.strip() for x in line.strip().strip("|").split("|")]
        if len(c) >= 4 and re.match(r"^C\d+-\d+$", c[0]):
            prev[c[0]] = tuple(c[:4])
except FileNotFoundError:
    pass
for r in rows:
    prev[r[0]] = r
def key(i):
    a, b = i.split("-")
    return (a, int(b))
with open(V + "/seeded/RESULTS.md", "w") as f:
    f.write("| seeded change | property | check run against the patched tree (%ss per check, 8 workers) | violation classes |\n|---|---|---|---|\n" % secs)
    for i in sorted(prev, key=key):
        f.write("| %s | %s | %s | %s |\n" % prev[i])
