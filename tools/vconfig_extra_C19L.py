"""Second part of check C19 (run by tools/vcheck_c19.py; reported under property C19): the reference client's receive limit is sharp."""

CHECK = {
    "engine_n": True,
    "sim": ["simio"],
    "report_as": "C19",
    "testpkg": "./internal/app/referenceclient",
    "harness": [("referenceclient", "internal/app/referenceclient")],
    "scenarios": [{"name": "c19-clientlimit", "share": 1.0}],
    "budget": {"quick": {"seconds": 15, "workers": 16}, "thorough": {"seconds": 600, "workers": 16}},
    "level": "exploration",
    "rule": "c19-clientlimit: one run = the REAL reference server (referenceserver.Run) and the REAL reference client (run(): stdin decoder, semaphore, invoke, connect-go client, stdout encoder; reference mode or not) in one synctest bubble on the simulated network, both driven over in-memory pipes the way the runner drives them. Drawn per run: protocol (Connect, gRPC, gRPC-Web), HTTP/1.1 or h2c, one of the six compressions, unary or server stream with 1-3 responses, response data sizes (0 .. 70 KiB, compressible or incompressible). The harness first runs the RPC without a limit and measures the uncompressed size S_i of each response message (proto.Size of the response message that carries the payload it got back), then hands the SAME RPC 2-4 more times to the same client process at once, with message_receive_limit drawn around those sizes (S-2, S-1, S, S+1, 2S, 1, far above). Oracle: no message over the limit => success with all payloads unchanged; first message over the limit => error code resource_exhausted and no payload from that message on. Distinct = hash of the generated case.",
    "expect_probes": ["accepted", "rejected", "accepted-at-exactly-the-limit", "rejected-one-byte-over"],
    "real": ["internal/app/referenceclient: run, invoke, invoker, wire capture transport (reference mode) - instrumented copies of the current tree",
             "internal/app/referenceserver: Run, createServer, handlers", "connect-go client and handlers, net/http, x/net/http2 (h2c), internal/compression codecs"],
    "stubbed": ["the network (simnet, seeded segmentation and latency)", "wall clock (synctest)", "the runner (harness writes ClientCompatRequest / reads ClientCompatResponse on pipes)", "OS processes (both peers are goroutine groups in one process)"],
    "assumptions": ["proto codec only (the JSON size of a response cannot be computed independently of the server's formatter)", "no TLS, no HTTP/3 in this scenario",
                    "goroutine interleaving inside the HTTP stacks is the Go scheduler's"],
}
