#!/bin/sh
# usage: tools/confirm_seeded.sh <agent MUTATION/N dir> <seeded-id> <property> <demo-package-dir> <demo run regex>
# Confirms in a scratch worktree: patch applies, repo builds, existing tests of the touched packages pass,
# demo fails with the patch and passes without. Copies the artefacts to /verif/seeded/<id>/.
src="$1"; id="$2"; prop="$3"; pkgdir="$4"; rx="$5"
export GOFLAGS=-mod=mod GOPROXY=off GOSUMDB=off
wt=/tmp/confirm-$id
git -C /repo worktree remove --force $wt 2>/dev/null; rm -rf $wt
git -C /repo worktree add --detach -q $wt HEAD || exit 2
cd $wt
demo=$(ls $src/*_test.go 2>/dev/null | head -1)
out=/verif/seeded/$id; mkdir -p $out
log=$out/confirm.log; : > $log
cp $demo $pkgdir/zz_seeded_demo_test.go
echo "== demo without patch" >> $log
go test -vet=off -count=1 -run "$rx" ./$pkgdir >> $log 2>&1; clean_rc=$?
git apply --3way $src/patch.diff >> $log 2>&1 || git apply $src/patch.diff >> $log 2>&1 || { echo "patch does not apply" | tee -a $log; apply_fail=1; }
git diff HEAD --stat -- . ':!*zz_seeded_demo_test.go' >> $log
echo "== build with patch" >> $log
go build ./... >> $log 2>&1; build_rc=$?
echo "== demo with patch" >> $log
go test -vet=off -count=1 -run "$rx" ./$pkgdir >> $log 2>&1; mut_rc=$?
rm -f $pkgdir/zz_seeded_demo_test.go
echo "== existing suite with patch" >> $log
go test -vet=off -count=1 ./internal/... ./cmd/... >> $log 2>&1; suite_rc=$?
git diff HEAD > $out/patch.diff
cp $demo $out/demo_test.go
[ -f $src/meta.json ] && cp $src/meta.json $out/agent_meta.json
echo "id=$id apply_fail=${apply_fail:-0} demo_clean_rc=$clean_rc build_rc=$build_rc demo_mut_rc=$mut_rc suite_rc=$suite_rc" | tee -a $log
cd /; git -C /repo worktree remove --force $wt
