"""C02: derived expectations agree with the reference peers on generated well-formed cases (engine N)."""
import json
import os
import sys
import time
from concurrent.futures import ThreadPoolExecutor

import vcheck
import vcheck_n as N
from vcheck_c01 import VERSIONS, PROTOCOLS, CODECS, COMPRESSIONS, REF_EXTRA, LEVELS, valid

VERIF = N.VERIF
KNOWN_FILE = os.path.join(VERIF, "known_findings.json")


def known_for(prop):
    try:
        d = json.load(open(KNOWN_FILE))
    except Exception:  # noqa: BLE001
        return []
    return [k for k in d.get("findings", []) if k.get("property") == prop and k.get("status") == "known"]


def known_c02():
    return known_for("C02")


def match_known(known, cls, detail):
    for k in known:
        subs = list(k.get("details") or [])
        if k.get("detail"):
            subs.append(k["detail"])
        if k["class"] in cls and all(x in detail for x in subs):
            return k
    return None


def make_jobs(tier, seed, work, ncases, shards_per_mode, modes=(("server", "referenceserver"), ("client", "referenceclient")), gen_kind=""):
    cfgdir = os.path.join(work, "configs")
    os.makedirs(cfgdir, exist_ok=True)
    jobs = []
    combos = [(v, p) for v in VERSIONS for p in PROTOCOLS if valid(v, p)]
    idx = 0
    for mode, peer in modes:
        for k in range(shards_per_mode):
            idx += 1
            v, p = combos[(seed + idx) % len(combos)]
            # every protocol x version x codec x compression x TLS value occurs over a batch; one shard takes one slice
            codecs = [CODECS[(seed + idx) % 2]]
            comps = ["COMPRESSION_IDENTITY", COMPRESSIONS[1 + (seed + idx) % 5]]
            name = "gen-%s-%d" % (mode, k)
            cfgp = os.path.join(cfgdir, name + ".yaml")
            N.write_yaml_config(cfgp, [v], [p], codecs, comps, REF_EXTRA)
            lv = 1
            j = {"kind": "run", "name": name, "mode": mode, "peer": peer, "config_file": cfgp, "known_failing": [], "trace": True,
                 "seed": seed * 1000 + idx, "max_servers": 4, "parallelism": 8, "level": lv,
                 "gen_seed": seed * 100003 + idx, "gen_cases": ncases, "gen_thorough": tier == "thorough", "gen_kind": gen_kind,
                 "shard": "%s %s %s %s" % (v, p, codecs[0], comps[1])}
            j.update(LEVELS[lv])
            jobs.append(j)
    return jobs


def case_of(name):
    last = name.rsplit("/", 1)[-1]
    if last.startswith("g") and last[1:].isdigit():
        return int(last[1:])
    return None


def rerun_single(binp, job, tape, work, tag):
    j = dict(job)
    j["gen_tapes"] = [tape]
    j["gen_cases"] = 0
    j["name"] = tag
    r = N.run_shard(binp, j, work, 240)
    return r


def fails(r):
    d = r["data"]
    if d is None:
        return None
    if d.get("panic"):
        return "hang" if d["panic"].startswith("HANG:") else "panic"
    g = d.get("gen") or []
    if g and g[0]["load"].startswith("panic"):
        return "load-panic"
    if g and g[0].get("load_violation"):
        return "padding"
    if g and g[0]["load"].startswith("rejected"):
        return None
    if not d["ok"]:
        return "fail"
    return None


def shrink(binp, job, tape, work, cls, budget=24):
    """tape shrinking across fresh processes: truncate, zero blocks, halve values."""
    best = list(tape)
    n = [0]

    def bad(cand):
        if n[0] >= budget:
            return False
        n[0] += 1
        r = rerun_single(binp, job, cand, work, "shrink-%d" % n[0])
        return fails(r) == cls
    lo, hi = 0, len(best)
    while lo < hi and n[0] < budget:
        mid = (lo + hi) // 2
        if bad(best[:mid]):
            hi = mid
        else:
            lo = mid + 1
    if hi < len(best) and bad(best[:hi]):
        best = best[:hi]
    for i in range(len(best)):
        if best[i] and n[0] < budget:
            cand = list(best)
            cand[i] = 0
            if bad(cand):
                best = cand
    while best and best[-1] == 0:
        best.pop()
    return best


def run_gen(args, PROP, gen_kind, modes, rule, extra_assumptions, extra_coverage=None):
    P = PROP.lower()
    tier = args.tier if args.tier in ("quick", "thorough") else "quick"
    seed = args.seed if args.seed is not None else int(os.environ.get("VERIF_SEED", "1") or "1")
    work = os.path.join(VERIF, "work", PROP + os.environ.get("VERIF_WORK_SUFFIX", ""))
    t0 = time.time()
    bcfg = N.n_config(os.path.join(work + "-prep"))
    bcfg["id"] = PROP
    binp, build_s, _ = vcheck.build(bcfg, work)
    known = known_for(PROP)

    if args.replay:
        rf = json.load(open(args.replay))
        if rf.get("config_text"):
            os.makedirs(os.path.join(work, "configs"), exist_ok=True)
            rf["job"]["config_file"] = os.path.join(work, "configs", "replay.yaml")
            open(rf["job"]["config_file"], "w").write(rf["config_text"])
        r = rerun_single(binp, rf["job"], rf["tape"], work, "replay")
        f = fails(r)
        d = r["data"] or {}
        print(json.dumps({"verdict": f, "load": (d.get("gen") or [{}])[0].get("load"), "failed_lines": d.get("failed_lines"), "panic": d.get("panic")}, indent=1)[:6000])
        if f == rf["class"].split("/", 1)[1] or (f and rf["class"].endswith(f)):
            print("VIOLATION property=%s replay=%s" % (PROP, os.path.abspath(args.replay)))
            return 1
        print("replay: verdict now %r" % f)
        return 0

    ncases = (90 if PROP == "C02" else 30) if tier == "quick" else (160 if PROP == "C02" else 80)
    shards = 12 if tier == "quick" else 64
    jobs = make_jobs(tier, seed, work, ncases, shards, modes, gen_kind)
    with ThreadPoolExecutor(args.workers or 16) as ex:
        results = list(ex.map(lambda j: N.run_shard(binp, j, work, 900), jobs))
    agg = {"cases": 0, "rejected": 0, "load_panics": 0, "permutations": 0, "passed": 0, "failed": 0, "sim_seconds": 0.0, "net": {}}
    streams = {}
    samples = []
    found = []   # (job, case index, tape, class, detail)
    for r in results:
        d = r["data"]
        if d is None:
            print("shard %s died rc=%s\n%s" % (r["job"]["name"], r["rc"], open(r["log"]).read()[-3000:]))
            vcheck.infra("shard %s produced no result" % r["job"]["name"])
        gen = d.get("gen") or []
        agg["cases"] += len(gen)
        for g in gen:
            streams[g["stream_type"]] = streams.get(g["stream_type"], 0) + 1
            if g["load"].startswith("rejected"):
                agg["rejected"] += 1
            if g["load"].startswith("panic"):
                agg["load_panics"] += 1
                found.append((r["job"], int(g["name"][1:]), g["tape"], P + "/load-panic", "loading case %s crashed: %s; size info: %s; definition: %s" % (g["name"], g["load"], json.dumps(g.get("size_info")), (g.get("definition") or "")[:1500])))
            if g.get("load_violation"):
                found.append((r["job"], int(g["name"][1:]), g["tape"], P + "/padding", "case %s: %s; size info: %s" % (g["name"], g["load_violation"], json.dumps(g.get("size_info")))))
        if len(samples) < 3 and gen:
            samples.append({"shard": r["job"]["shard"], "mode": r["job"]["mode"], "case": gen[0]["name"], "stream_type": gen[0]["stream_type"], "requests": gen[0]["requests"],
                            "definition": (gen[0].get("definition") or "")[:1500], "permutations_in_shard": d["total"]})
        agg["permutations"] += d["total"]
        agg["passed"] += d["passed"]
        agg["failed"] += d["failed"]
        agg["sim_seconds"] += d["sim_seconds"]
        for k, v in d["net"].items():
            agg["net"][k] = agg["net"].get(k, 0) + v
        if d.get("panic"):
            found.append((r["job"], None, None, P + ("/hang" if d["panic"].startswith("HANG:") else "/panic"), d["panic"][:2000]))
        elif not d["ok"] and "no test cases apply to current configuration" in (d.get("err") or ""):
            agg["rejected"] += 0  # an empty shard: none of its cases applies to this config slice
        elif not d["ok"]:
            seen = set()
            for i, name in enumerate(d["failed_names"] or []):
                ci = case_of(name)
                if ci is None or ci in seen:
                    continue
                seen.add(ci)
                tape = next((g["tape"] for g in gen if g["name"] == "g%d" % ci), None)
                line = next((l for l in (d["failed_lines"] or []) if name in l), "")
                gi = next((g for g in gen if g["name"] == "g%d" % ci), {})
                defn = gi.get("definition") or ""
                found.append((r["job"], ci, tape, P + "/fail", "%s ; case: %s with %s request(s); shape: %s; definition: %s" % (line[:1500], gi.get("stream_type"), gi.get("requests"), gi.get("shape"), defn[:1500])))
            if not seen:
                found.append((r["job"], None, None, P + "/fail", "run %s failed: err=%r %s" % (r["job"]["name"], d["err"], " | ".join((d["failed_lines"] or [])[:2])[:1500])))

    exit_code = 0
    flaky = []
    lines = []
    known_lines = {}
    reported = set()
    collateral = []
    os.makedirs(os.path.join(VERIF, "replays"), exist_ok=True)
    for job, ci, tape, cls, detail in found:
        k = match_known(known, cls, detail)
        if k:
            known_lines[k["id"]] = known_lines.get(k["id"], 0) + 1
            continue
        if cls in reported or len(reported) >= 2 or len(flaky) + len(collateral) >= 8:
            continue
        reported.add(cls)
        path = os.path.join(VERIF, "replays", "%s-%s-%s.json" % (PROP, job["name"], ci))
        orig_detail, orig_tape = detail, tape
        if tape is not None:
            # confirm alone (three fresh processes, same verdict), then minimise the definition
            want = cls.split("/", 1)[1]
            same = sum(1 for k3 in range(3) if fails(rerun_single(binp, job, tape, work, "verify-%d" % k3)) == want)
            if same == 0:
                # fails only in company: collateral damage of another case of the same process (e.g. a hanging
                # case makes the runner give up on the whole client after 20 s); counted, not reported
                collateral.append("%s g%s: %s" % (job["name"], ci, detail[:200]))
                reported.discard(cls)
                continue
            if same != 3:
                # does not replay exactly when run alone (goroutine choice inside the protocol stacks is the Go
                # scheduler's): never reported as a violation; another failing case of the run may replay exactly
                flaky.append("case g%s of %s: %s reproduced %d/3 times when run alone; %s" % (ci, job["name"], cls, same, detail[:600]))
                reported.discard(cls)
                continue
            small = shrink(binp, job, tape, work, want)
            rr = rerun_single(binp, job, small, work, "minimal")
            dd = rr["data"] or {}
            gi = (dd.get("gen") or [{}])[0]
            detail = "minimised (%d -> %d tape entries): load=%s %s ; shape: %s; definition: %s" % (len(tape), len(small), gi.get("load"), " | ".join((dd.get("failed_lines") or [])[:1])[:1500], gi.get("shape"), (gi.get("definition") or "")[:2500])
            tape = small
        json.dump({"property": PROP, "class": cls, "detail": detail, "tape": tape, "job": job, "config_text": open(job["config_file"]).read(),
                   "detail_before_minimisation": orig_detail, "tape_before_minimisation": orig_tape}, open(path, "w"), indent=1)
        lines += ["VIOLATION property=%s replay=%s" % (PROP, path), "  class: " + cls, "  detail: " + detail[:3500]]
        exit_code = 1

    if exit_code == 0 and flaky:
        for f in flaky[:5]:
            print(f)
        vcheck.infra("engine-N failure(s) did not replay deterministically and no other failure did")
    wall = time.time() - t0
    if not args.no_evidence:
        ev = {
            "property_id": PROP, "tier": tier, "seed": seed, "level": "exploration",
            "coverage": {
                "evaluations": agg["cases"],
                "distinct_nontrivial": agg["cases"] - agg["rejected"],
                "rule": rule or "an evaluation is one generated test-case definition (stream type, 0-4/8 requests, 0-4/8 responses incl. more responses than requests and zero requests, headers/trailers with repeated names, mixed case and -bin values, error codes 1-16 with empty/UTF-8/percent-worthy messages and 0-3 details, payload bytes from empty to 64 KiB), drawn from its own tape, loaded on its own through parseTestSuites + newTestCaseLibrary (panic = violation, error = legal rejection) and then executed by the real runner against the real reference and gRPC peers for every permutation of its shard's config slice; distinct by construction (each case has its own seed); non-trivial = accepted by the loader and executed.",
                "samples": samples or [{"note": "no case generated"}],
                "cases_rejected_by_loader": agg["rejected"],
                "cases_crashing_the_loader": agg["load_panics"],
                "permutations_executed": agg["permutations"], "permutations_passed": agg["passed"], "permutations_failed": agg["failed"],
                "stream_types": streams,
                "simulated_seconds": round(agg["sim_seconds"], 2),
                "runs_per_hour": int(len(results) / max(wall - build_s, 1e-9) * 3600),
                "seeds_per_hour": int(agg["cases"] / max(wall - build_s, 1e-9) * 3600),
                "network": agg["net"],
                "faults_fired": {"segmentation (segments)": agg["net"].get("segments", 0), "small 1-8 byte segments": agg["net"].get("small_segments", 0), "per-segment latency": agg["net"].get("delayed_segments", 0)},
                "known_findings_seen": known_lines,
                "failures_not_reproducible_alone": collateral[:20],
                "environment_adaptations": N.ADAPTATIONS,
                "components_real": ["runner (Run, loader, expectation generator, assertion), reference client/server, grpc-go client/server peers, all protocol stacks"],
                "components_stubbed": ["kernel network (simnet)", "wall clock (synctest)", "OS processes (in-process peers)"],
                "honest_note": "the deciding variable is the generated input; simulation contributes the execution vehicle (whole system, deterministic verdicts, segmentation independence)",
            },
            "assumptions": ["fault-free network (only segmentation and sub-millisecond latency)", "a failing case is confirmed three times alone in fresh processes before it is reported, and its tape is minimised"] + list(extra_assumptions or []),
            "wall_s": round(wall, 2),
            "violations": len(reported),
        }
        ev["coverage"].update(extra_coverage or {})
        json.dump(ev, open(os.path.join(VERIF, "evidence", PROP + ".json"), "w"), indent=1)
    print(PROP + " tier=%s seed=%d shards=%d cases=%d rejected=%d load-panics=%d permutations=%d passed=%d failed=%d sim=%.1fs wall=%.1fs" % (
        tier, seed, len(results), agg["cases"], agg["rejected"], agg["load_panics"], agg["permutations"], agg["passed"], agg["failed"], agg["sim_seconds"], wall))
    for k in known:
        if known_lines.get(k["id"]):
            print("KNOWN-FINDING: property=%s %s (%s; seen %d time(s))" % (PROP, k["id"], k.get("description", ""), known_lines[k["id"]]))
    for line in lines:
        print(line)
    sys.stdout.flush()
    return exit_code


def main(args, cfg):
    return run_gen(args, "C02", "", (("server", "referenceserver"), ("client", "referenceclient")), None, None)
