"""Second part of check C17 (run by vcheck.py after the main part; reported under property C17): the raw body encoders used by concurrent connections."""

CHECK = {
    "report_as": "C17",
    "testpkg": "./internal",
    "instrument": [{"pkg": "./internal", "files": ["raw_http_body.go", "delimited.go"], "mode": "S", "instpkgs": ["connectrpc.com/conformance/internal/compression"]},
                   {"pkg": "./internal/compression", "files": [], "mode": "S"}],
    "sim": ["simrt", "simwork", "simio"],
    "harness": [("internal", "internal")],
    "scenarios": [{"name": "c17-encoders-concurrent", "share": 1.0}],
    "budget": {"quick": {"seconds": 8, "workers": 16}, "thorough": {"seconds": 300, "workers": 16}},
    "level": "exploration",
    "rule": "c17-encoders-concurrent: 2-3 tasks under the seeded scheduler each encode their own raw body with WriteRawMessageContents / WriteRawStreamContents (instrumented, together with internal/compression): unary contents or a stream of 1-3 items with flags 0-3, data of 0-300 bytes that names its task and item, uncompressed or gzip, into their own sink whose every Write is a scheduling point. Oracle: each sink holds exactly its own body as the specification prescribes (prefix = flags + big-endian length of the written payload, payload decodes to the specified data), nothing of another body, nothing missing. Distinct = hash of the step log.",
    "expect_probes": ["concurrent-encoders"],
    "real": ["internal/raw_http_body.go and internal/compression (GetCompressor, no-op and gzip compressors) - instrumented copies of the current tree"],
    "stubbed": ["the connections (one in-memory sink per task)", "goroutine scheduling (seeded scheduler)"],
    "assumptions": ["gzip payloads are checked by decoding them with compress/gzip"],
}
