CHECK = {"engine_n": True, "testpkg": "./internal/app/referenceserver", "harness": [("referenceserver", "internal/app/referenceserver")],
         "scenarios": [{"name": "smoke"}], "budget": {"quick": {"seconds": 5, "workers": 2}, "thorough": {"seconds": 5, "workers": 2}},
         "level": "exploration", "rule": "smoke", "real": [], "stubbed": [], "assumptions": []}
