#!/usr/bin/env python3
"""writes meta.json for seeded dirs that lack one (from the agent's meta and my confirm.log)"""
import json,os
ran="tools/confirm_seeded.sh in a scratch worktree of /repo HEAD: patch applies, go build ./... ok, demo passes without and fails with the patch, go test ./internal/... ./cmd/... passes with the patch (see confirm.log)"
for id in sorted(os.listdir('/verif/seeded')):
    d='/verif/seeded/'+id
    if not os.path.isdir(d) or os.path.exists(d+'/meta.json'): continue
    am={}
    try: am=json.load(open(d+'/agent_meta.json'))
    except Exception: pass
    json.dump({"id":id,"property":id.split('-')[0],"summary":am.get("summary"),"needs_to_manifest":am.get("needs_to_manifest"),
               "demo":"demo_test.go (drop into %s)"%am.get("demo_package_dir","?"),
               "confirmed_by_me":ran,"source":"independent sub-agent given only the property text"}, open(d+'/meta.json','w'), indent=1)
    print("meta", id)
