#!/bin/sh
# usage: tools/try_patch.sh <patch.diff> <property> [extra vcheck args]
# Applies the patch in a scratch worktree of /repo (never in /repo itself), runs the check
# against it (no evidence), removes the worktree. Prints "exit=<rc>".
patch="$1"; prop="$2"; shift 2
tag=$$
wt=/tmp/trywt-$tag
git -C /repo worktree add --detach -q $wt HEAD || exit 2
( cd $wt && { git apply --3way "$patch" 2>/dev/null || git apply "$patch"; } ) || { echo "patch does not apply"; git -C /repo worktree remove --force $wt; echo "exit=2"; exit 2; }
cd /verif && VERIF_REPO=$wt VERIF_WORK_SUFFIX=-try$tag ./vcheck "$prop" --no-evidence "$@"; rc=$?
git -C /repo worktree remove --force $wt
rm -rf /verif/work/*-try$tag /verif/work/*-try$tag-prep
echo "exit=$rc"
