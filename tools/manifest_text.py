NOT_APPLICABLE = {
    "C03": "pure function of (expected, actual) evaluated on one goroutine: no schedule, clock, I/O fault or second party for a simulator to control (DESIGN.md sect. 5)",
    "C06": "parseConfig is a pure function of the Config message; nothing to simulate (DESIGN.md sect. 5)",
    "C07": "suite expansion is a pure function of suites x config cases x mode; its only nondeterminism is map order, which cannot change a set (DESIGN.md sect. 5)",
    "C08": "trie matching and pattern collection are pure functions; no fault the property speaks of (DESIGN.md sect. 5)",
    "C13": "wire examiners are pure functions of a byte string (DESIGN.md sect. 5)",
    "C18": "conversion helpers obey pure round-trip laws; no concurrency, time or I/O (DESIGN.md sect. 5)",
}
# designed in DESIGN.md sect. 4 but the check is not built yet; moved out of here as each check lands
PENDING = {
    "C01": "check designed (DESIGN.md sect. 4, engine N) but not built yet; not claimed until it runs",
    "C02": "check designed (DESIGN.md sect. 4, engine N) but not built yet; not claimed until it runs",
    "C04": "check designed (DESIGN.md sect. 4, engine S) but not built yet; not claimed until it runs",
    "C05": "check designed (DESIGN.md sect. 4, engine S) but not built yet; not claimed until it runs",
    "C09": "check designed (DESIGN.md sect. 4, engine S) but not built yet; not claimed until it runs",
    "C11": "check designed (DESIGN.md sect. 4, engine S) but not built yet; not claimed until it runs",
    "C12": "check designed (DESIGN.md sect. 4, engine N) but not built yet; not claimed until it runs",
    "C14": "check designed (DESIGN.md sect. 4, engine S) but not built yet; not claimed until it runs",
    "C15": "check designed (DESIGN.md sect. 4, engine S) but not built yet; not claimed until it runs",
    "C16": "check designed (DESIGN.md sect. 4, engine S) but not built yet; not claimed until it runs",
    "C17": "check designed (DESIGN.md sect. 4, engine N) but not built yet; not claimed until it runs",
    "C19": "check designed (DESIGN.md sect. 4, engine N) but not built yet; not claimed until it runs",
    "C20": "check designed (DESIGN.md sect. 4, engine S) but not built yet; not claimed until it runs",
}
TEXT = {
    "C19": {
        "engine": "N",
        "design_ref": "DESIGN.md sect. 4 (C19), sect. 3.6, 3.7",
        "technique": "deterministic simulation of the whole system (as C02) driven by seeded generated size-limit cases: padding clause decided at load time against an independent size/reachability formula, sharpness of the limit decided by executing the case through the real runner, reference client and reference server over the simulated network (any segmentation) under the shard's protocol, HTTP version and compression",
        "level_text": "Seeded generation of expand directives (delta in a window around 0, at the varint boundaries of the padding length, around the template's own size and at total size -1/0/1) for unary, client-stream and half-duplex bidi requests with different initial padding. Load phase: rejected exactly when unreachable, never a crash, exact size and nothing but the padding changed. Run phase: delta <= 0 accepted with the request echoed intact by the receiving server, delta >= 1 rejected with resource_exhausted, under every compression of the shard (limit measured on the uncompressed size). Evidence, not proof; the deciding variable is the generated input.",
        "level_note": "Second part (scenario c19-clientlimit, config C19L, same command): the real reference client and reference server in one bubble driven over pipes the way the runner drives them; the uncompressed size of every response message is measured with an unlimited call and the call is repeated with receive limits S-2..S+1, 1, 2S and far above, several limits handed to one client process at once, under all 3 protocols, HTTP/1.1 and h2c, 6 compressions, unary and server streams; accepted iff no message is over the limit, else resource_exhausted. One known finding (connect-go also applies the limit to the compressed size when compression expands a message) is listed in known_findings.json with a specific signature. Trusted: the reachability formula (tag + varint + payload) of the independent model; proto.Size as the measure of the uncompressed message.",
    },
    "C02": {
        "engine": "N",
        "design_ref": "DESIGN.md sect. 4 (C02), sect. 3.6, 3.7",
        "technique": "deterministic simulation of the whole system (as C01) driven by seeded generated test-case definitions, each from its own choice tape: loaded on its own through the real loader (panic = violation, error = legal rejection), executed by the real runner against the real reference and gRPC peers over the simulated network and fake clock; failing cases confirmed three times alone, tape-minimised across fresh processes, replayable from the replay file",
        "level_text": "Seeded generation over the deterministic fragment of the suite schema (all five stream types, 0-4/8 requests and responses incl. more responses than requests and zero requests, headers/trailers with repeated values, mixed case and -bin values, 16 error codes with empty/UTF-8/percent-worthy messages and 0-3 details, payloads from empty to 64 KiB) x config slices rotating HTTP version, protocol, codec, compression and TLS, in server mode and client mode so that reference client, reference server and both gRPC peers are exercised. Oracle: the runner's verdict is pass for every generated permutation; loading never panics; every run reaches its verdict within 6 simulated hours (a run that does not is reported as class hang, with the goroutines stuck in a panic or in the runner). Evidence, not proof; the deciding variable is the generated input, the simulator is the deterministic execution vehicle.",
        "level_note": "Three known findings are listed in known_findings.json (zero-request streams against the grpc-go server; request info of a full-duplex error without responses; trailing blank of an error message lost under gRPC) with input-specific signatures; every other failure is reported. Header lists use one entry per name (as the corpus does).",
    },
    "C01": {
        "engine": "N",
        "design_ref": "DESIGN.md sect. 4 (C01), sect. 3.6, 3.7",
        "technique": "deterministic simulation of the whole system: the real runner and the real reference/gRPC peers with their protocol stacks run in one process per shard over a simulated network (seeded segmentation and latency) and the testing/synctest fake clock; oracle = runner verdict, exact totals, known-failing lists; failures replayed per permutation three times",
        "level_text": "The finite space of the property is executed: quick = every embedded suite x every (HTTP version, protocol) shard with one codec and identity + one compression rotated by the seed (about 6k permutations of the five Go-peer runs); thorough = all permutations of the five runs (12,998 server-mode + 16,580 client-mode + the three gRPC-peer runs) at two network perturbation levels, with a dry expansion proving that the shards partition each run. Timing-directed cases decide their verdict by simulated time, so the check cannot flake under load. Oracle: Run returns (true, nil) within 6 simulated hours (else class hang), zero failed, zero could-not-run, every known-failing pattern of the gRPC peers matched and failing, reference lists empty.",
        "level_note": "Simulated environment, real Go scheduler inside third-party stacks (GOMAXPROCS=1): replay is exact at the level of the verdict, not of a global event log. Four environment adaptations (listed in the evidence file) change how goroutines wait / read the clock, never what the code computes. The Node gRPC-Web client run is excluded (not runnable offline).",
    },
    "C16": {
        "engine": "S",
        "design_ref": "DESIGN.md sect. 4 (C16)",
        "technique": "deterministic simulation: Tracer slot operations and builder events issued by concurrent tasks under the seeded scheduler and fake clock; refinement against a sequential slot model replayed in the recorded linearization order (the scheduler step at which each operation's critical section ran), plus exactly-once/immutability/ordering oracle for traced HTTP operations with seeded cancellation and faults; shrinking + exact replay",
        "level_text": "Seeded exploration of interleavings: (A) Init/Complete/Await/Clear from 2-5 tasks on up to 3 names with fake-clock deadlines; because the simulator serialises critical sections and records at which step each ran, the sequential model (absent / pending(generation) / done(generation, trace)) is replayed in exactly the order the implementation took, and every returned trace, immediate failure, timeout instant and 'never outlives its context' is checked; (B) request body, response body or transport error, application close and context cancellation from concurrent tasks: exactly one delivery for a named operation, none for an unnamed one, no event after the finishing event, delivered events immutable, consecutive message indexes. Evidence, not proof.",
        "level_note": "Deviation from DESIGN.md: porcupine is not needed, since the linearization order is observed rather than searched. The data-race clause of the statement is not decided by this check (serialised execution hides races by construction); see DESIGN.md. Second part (scenario c16-fetch, config C16F, same command, own test binary): the runner's consumer side - results.go fetchTrace waiters (Await with a TraceTimeout context, Clear) against producer tasks completing traces before the outcome, racing it, just inside / outside the timeout, never, or twice; the printed report must show exactly the first trace completed inside the timeout, none otherwise, report() returns within last outcome + TraceTimeout, and every slot is cleared afterwards. Third part (scenario c16-wire, config C16W, same command, reference client test binary): the reference client's own hand-off through the call context (wire_details.go: withWireCapture / setWireTrace / examineWireDetails) with a live, cancelled or expired call context and a trace completed before, 0..1.5 s after the examination began or never: obtained exactly when completed inside the one-second grace period, the wait never outlives it.",
    },
    "C14": {
        "engine": "S",
        "design_ref": "DESIGN.md sect. 4 (C14), sect. 3.4",
        "technique": "deterministic simulation with fault injection on simulated body streams: seeded envelope sequences through TracingRoundTripper/TracingHandler with scripted inner transport/handler, seeded partition of every Read/Write, cut at any byte, EOF/eof-with-data/I-O error/early Close/failing short Write; oracle = reference parser of (bytes, cut point) for the event list + elementwise transparency comparison; shrinking + exact replay",
        "level_text": "Seeded exploration of envelope sequences x partitions x truncation points for request and response bodies on client and server side of the current tree: the reference parser predicts every data event (flags, declared length, index), the end-stream content (decompressed exactly when the compressed flag is set), the partial event of a cut body and the single body-end event with its error; the bytes, counts and errors seen by the application are compared elementwise with those of the inner stream, headers and trailers must be untouched. Since every partition is compared with the partition-independent model, split-independence follows. Evidence, not proof.",
        "level_note": "Trusted: simio streams, the repository's compressors for producing expected plaintext (C20's subject). No concurrency in this property's code path apart from the cancel goroutine (C16's subject); no scheduler is attached in this scenario.",
    },
    "C09": {
        "engine": "S",
        "design_ref": "DESIGN.md sect. 4 (C09), sect. 3.4",
        "technique": "deterministic simulation with fault injection: instrumented ReadDelimitedMessage (reader goroutine + timeout select) under the seeded scheduler and fake clock over a simulated stream (seeded chunking, arrival gaps incl. exactly-at-timeout, cut at any byte, EOF/eof-with-data/I/O error/stall, io.Pipe-like zero-length reads); oracle = reference model of the frame sequence predicting result, error class, return instant and timeout progress text; codecs checked under seeded chunking and cuts; shrinking + exact replay",
        "level_text": "Seeded exploration of message sequences x byte-stream partitions x truncation points x oversize prefixes x stall points on the current tree: the reference model walks the frames with the stream's own arrival times, so every returned message, EOF vs unexpected-EOF, oversize rejection (no further read, no allocation), timeout instant (exact on the fake clock) and the 'read k/n bytes' figures are checked on every run; binary and JSON stream codecs are checked for round trip (into fresh targets and into one reused target) and truncation reporting. Evidence, not proof.",
        "level_note": "Trusted: simrt/simio, synctest clock. Boundary (data arrives exactly at the timeout instant): either outcome accepted. JSON messages are objects (as all protocol messages are). Second part (scenario c09-clientloop, config C09R, same command, own test binary): the real reference client request loop (run(): one stream decoder over stdin, a goroutine per request, encoder over stdout; binary and --json) reading 0-5 requests from a simulated stdin under seeded segmentation, reads that span several messages or are 1-8 bytes long, cuts at any byte and I/O errors; every completely delivered request must be answered exactly once, nothing else, and a truncated stream must be told from a clean end.",
    },
    "C04": {
        "engine": "S",
        "design_ref": "DESIGN.md sect. 4 (C04), sect. 3.1-3.5",
        "technique": "deterministic simulation with fault injection: connectconformance.Run driven inside the simulator with scripted peers in every process slot; seeded case fates x markings x feedback x process fates x schedules; oracle = independent truth-table reference model of the success rule compared with Run's boolean, plus output laws; shrinking + exact tape replay",
        "level_text": "Seeded exploration of histories: each run executes Run() itself on the current tree (config and suite files, patterns, run(), batches, report) against scripted client/server processes whose per-case fates (pass, assertion failure, client error, neither, never answered), markings, reference-peer feedback and process fates (clean early exit, non-zero exit, stall, cut output, server start failure/garbage/never/death mid-batch) come from the tape; success is compared with a reference model of the statement (iff, with runs whose delivery is undetermined counted as inconclusive), every unmet case must be named, totals must add up. Evidence, not proof.",
        "level_note": "Trusted: simrt scheduler/instrumenter (checked at run time), synctest clock, io.Pipe, the library's own expansion for the selected set (C07/C08 assumed). OS processes stubbed by in-process peers through runInProcess. Second scenario c04-printer: concurrent tasks printing feedback lines through internal.NewPrinter must reach the sink as whole lines. A run that Run() rejects because of 'unmatched' patterns is judged too: a rejected pattern must not be the only pattern of its list that matches some permutation (independent glob matcher).",
    },
    "C05": {
        "engine": "S",
        "design_ref": "DESIGN.md sect. 4 (C05), sect. 3.1-3.5",
        "technique": "deterministic simulation: Run() with recording scripted peers under a seeded scheduler (batch interleavings, seeded server-instance order, --max-servers 1-4, latencies, peer faults); invariant after every step (running servers <= max-servers) and history oracle (exactly-once hand-over, matching live server, address/cert/test-name header, gRPC markers to gRPC slots, every peer stopped, termination); shrinking + exact tape replay",
        "level_text": "Seeded exploration of configurations x schedules: generated configs (HTTP/1.1, HTTP/2, Connect/gRPC/gRPC-Web, proto/json, optional TLS) and suites, --run/--skip patterns, reference or under-test slots (gRPC-peer permutations and marked names), max-servers 1-4; the scripted peers record every ServerCompatRequest and ClientCompatRequest with the scheduler step; each selected permutation must reach a client exactly once (at most once under peer faults), addressed to a server started for exactly its instance and still up, never exceeding max-servers, every peer stopped, Run terminating. Evidence, not proof.",
        "level_note": "Trusted: as C04; the selected set comes from the library (C07/C08 assumed). cmdProcess (real OS processes, SIGTERM/WaitDelay) is outside the simulator: 'alive' is judged on scripted in-process servers that have not yet been asked to stop.",
    },
    "C11": {
        "engine": "S",
        "design_ref": "DESIGN.md sect. 4 (C11), sect. 3.1-3.5",
        "technique": "deterministic simulation with fault injection: seeded schedules of the instrumented batch runner + real client multiplexer against scripted faulty server and client processes under a fake clock; invariant checked after every scheduler step (an outcome is never replaced) plus end-of-run oracle (one outcome per case, verdict classes, server stopped, stderr attribution); shrinking + exact tape replay",
        "level_text": "Seeded exploration of server fault points x client fault points x schedules for runTestCasesForServer on the current tree: start error, server exits before its request, response truncated at any byte/oversize/empty/garbage/never/without certificate, death after k of n requests, stderr side-band and ordinary lines, combined with client cut/garbage/unknown/early exit/stall/missing answers; bounded-time return, exactly the batch's outcomes, never a pass for an unanswered case, own verdict for answered cases, server context cancelled, side-band attribution, and the content of every request handed to the client (server address, client credentials, test-name header - also among the headers of raw requests, with and without headers of their own) are checked on every run. Evidence, not proof.",
        "level_note": "Trusted: simrt scheduler and instrumenter (completeness checked at run time), synctest fake clock, io.Pipe; processes are killable in-process stubs; 'ends with' is read at quiescence of the client (DESIGN.md C11).",
    },
    "C10": {
        "engine": "S",
        "design_ref": "DESIGN.md sect. 4 (C10), sect. 3.1-3.5",
        "technique": "deterministic simulation with fault injection: seeded schedule search over instrumented runClient/clientProcessRunner tasks against a scripted faulty client process under a fake clock; oracle = exactly-once/attribution/refusal/liveness reference rules over the recorded history; shrinking + exact tape replay",
        "level_text": "Seeded exploration of schedules x client fault points: every run executes the real multiplexer (current tree, instrumented) with 1-3 concurrent senders against a scripted client whose answer order, latencies, stream fault (cut at any byte, duplicate, unknown, empty-name, premature, oversize, garbage) and process fate (early exit 0/non-0, stops reading, ignores EOF, kill delay) come from one tape; exactly-once, attribution, refusal-after-end, the liveness flag (after the process has gone, and already inside the callback that reports a fatal output failure) and bounded-time return are checked on every run. A clean batch is evidence, not proof.",
        "level_note": "Trusted: the simulator (simrt scheduler, instrumenter completeness as checked at run time), testing/synctest's fake clock, io.Pipe; OS processes/signals are stubbed by killable in-process peers. The schedule space is sampled, not enumerated.",
    },
}


# manifest texts contributed as separate files: tools/manifest_extra_<ID>.py defines TEXT_ENTRY = {...}
import glob as _glob, os as _os
for _f in sorted(_glob.glob(_os.path.join(_os.path.dirname(_os.path.abspath(__file__)), "manifest_extra_*.py"))):
    _ns = {}
    exec(open(_f).read(), _ns)
    TEXT[_os.path.basename(_f)[len("manifest_extra_"):-3]] = _ns["TEXT_ENTRY"]
