#!/usr/bin/env python3
"""usage: confirm_wave.py <agent worktree> <PROP> <first new index>
Confirms each MUTATION/N of a sub-agent's worktree with confirm_seeded.sh and files it as seeded/<PROP>-<index>."""
import json, os, re, subprocess, sys
wt, prop, first = sys.argv[1], sys.argv[2], int(sys.argv[3])
for n in (1, 2, 3):
    src = os.path.join(wt, "MUTATION", str(n))
    if not os.path.isfile(os.path.join(src, "patch.diff")):
        continue
    sid = "%s-%d" % (prop, first + n - 1)
    meta = {}
    try:
        meta = json.load(open(os.path.join(src, "meta.json")))
    except Exception as e:  # noqa: BLE001
        print(sid, "meta unreadable", e)
    pkg = (meta.get("demo_package_dir") or "").strip()
    pkg = re.sub(r"^.*?(internal|cmd)/", r"\1/", pkg) if ("internal" in pkg or "cmd" in pkg) else pkg
    pkg = pkg.strip("./").rstrip("/")
    if pkg in ("internal", "cmd") or pkg.startswith("internal/") or pkg.startswith("cmd/"):
        pass
    else:
        print(sid, "cannot tell demo package from", meta.get("demo_package_dir"))
        continue
    demos = [f for f in os.listdir(src) if f.endswith("_test.go")]
    if not demos:
        print(sid, "no demo test")
        continue
    names = re.findall(r"^func (Test\w+)\(", open(os.path.join(src, demos[0])).read(), re.M)
    rx = "^(" + "|".join(names) + ")$"
    p = subprocess.run(["/verif/tools/confirm_seeded.sh", src, sid, prop, pkg, rx], stdout=subprocess.PIPE, stderr=subprocess.STDOUT, text=True)
    print(p.stdout.strip().splitlines()[-1] if p.stdout.strip() else sid + " no output")
