import json, jsonschema, sys, glob
m=json.load(open('/verif/MANIFEST.json')); s=json.load(open('/root/.vp/MANIFEST.schema.json'))
jsonschema.validate(m,s); print("manifest valid")
es=json.load(open('/root/.vp/EVIDENCE.schema.json'))
for p in sorted(glob.glob('/verif/evidence/*.json')):
    jsonschema.validate(json.load(open(p)),es); print("evidence valid", p)
