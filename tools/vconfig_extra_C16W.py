"""Third part of check C16 (run by vcheck.py after the other parts; reported under property C16): the reference client's own trace hand-off (wire_details.go)."""

CHECK = {
    "engine_n": True,
    "sim": ["simio"],
    "report_as": "C16",
    "testpkg": "./internal/app/referenceclient",
    "harness": [("referenceclient", "internal/app/referenceclient")],
    "scenarios": [{"name": "c16-wire", "share": 1.0}],
    "budget": {"quick": {"seconds": 6, "workers": 16}, "thorough": {"seconds": 120, "workers": 16}},
    "level": "exploration",
    "rule": "c16-wire: one run = the reference client's hand-off of a completed trace through the call context (wire_details.go: withWireCapture, setWireTrace, examineWireDetails) inside a synctest bubble: the call context is live, cancelled, past its deadline or has a cancelled parent (the state a call that ended with a context error leaves behind); the trace (with a response of status 200/404/503, or without response) is completed before the examination begins, 0 .. 1.5 s after it (producer goroutine on the fake clock) or never. Oracle: a trace completed before the examination or clearly inside the one-second grace period is obtained (status code returned, no complaint printed, the examination returns at the instant of completion) whatever the state of the call context; one completed clearly outside or never is not obtained, the examination says so and returns after exactly the grace period. Completions within 20 ms of the end of the grace period are left open. Distinct = hash of the generated case (the case space is small: 4 x 12 x 3 x 2).",
    "expect_probes": ["trace-completed-before-wait-began", "trace-completed-after-wait-began", "trace-completed-outside-grace-period-or-never"],
    "real": ["internal/app/referenceclient/wire_details.go: withWireCapture, setWireTrace, examineWireDetails - current tree"],
    "stubbed": ["the producer of the trace (a goroutine calling setWireTrace)", "wall clock (synctest fake clock)"],
    "assumptions": ["goroutine interleaving is the Go scheduler's; the verdict depends on fake-clock instants only"],
}
