"""C19: size-limit requests are padded to exactly limit+delta and the limit is sharp (engine N)."""
import vcheck_c02 as G

RULE = ("an evaluation is one generated size-limit test case (unary, client stream or half-duplex bidi; 1-3 request messages with different initial padding; per message an "
        "expand directive with delta in {0,-1,-2,-3,+1,+2,+3,+10,-10}, at the varint boundaries of the padding length (127/128/129, 16383/16384/16385), around the template's own size "
        "and at total size -1/0/1), drawn from its own tape. Load phase (real parseTestSuites): the case must be rejected with an error exactly when the size is unreachable (decided by an "
        "independent size formula), never crash, and an accepted case must have every expanded request at exactly limit+delta with nothing but the padding field changed. Run phase: the "
        "real runner + reference client (server mode: reference server as the peer under test; client mode: reference client under test against the reference server in reference mode, whose interceptors are then active) send the case to the real reference server over the simulated network under the shard's protocol/HTTP version/compression: delta <= 0 must be "
        "accepted (the server echoes the request it received, which the runner compares), delta >= 1 must be rejected with resource_exhausted. Distinct by construction; non-trivial = accepted by the loader and executed.")


def main(args, cfg):
    return G.run_gen(args, "C19", "size", (("server", "referenceserver"), ("client", "referenceclient")), RULE,
                     ["the mirrored clause for the reference client's receive limit is only covered by the embedded client_message_size suite inside C01 (the repository itself notes that response sizes cannot be set exactly)"])
