"""C19: size-limit requests are padded to exactly limit+delta and the limit is sharp (engine N)."""
import json
import os
import subprocess
import sys

import vcheck
import vcheck_c02 as G

RULE = ("an evaluation is one generated size-limit test case (unary, client stream or half-duplex bidi; 1-3 request messages with different initial padding; per message an "
        "expand directive with delta in {0,-1,-2,-3,+1,+2,+3,+10,-10}, at the varint boundaries of the padding length (127/128/129, 16383/16384/16385), around the template's own size "
        "and at total size -1/0/1), drawn from its own tape. Load phase (real parseTestSuites): the case must be rejected with an error exactly when the size is unreachable (decided by an "
        "independent size formula), never crash, and an accepted case must have every expanded request at exactly limit+delta with nothing but the padding field changed. Run phase: the "
        "real runner + reference client (server mode: reference server as the peer under test; client mode: reference client under test against the reference server in reference mode, whose interceptors are then active) send the case to the real reference server over the simulated network under the shard's protocol/HTTP version/compression: delta <= 0 must be "
        "accepted (the server echoes the request it received, which the runner compares), delta >= 1 must be rejected with resource_exhausted. Distinct by construction; non-trivial = accepted by the loader and executed.")


def main(args, cfg):
    """Two parts: (1) generated size-limit suites through the whole system (run_gen), (2) the reference client's
    receive limit driven directly (standard worker flow, config C19L, reported as C19)."""
    here = os.path.dirname(os.path.abspath(__file__))
    part2 = [sys.executable, os.path.join(here, "vcheck.py"), "C19L"]
    if args.replay:
        try:
            scen = json.load(open(args.replay)).get("scenario", "")
        except Exception:  # noqa: BLE001
            scen = ""
        if scen == "c19-clientlimit":
            return subprocess.call(part2 + ["--replay", args.replay])
        return run_part1(args, None)
    cmd = part2 + ["--tier", args.tier]
    if args.seed is not None:
        cmd += ["--seed", str(args.seed)]
    if args.seconds is not None:
        cmd += ["--seconds", str(args.seconds)]
    if args.workers is not None:
        cmd += ["--workers", str(args.workers)]
    if args.no_evidence:
        cmd += ["--no-evidence"]
    rc2 = subprocess.call(cmd)
    sys.stdout.flush()
    extra = None
    if not args.no_evidence:
        part = os.path.join(G.VERIF, "work", "C19L" + os.environ.get("VERIF_WORK_SUFFIX", ""), "evidence_part.json")
        try:
            pe = json.load(open(part))
            extra = {"client_receive_limit_part": {"evaluations": pe["coverage"]["evaluations"], "rule": pe["coverage"]["rule"], "probes": pe["coverage"]["probes"],
                                                   "faults_fired": pe["coverage"]["faults_fired"], "simulated_seconds": pe["coverage"]["simulated_seconds"],
                                                   "runs_per_hour": pe["coverage"]["runs_per_hour"], "abstract_cover_count": pe["coverage"]["abstract_cover_count"],
                                                   "known_findings_seen": pe["coverage"]["known_findings_seen"], "samples": pe["coverage"]["samples"][:2],
                                                   "components_real": pe["coverage"]["components_real"], "components_stubbed": pe["coverage"]["components_stubbed"],
                                                   "assumptions": pe["assumptions"], "violations": pe["violations"]}}
        except Exception as e:  # noqa: BLE001
            if rc2 == 0:
                vcheck.infra("client-limit part left no evidence: %s" % e)
    rc1 = run_part1(args, extra)
    if 2 in (rc1, rc2) and 1 not in (rc1, rc2):
        return 2
    return max(rc1, rc2)


def run_part1(args, extra):
    return G.run_gen(args, "C19", "size", (("server", "referenceserver"), ("client", "referenceclient")), RULE,
                     ["the reference client's receive limit is decided by the second part (coverage.client_receive_limit_part): real reference client and server driven directly, limits around the measured response sizes"],
                     extra_coverage=extra)
