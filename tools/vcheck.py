#!/usr/bin/env python3
"""vcheck - check driver for the deterministic-simulation checks (DESIGN.md sect. 3.1, 8).

usage: vcheck <property-id> [--tier quick|thorough] [--replay FILE] [--seed N]
              [--workers N] [--seconds S] [--runs N] [--determinism K] [--keep]

exit 0: property held on everything explored (known findings are printed as KNOWN-FINDING lines)
exit 1: a violation was found and its replay file reproduces it (VIOLATION line on stdout)
exit 2: infrastructure trouble (build, instrumentation, frozen simulation, non-replaying violation)
"""
import argparse
import hashlib
import json
import os
import shutil
import subprocess
import sys
import time

VERIF = os.path.dirname(os.path.dirname(os.path.abspath(__file__)))
REPO = os.environ.get("VERIF_REPO", "/repo")
GO = os.environ.get("VERIF_GO", "go1.26.8")
MODPATH = "connectrpc.com/conformance"

sys.path.insert(0, os.path.join(VERIF, "tools"))
from vconfig import CHECKS  # noqa: E402


def env():
    e = dict(os.environ)
    e.update({
        "GOFLAGS": "-mod=mod", "GOPROXY": "off", "GOSUMDB": "off", "GOTOOLCHAIN": "local",
        "GONOSUMDB": "*", "GONOSUMCHECK": "1", "GOFLAGS_EXTRA": "",
    })
    return e


def infra(msg):
    print("INFRA-ERROR: " + msg, flush=True)
    sys.exit(2)


def run(cmd, cwd=None, extra_env=None, timeout=None, capture=True):
    e = env()
    if extra_env:
        e.update(extra_env)
    p = subprocess.run(cmd, cwd=cwd, env=e, stdout=subprocess.PIPE if capture else None,
                       stderr=subprocess.STDOUT if capture else None, timeout=timeout, text=True)
    return p.returncode, (p.stdout or "")


def build(cfg, work):
    """Instrument /repo's current tree, assemble the overlay, build the test binary."""
    t0 = time.time()
    if cfg.get("engine_n"):
        # whole-system environment (DESIGN.md sect. 3.6/3.7): mode-N instrumentation of the peers, simulated
        # network, patched quic-go copy and net/http overlay; the check's own harness and test package are kept
        import vcheck_n
        ncfg = vcheck_n.n_config(work + "-prep")
        merged = dict(ncfg)
        merged.update({k: v for k, v in cfg.items() if k not in ("instrument", "sim", "harness")})
        merged["sim"] = sorted(set(ncfg["sim"]) | set(cfg.get("sim", [])) | {"simwork", "simrt"})
        merged["harness"] = cfg.get("harness", [])
        merged["instrument"] = ncfg["instrument"] + cfg.get("instrument", [])
        cfg = merged
    shutil.rmtree(work, ignore_errors=True)
    os.makedirs(work)
    replace = {}
    inst_log = []
    for spec in cfg.get("instrument", []):
        cmd = [os.path.join(VERIF, "bin", "verif-instrument"), "-repo", REPO, "-out", os.path.join(work, "src"),
               "-mode", spec.get("mode", "S"), "-pkg", spec["pkg"]]
        if spec.get("files"):
            cmd += ["-files", ",".join(spec["files"])]
        if spec.get("instpkgs"):
            cmd += ["-instpkgs", ",".join(spec["instpkgs"])]
        if spec.get("redirect"):
            cmd += ["-redirect", ",".join(spec["redirect"])]
        if spec.get("textpatches"):
            cmd += ["-textpatches", spec["textpatches"]]
        e = env()
        p = subprocess.run(cmd, env=e, stdout=subprocess.PIPE, stderr=subprocess.PIPE, text=True)
        inst_log.append(p.stderr)
        if p.returncode != 0:
            infra("instrumentation failed for %s:\n%s" % (spec["pkg"], p.stderr))
        for line in p.stdout.splitlines():
            src, dst = line.split("\t")
            replace[src] = os.path.abspath(dst)
    # simulator packages
    for name in cfg.get("sim", ["simrt", "simwork"]):
        d = os.path.join(VERIF, "sim", name)
        for f in sorted(os.listdir(d)):
            if f.endswith(".go"):
                replace[os.path.join(REPO, "internal", "verifsim", name, f)] = os.path.join(d, f)
    # harness files
    for hdir, pkgdir in cfg.get("harness", []):
        d = os.path.join(VERIF, "harness", hdir)
        for f in sorted(os.listdir(d)):
            if f.endswith(".go"):
                replace[os.path.join(REPO, pkgdir, f)] = os.path.join(d, f)
    # GOROOT / extra overlays
    for src, dst in cfg.get("extra_overlay", {}).items():
        replace[src] = dst
    with open(os.path.join(work, "overlay.json"), "w") as f:
        json.dump({"Replace": replace}, f, indent=1)
    # alternate go.mod: /repo's current one plus what the harness needs
    shutil.copy(os.path.join(REPO, "go.mod"), os.path.join(work, "go.mod"))
    shutil.copy(os.path.join(REPO, "go.sum"), os.path.join(work, "go.sum"))
    extra = cfg.get("require", [])
    if extra:
        with open(os.path.join(work, "go.mod"), "a") as f:
            f.write("\nrequire (\n")
            for r in extra:
                f.write("\t%s\n" % r)
            f.write(")\n")
        with open(os.path.join(work, "go.sum"), "a") as f:
            for extra_sum in cfg.get("gosum", []):
                f.write(extra_sum + "\n")
    for line in cfg.get("modlines", []):
        with open(os.path.join(work, "go.mod"), "a") as f:
            f.write(line + "\n")
    binp = os.path.join(work, "verif.test")
    cmd = [GO, "test", "-c", "-tags", "verif", "-vet=off", "-overlay", os.path.join(work, "overlay.json"),
           "-modfile", os.path.join(work, "go.mod"), "-o", binp]
    if cfg.get("race"):
        cmd.append("-race")
    cmd.append(cfg["testpkg"])
    rc, out = run(cmd, cwd=REPO, timeout=1800)
    if rc != 0 or not os.path.exists(binp):
        infra("build failed:\n" + out + "\n" + "\n".join(inst_log))
    return binp, time.time() - t0, "\n".join(inst_log)


def load_known(prop):
    path = os.path.join(VERIF, "known_findings.json")
    if not os.path.exists(path):
        return []
    with open(path) as f:
        data = json.load(f)
    return [k for k in data.get("findings", []) if k.get("property") == prop and k.get("status") == "known"]


def spawn_worker(binp, job, work, idx, gomaxprocs=1):
    out = os.path.join(work, "out-%d.json" % idx)
    job = dict(job)
    job["out"] = out
    job["worker"] = idx
    e = env()
    e["VERIF_JOB"] = json.dumps(job)
    e["GOMAXPROCS"] = str(gomaxprocs)
    e["GODEBUG"] = "asyncpreemptoff=1"
    log = open(os.path.join(work, "worker-%d.log" % idx), "w")
    p = subprocess.Popen([binp, "-test.run", "^TestVerif$", "-test.timeout", "0", "-test.count", "1"],
                         cwd=work, env=e, stdout=log, stderr=subprocess.STDOUT)
    return p, out, log


def run_workers(binp, job, work, nworkers, gomaxprocs=1, wall_limit=None, first_idx=0):
    procs = [spawn_worker(binp, job, work, first_idx + i, gomaxprocs) for i in range(nworkers)]
    outs = []
    t0 = time.time()
    for i, (p, out, log) in enumerate(procs):
        try:
            left = None if wall_limit is None else max(5, wall_limit - (time.time() - t0))
            rc = p.wait(timeout=left)
        except subprocess.TimeoutExpired:
            p.kill()
            rc = -9
        log.close()
        data = None
        if os.path.exists(out):
            try:
                with open(out) as f:
                    data = json.load(f)
            except Exception:  # noqa: BLE001
                data = None
        outs.append({"rc": rc, "data": data, "log": os.path.join(work, "worker-%d.log" % i), "out": out})
    return outs


def replay_once(binp, cfg, work, path, tag="replay"):
    job = {"property": cfg["id"], "scenario": None, "replay": os.path.abspath(path), "tier": "quick"}
    with open(path) as f:
        rf = json.load(f)
    job["scenario"] = rf["scenario"]
    job["tier"] = rf.get("tier", "quick")
    job["known"] = [{"id": k["id"], "class": k["class"], "detail": k.get("detail", "")} for k in load_known(cfg.get("report_as", cfg["id"]))]
    job["params"] = rf.get("params") or {}
    rwork = os.path.join(work, tag)
    os.makedirs(rwork, exist_ok=True)
    outs = run_workers(binp, job, rwork, 1, wall_limit=600)
    o = outs[0]
    return o, rf


def main():
    ap = argparse.ArgumentParser()
    ap.add_argument("prop")
    ap.add_argument("--tier", default=os.environ.get("VERIF_TIER", "quick"))
    ap.add_argument("--replay")
    ap.add_argument("--seed", type=int, default=None)
    ap.add_argument("--workers", type=int, default=None)
    ap.add_argument("--seconds", type=int, default=None)
    ap.add_argument("--runs", type=int, default=None)
    ap.add_argument("--determinism", type=int, default=0, help="self-test: run K seeds per worker in several processes and compare logs")
    ap.add_argument("--no-evidence", action="store_true")
    args = ap.parse_args()
    if args.prop not in CHECKS:
        infra("unknown property " + args.prop)
    cfg = dict(CHECKS[args.prop])
    cfg["id"] = args.prop
    if cfg.get("external"):
        # checks with their own driver (engine N)
        mod = __import__(cfg["external"])
        sys.exit(mod.main(args, cfg))
    seed = args.seed
    if seed is None:
        seed = int(os.environ.get("VERIF_SEED", "1") or "1")
    tier = args.tier if args.tier in ("quick", "thorough") else "quick"
    work = os.path.join(VERIF, "work", args.prop + os.environ.get("VERIF_WORK_SUFFIX", ""))
    # further parts of this property's check that need another test binary (own config, reported under this id)
    part_rcs, part_cov = [], {}
    if args.replay and cfg.get("extra_parts"):
        try:
            scen = json.load(open(args.replay)).get("scenario", "")
        except Exception:  # noqa: BLE001
            scen = ""
        for part in cfg["extra_parts"]:
            if scen in [sc["name"] for sc in CHECKS[part]["scenarios"]]:
                sys.exit(subprocess.call([sys.executable, os.path.abspath(__file__), part, "--replay", args.replay]))
    if cfg.get("extra_parts") and not args.replay and not args.determinism:
        for part in cfg["extra_parts"]:
            cmd = [sys.executable, os.path.abspath(__file__), part, "--tier", tier, "--seed", str(seed)]
            if args.seconds is not None:
                cmd += ["--seconds", str(max(5, args.seconds // 2))]
            if args.workers is not None:
                cmd += ["--workers", str(args.workers)]
            if args.no_evidence:
                cmd += ["--no-evidence"]
            rc = subprocess.call(cmd)
            sys.stdout.flush()
            part_rcs.append(rc)
            if not args.no_evidence:
                pp = os.path.join(VERIF, "work", part + os.environ.get("VERIF_WORK_SUFFIX", ""), "evidence_part.json")
                try:
                    pe = json.load(open(pp))
                    c = pe["coverage"]
                    part_cov["part_" + part] = {k: c.get(k) for k in ("evaluations", "distinct_nontrivial", "rule", "scheduler_steps", "preemptions", "simulated_seconds",
                                                                      "runs_per_hour", "faults_fired", "probes", "abstract_cover_count", "coverage_warnings",
                                                                      "components_real", "components_stubbed")}
                    part_cov["part_" + part]["samples"] = (c.get("samples") or [])[:1]
                    part_cov["part_" + part]["assumptions"] = pe.get("assumptions")
                    part_cov["part_" + part]["violations"] = pe.get("violations")
                except Exception as e:  # noqa: BLE001
                    if rc == 0:
                        infra("part %s left no evidence: %s" % (part, e))
    t_start = time.time()
    binp, build_s, inst_log = build(cfg, work)

    if args.replay:
        o, rf = replay_once(binp, cfg, work, args.replay)
        if o["data"] is None:
            print(open(o["log"]).read()[-4000:])
            infra("replay worker failed (rc=%s)" % o["rc"])
        print(open(o["log"]).read())
        ok = o["data"].get("replay_ok")
        if ok:
            print("VIOLATION property=%s replay=%s" % (cfg.get("report_as", args.prop), os.path.abspath(args.replay)))
            print("  class: %s\n  detail: %s" % (o["data"].get("replay_class"), o["data"].get("replay_detail")))
            sys.exit(1)
        print("replay did not reproduce the recorded violation (class now: %r)" % o["data"].get("replay_class"))
        sys.exit(0)

    report = cfg.get("report_as", args.prop)  # a second part of another property's check
    known = load_known(report)
    budget = cfg["budget"][tier]
    nworkers = args.workers or budget.get("workers", 16)
    seconds = args.seconds if args.seconds is not None else budget.get("seconds", 30)
    runs = args.runs if args.runs is not None else budget.get("runs", 0)
    scenarios = cfg["scenarios"]
    all_outs = []
    per_scn = {}

    if args.determinism:
        return determinism(binp, cfg, work, args, seed, tier)

    for scn in scenarios:
        job = {"property": args.prop, "scenario": scn["name"], "tier": tier, "base_seed": seed,
               "runs": runs, "seconds": max(1, int(seconds * scn.get("share", 1.0 / len(scenarios)))),
               "known": [{"id": k["id"], "class": k["class"], "detail": k.get("detail", "")} for k in known],
               "params": scn.get("params", {}).get(tier, {})}
        swork = os.path.join(work, "run-" + scn["name"])
        os.makedirs(swork, exist_ok=True)
        outs = run_workers(binp, job, swork, nworkers, wall_limit=job["seconds"] * 4 + 600)
        if any(o["data"] is None for o in outs) and not any((o["data"] or {}).get("violations") for o in outs):
            # Workers died without recording a violation. Code under test that keeps process-wide state across
            # runs can take a worker down in its second bubble ("synctest channel from outside bubble") before any
            # oracle has spoken; look at fresh processes that perform exactly ONE run each (a violation found there
            # is checkpointed before shrinking and verified by replay like any other).
            tjob = dict(job, runs=1, seconds=0)
            twork = os.path.join(swork, "single-runs")
            os.makedirs(twork, exist_ok=True)
            for batch in range(6):
                touts = run_workers(binp, tjob, twork, 16, wall_limit=300, first_idx=1000 + 16 * batch)
                good = [o for o in touts if o["data"] is not None]
                outs += good
                if any(o["data"].get("violations") for o in good):
                    break
        per_scn[scn["name"]] = outs
        all_outs += outs

    # ---- aggregate
    agg = {"runs": 0, "discarded": 0, "steps": 0, "switches": 0, "preempts": 0, "sim_seconds": 0.0,
           "faults": {}, "probes": {}, "ends": {}, "discard_reasons": {}, "known": {}, "known_samples": {}}
    hashes, nthashes, cover = set(), set(), set()
    samples = []
    violations = []
    crashed = []
    worker_wall = 0.0
    for o in all_outs:
        d = o["data"]
        if d is None:
            crashed.append(o)
            continue
        agg["runs"] += d["runs"]
        agg["discarded"] += d["discarded"]
        agg["steps"] += d["steps"]
        agg["switches"] += d["switches"]
        agg["preempts"] += d["preempts"]
        agg["sim_seconds"] += d["sim_seconds"]
        worker_wall = max(worker_wall, d["wall_seconds"])
        for key in ("faults", "probes", "ends", "discard_reasons", "known"):
            for k, v in (d.get(key) or {}).items():
                agg[key][k] = agg[key].get(k, 0) + v
        for k, v in (d.get("known_samples") or {}).items():
            agg["known_samples"].setdefault(k, v)
        hashes.update(d.get("hashes") or [])
        nthashes.update(d.get("nontrivial_hashes") or [])
        cover.update(d.get("cover") or [])
        if len(samples) < 4:
            samples += (d.get("samples") or [])[:1]
        violations += d.get("violations") or []

    if crashed:
        # a worker died: either a crash of product code outside any task (a
        # candidate violation, replayed by seed) or infrastructure trouble
        for o in crashed:
            tail = ""
            try:
                tail = open(o["log"]).read()[-6000:]
            except Exception:  # noqa: BLE001
                pass
            print("worker died rc=%s log=%s\n%s" % (o["rc"], o["log"], tail))
        if not violations:
            infra("%d worker(s) died without a result (see logs above)" % len(crashed))
        # other workers recorded violations: those are replay-verified below in fresh processes and reported
        print("note: %d worker(s) died without a result; reporting the violations recorded by the others" % len(crashed))

    wall = time.time() - t_start
    exit_code = 0
    vio_lines = []
    os.makedirs(os.path.join(VERIF, "replays"), exist_ok=True)
    seen_classes = set()
    non_replaying = []
    for v in violations:
        if v["class"] in seen_classes:
            continue
        seen_classes.add(v["class"])
        path = os.path.join(VERIF, "replays", "%s-%s.json" % (args.prop, v["seed"]))
        with open(path, "w") as f:
            json.dump(v, f, indent=1)
        # verify the replay in a fresh process before reporting
        o, _ = replay_once(binp, cfg, work, path, tag="verify-%s" % v["seed"])
        if o["data"] is None or not o["data"].get("replay_ok"):
            # never reported as a violation; other classes found in this run may replay exactly (e.g. state that
            # leaks from one run of a worker process into the next shows up in a run that cannot replay alone and,
            # in a scenario made for it, in one that can)
            print("violation class %r (seed %s) did not replay exactly: %s" % (
                v["class"], v["seed"], (o["data"] or {}).get("replay_detail")))
            print("  original detail: %s" % v["detail"][:1500])
            non_replaying.append(path)
            seen_classes.discard(v["class"])
            continue
        vio_lines.append("VIOLATION property=%s replay=%s" % (report, path))
        vio_lines.append("  class: %s" % v["class"])
        vio_lines.append("  detail: %s" % v["detail"][:2000])
        vio_lines.append("  minimised tape: %d of %d entries" % (len(v["tape"]), v.get("original_tape_len", 0)))
        exit_code = 1

    if non_replaying and exit_code == 0:
        infra("non-replaying violation(s) and no exactly replaying one; replay files kept: %s" % ", ".join(non_replaying[:3]))
    known_lines = []
    for k in known:
        n = agg["known"].get(k["id"], 0)
        if n > 0:
            known_lines.append("KNOWN-FINDING: property=%s %s (%s; seen in %d run(s); e.g. %s)" % (
                report, k["id"], k.get("description", ""), n, agg["known_samples"].get(k["id"], "")))

    if agg["runs"] == 0:
        infra("no valid runs (discarded=%d reasons=%s)" % (agg["discarded"], agg["discard_reasons"]))
    if agg["discarded"] > agg["runs"] // 10 + 5:
        infra("too many discarded runs: %d of %d: %s" % (agg["discarded"], agg["runs"] + agg["discarded"], agg["discard_reasons"]))

    if not args.no_evidence:
        rate = agg["runs"] / max(worker_wall, 1e-9)
        zero_probes = [p for p in cfg.get("expect_probes", []) if agg["probes"].get(p, 0) == 0 and agg["faults"].get(p, 0) == 0]
        ev = {
            "property_id": args.prop, "tier": tier, "seed": seed, "level": cfg.get("level", "exploration"),
            "coverage": {
                "evaluations": agg["runs"],
                "distinct_nontrivial": len(nthashes),
                "rule": cfg["rule"],
                "samples": samples[:4] or [{"note": "no sample recorded"}],
                "distinct_schedules": len(hashes),
                "scheduler_steps": agg["steps"],
                "context_switches": agg["switches"],
                "preemptions": agg["preempts"],
                "simulated_seconds": round(agg["sim_seconds"], 3),
                "runs_per_hour": int(rate * 3600),
                "seeds_per_hour": int(rate * 3600),
                "faults_fired": dict(sorted(agg["faults"].items())),
                "probes": dict(sorted(agg["probes"].items())),
                "run_end_reasons": agg["ends"],
                "abstract_cover": sorted(cover)[:400],
                "abstract_cover_count": len(cover),
                "discarded_runs": agg["discarded"],
                "discard_reasons": agg["discard_reasons"],
                "coverage_warnings": ["probe/fault never fired: " + p for p in zero_probes],
                "known_findings_seen": agg["known"],
                "components_real": cfg.get("real", []),
                "components_stubbed": cfg.get("stubbed", []),
                "workers": nworkers,
                "build_seconds": round(build_s, 1),
                "exhaustive": False,
            },
            "assumptions": cfg.get("assumptions", []),
            "wall_s": round(wall, 2),
            "violations": len(seen_classes),
        }
        ev["coverage"].update(part_cov)
        os.makedirs(os.path.join(VERIF, "evidence"), exist_ok=True)
        evpath = os.path.join(VERIF, "evidence", args.prop + ".json")
        if report != args.prop:
            evpath = os.path.join(work, "evidence_part.json")  # merged into the main part's evidence by its driver
        with open(evpath, "w") as f:
            json.dump(ev, f, indent=1)

    print("%s tier=%s seed=%d runs=%d discarded=%d distinct=%d nontrivial=%d steps=%d sim=%.0fs wall=%.1fs faults=%s" % (
        args.prop, tier, seed, agg["runs"], agg["discarded"], len(hashes), len(nthashes), agg["steps"],
        agg["sim_seconds"], wall, json.dumps(agg["faults"], sort_keys=True)))
    for line in known_lines:
        print(line)
    for line in vio_lines:
        print(line)
    sys.stdout.flush()
    if 1 in part_rcs:
        exit_code = 1
    elif exit_code == 0 and any(rc != 0 for rc in part_rcs):
        exit_code = 2
    sys.exit(exit_code)


def determinism(binp, cfg, work, args, seed, tier):
    """Run the same seeds in several processes at GOMAXPROCS 1/4/16 and compare."""
    k = args.determinism
    res = {}
    bad = 0
    for scn in cfg["scenarios"]:
        variants = []
        procs = []
        for rep, gmp in enumerate([1] * 10 + [4] * 10 + [16] * 10):
            job = {"property": args.prop, "scenario": scn["name"], "tier": tier, "base_seed": seed, "runs": k,
                   "seconds": 0, "dumplogs": 1, "known": [{"id": "all", "class": "", "detail": ""}],
                   "params": scn.get("params", {}).get(tier, {})}
            swork = os.path.join(work, "det-%s-%d" % (scn["name"], rep))
            os.makedirs(swork, exist_ok=True)
            # same worker index 0 in all: identical seeds
            procs.append((spawn_worker(binp, job, swork, 0, gmp), gmp))
        for (p, out, log), gmp in procs:
            p.wait()
            log.close()
            with open(out) as f:
                d = json.load(f)
            variants.append((gmp, d["run_hashes"]))
        ref = variants[0][1]
        for gmp, v in variants[1:]:
            if v != ref:
                bad += 1
                diffs = [(a, b) for a, b in zip(ref, v) if a != b]
                print("DETERMINISM MISMATCH scenario=%s GOMAXPROCS=%d: %d of %d runs differ, first: %s" % (
                    scn["name"], gmp, len(diffs), len(ref), diffs[:2]))
        h = hashlib.sha256("\n".join(ref).encode()).hexdigest()[:16]
        print("determinism scenario=%s runs=%d processes=%d digest=%s" % (scn["name"], len(ref), len(variants), h))
        res[scn["name"]] = h
    sys.exit(2 if bad else 0)


if __name__ == "__main__":
    main()
