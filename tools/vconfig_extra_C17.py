CHECK = {
    "engine_n": True,
    "testpkg": "./internal/app/referenceserver",
    "harness": [("referenceserver", "internal/app/referenceserver")],
    "scenarios": [{"name": "c17-response", "share": 0.55}, {"name": "c17-request", "share": 0.35}, {"name": "c17-arbitration", "share": 0.10}],
    "budget": {"quick": {"seconds": 30, "workers": 16}, "thorough": {"seconds": 900, "workers": 16}},
    "level": "exploration",
    "rule": "placeholder",
    "expect_probes": [],
    "real": [], "stubbed": [], "assumptions": [],
}
