"""Second part of check C20 (run by vcheck.py after the main part; reported under property C20): decompressors obtained by the tracer, used by concurrent traced operations."""

CHECK = dict(TRACER_BASE, **{
    "report_as": "C20",
    "scenarios": [{"name": "c20-tracer", "share": 1.0}],
    "budget": {"quick": {"seconds": 8, "workers": 16}, "thorough": {"seconds": 300, "workers": 16}},
    "rule": "c20-tracer: 2-3 tasks under the seeded scheduler each push one Connect streaming response body (0-2 compressed data envelopes and a compressed end-stream message whose content, 40 bytes .. 70 KB, is unique to the task) through TracingRoundTripper with the instrumented tracer package (reader.go / tracer.go GetDecompressor -> internal/compression), usually all with the same encoding (zstd, gzip, br, deflate, snappy), reading with 1 byte .. 128 KiB buffers; every trace must carry exactly its own operation's decompressed end-stream content. Distinct = hash of the step log.",
    "expect_probes": ["concurrent-operations-same-encoding:zstd", "concurrent-operations-same-encoding:gzip"],
    "real": ["internal/tracer: middleware.go, reader.go (dataTracer), tracer.go (GetDecompressor), builder.go - instrumented copies of the current tree; internal/compression decompressors"],
    "stubbed": ["HTTP transport (scripted response)", "goroutine scheduling (seeded scheduler)"],
    "assumptions": ["the compressed messages are produced with the repository's own compressors (their correctness is the main part's subject)"],
})
