"""Per-property configuration of the checks (see DESIGN.md sect. 4 and 9)."""

RUNNER_PKG = "./internal/app/connectconformance"
RUNNER_FILES = []  # all non-test files of the package: map ranges in the library decide the order of requests
RUNNER_INSTRUMENT = [
    {"pkg": RUNNER_PKG, "files": RUNNER_FILES, "mode": "S",
     "instpkgs": ["connectrpc.com/conformance/internal"],
     "redirect": ["runCommand=verifRunCommand", "runInProcess=verifRunInProcess"]},
    {"pkg": "./internal", "files": ["delimited.go", "printer.go"], "mode": "S"},
    {"pkg": "./internal/app/connectconformance/testsuites", "files": [], "mode": "S"},
]
RUNNER_REAL = [
    "internal/app/connectconformance: client_runner.go, server_runner.go, process.go (makeProcess, runInProcess, localProcess), connectconformance.go, results.go (instrumented copies of the current tree)",
    "internal/delimited.go (ReadDelimitedMessage / WriteDelimitedMessage), io.Pipe, context, protobuf",
]
RUNNER_STUBBED = [
    "OS processes and signals (cmdProcess / runCommand): scripted in-process peers run through the repository's runInProcess seam",
    "wall clock: testing/synctest fake clock",
    "goroutine scheduling of the instrumented files: seeded scheduler (one task runs between two hooks)",
]

def runner_check(scn, rule, probes, assumptions, quick=25, thorough=900):
    return {
        "testpkg": RUNNER_PKG,
        "instrument": RUNNER_INSTRUMENT,
        "harness": [("connectconformance", "internal/app/connectconformance")],
        "scenarios": [{"name": scn}],
        "budget": {"quick": {"seconds": quick, "workers": 16}, "thorough": {"seconds": thorough, "workers": 16}},
        "level": "exploration",
        "rule": rule,
        "expect_probes": probes,
        "real": RUNNER_REAL,
        "stubbed": RUNNER_STUBBED,
        "assumptions": assumptions,
    }


TRACER_INSTRUMENT = [{"pkg": "./internal/tracer", "files": [], "mode": "S"}]
TRACER_BASE = {
    "testpkg": "./internal/tracer",
    "instrument": TRACER_INSTRUMENT,
    "sim": ["simrt", "simwork", "simio"],
    "harness": [("tracer", "internal/tracer")],
    "level": "exploration",
}

CHECKS = {
    "C01": {"external": "vcheck_c01"},
    "C02": {"external": "vcheck_c02"},
    "C19": {"external": "vcheck_c19"},
    "C14": dict(TRACER_BASE, **{
        "scenarios": [{"name": "c14", "share": 0.85}, {"name": "c14-sequence", "share": 0.15}],
        "budget": {"quick": {"seconds": 30, "workers": 16}, "thorough": {"seconds": 900, "workers": 16}},
        "rule": "each evaluation drives one body through TracingRoundTripper or TracingHandler (client response body, client request body, server request body, server response writer) with a scripted inner transport/handler: envelope sequence (flags incl. end-stream encodings 2/3/0x80/0x81 and random bytes, lengths 0..70 KiB, end-stream payload compressed or not, garbage), content type of each protocol, encoding header, seeded partition into Read/Write calls (simio chunking, boundary-aligned and 1-byte), cut at any byte, EOF / EOF-with-data / I/O error / error-with-data / early Close / failing short Write; a reference parser over (byte string, cut point) predicts the event list; transparency compares every (n, err, bytes) with the inner stream. Distinct = hash of case shape + chunk sizes; non-trivial = more than one chunk or a cut.",
        "expect_probes": ["truncate-at-byte", "end:close-early", "end:error-with-data", "end:eof-with-data"],
        "real": ["internal/tracer: reader.go (tracingReader, dataTracer), middleware.go (TracingRoundTripper, TracingHandler, tracingResponseWriter), builder.go, tracer.go (GetDecompressor); internal/compression"],
        "stubbed": ["HTTP transport and handler (scripted), body streams (simio)", "no clock needed"],
        "assumptions": ["a cut exactly after a 5-byte prefix may or may not produce a zero-length partial event (the statement does not decide it)",
                        "end-stream content is only compared when the model can decide it (flag clear: raw; flag set and payload really compressed with the negotiated encoding: plaintext); flagged garbage only must not crash",
                        "expected end-stream plaintext is produced with the repository's own compressors (their correctness is C20's subject)"],
    }),
    "C16": dict(TRACER_BASE, **{
        "extra_parts": ["C16F", "C16W"],  # the runner's consumer side (results.go fetchTrace), own test binary
        "scenarios": [{"name": "c16-slots", "share": 0.5}, {"name": "c16-builder", "share": 0.5}],
        "budget": {"quick": {"seconds": 30, "workers": 16}, "thorough": {"seconds": 900, "workers": 16}},
        "rule": "c16-slots: 2-5 tasks issue 1-4 seeded operations each (Init, Complete with a unique trace, Await with a fake-clock deadline of 1 ms..5 s, Clear) on up to 3 test names, with seeded pauses; every scheduling decision from the tape; the step at which each operation's critical section ran is read off the scheduler's step records and a sequential slot model is replayed in that order. c16-builder: one traced HTTP operation through TracingRoundTripper or TracingHandler with request body, response body (or transport error), application reads/early close and context cancellation issued from 2-4 concurrent tasks at seeded instants. Distinct = hash of the step log + operations; non-trivial = at least one preemption (or a cancellation).",
        "expect_probes": ["await-absent", "await-after-completion", "await-before-completion", "await-timeout", "complete-without-effect", "waiter-across-reinit", "context-cancelled", "body-closed-early"],
        "real": ["internal/tracer: tracer.go (Init/Complete/Await/Clear), builder.go, middleware.go, reader.go (instrumented copies of the current tree)"],
        "stubbed": ["HTTP transport/handler (scripted), bodies (simio), wall clock (synctest), goroutine scheduling (seeded scheduler)"],
        "assumptions": ["the first critical section of a slot operation is its linearization point (an operation without any lock acquisition makes the run not analysable: discarded and counted)",
                        "when a slot is cleared or re-initialised while a waiter waits, the waiter may time out or obtain a later completion (the statement does not decide it)",
                        "a completion that coincides with the waiter's deadline may go either way",
                        "the data-race clause is not decided here: under the controlled scheduler all steps are ordered by the scheduler's hand-offs"],
    }),
    "C09": {
        "extra_parts": ["C09R"],  # the reference client's request loop over stdin, own test binary
        "testpkg": "./internal",
        "instrument": [{"pkg": "./internal", "files": ["delimited.go"], "mode": "S"}],
        "sim": ["simrt", "simwork", "simio"],
        "harness": [("internal", "internal")],
        "scenarios": [{"name": "c09-delimited", "share": 0.7}, {"name": "c09-codec", "share": 0.3}],
        "budget": {"quick": {"seconds": 30, "workers": 16}, "thorough": {"seconds": 900, "workers": 16}},
        "level": "exploration",
        "rule": "c09-delimited: one simulated execution of a loop of ReadDelimitedMessage calls (instrumented: reader goroutine, select on the fake clock) over a simulated stream carrying 0-5 frames (empty, small, exactly the limit, limit+1, oversize prefixes up to 2^32-1), split into segments with seeded arrival gaps (0, 1 ms, timeout/2, timeout-1ns, exactly timeout, timeout+1ns, 3x timeout), seeded chunking of every Read, cut at any byte, end kind eof / eof-with-data / I/O error / error-with-data / stall; a reference model walks the frames with the stream's arrival times and predicts result, error class, return instant and the progress figures of the timeout text. c09-codec: binary and JSON stream codecs round-trip under seeded chunking and cuts. Distinct = hash of step log + chunk sizes (+ case shape); non-trivial = more than one chunk or a cut or a non-EOF end.",
        "expect_probes": ["timeout-fired", "oversize-rejected", "boundary-at-timeout-instant", "truncate-at-byte", "end:stall", "end:eof-with-data", "data-exactly-at-timeout"],
        "real": ["internal/delimited.go (instrumented copy of the current tree), internal/codec.go (protoDecoder/Encoder, jsonDecoder/Encoder), protobuf, encoding/json"],
        "stubbed": ["the peer's pipe: simio.Reader (seeded chunking, arrival times, faults)", "wall clock: synctest fake clock", "goroutine scheduling of delimited.go: seeded scheduler"],
        "assumptions": ["a zero-length Read returns immediately (as OS pipes do)", "when data or the end arrives exactly at the timeout instant either outcome is accepted, never a late return or a torn message",
                        "the stall clause applies to ReadDelimitedMessage (the only reader with a timeout); the codecs are checked for framing and truncation"],
    },
    "C04": runner_check(
        "c04",
        "each evaluation is one simulated execution of connectconformance.Run itself (config file, suite file, patterns, report) with scripted peers in every process slot (under-test or reference slots); the selected cases' fates (pass, assertion failure, client error, neither, never answered), markings (unmarked / known failing / known flaky), peer feedback (reference-server stderr, reference-client feedback), the client process fate (exits 0 or non-0 early, stalls, cut output) and server fates (start error, garbage, never, exits before request, dies mid-batch) and every scheduling decision come from one tape; the boolean returned by Run is compared with an independent reference model of the statement. Distinct = hash of step log + harness events; non-trivial = a fault fired or a preemption happened; abstract_cover lists the truth-table rows (fate x marking x feedback x process fate) reached.",
        ["client(scripted-client):exit-early", "client(reference-client):exit-early", "server:start-error", "server:response-garbage", "server:server-dies-mid-batch"],
        ["the selected set is computed with the library's own expansion and filter (C07/C08 assumed)",
         "a run in which an answer may or may not have been delivered (written after a stream fault or a timeout gap) is inconclusive for the iff and only checked for the output laws",
         "failure of Run although every case met its expectation is accepted when a peer process misbehaved (non-zero exit, kill, stall, stream fault)"],
        quick=40, thorough=900),
    "C05": runner_check(
        "c05",
        "each evaluation is one simulated execution of connectconformance.Run with recording scripted peers in every slot: config (HTTP versions, protocols incl. gRPC and gRPC-Web, codecs, TLS), suite size, --run/--skip patterns, reference or under-test slots (so gRPC-peer permutations and markers occur), --max-servers 1-4, answer latencies, client/server faults and every scheduling decision (including the seeded order of server instances) come from one tape. Distinct = hash of step log + harness events; non-trivial = a fault fired or a preemption happened.",
        ["c05-concurrent-servers"],
        ["the selected set is taken from the library's own allPermutations + filter (C07/C08 assumed, not re-decided)",
         "exactly-once is demanded when no peer misbehaves; with peer faults: at most once and never a non-selected name",
         "OS processes are stubbed, so cmdProcess.abort/WaitDelay are outside this check"],
        quick=40, thorough=900),
    "C11": runner_check(
        "c11",
        "each evaluation is one simulated execution of runTestCasesForServer with the real clientProcessRunner against a scripted server process and a scripted client process; batch size, TLS mode, reference flags, the server's fate (start error, exits before its request, response truncated at byte k / oversize / empty / garbage / never / without certificate, dies after k of n requests, stderr lines) and the client's fate (answer kinds and latencies, cut, garbage, unknown name, early exit, stops reading, missing answers), kill delays and every scheduling decision come from one tape. Distinct = hash of step log + harness events; non-trivial = a fault fired or a preemption happened.",
        ["server:start-error", "server:server-exits-before-request", "server:response-truncated", "server:response-oversize", "server:response-empty",
         "server:response-garbage", "server:response-never", "server:missing-cert", "server:server-dies-mid-batch", "client:exit-early", "client:never-answered",
         "client:cut-at-byte", "client:stop-reading-stdin"],
        ["scripted peers are killable within 0-5 s of their context being cancelled",
         "'ends with exactly one outcome' is evaluated once the call has returned and the client has answered or dropped everything handed to it (the call returns early, without waiting for in-flight answers, when it notices that the server died)",
         "instrumentation completeness checked at run time; invalidated runs are discarded and counted"]),

    "C10": {
        "testpkg": RUNNER_PKG,
        "instrument": RUNNER_INSTRUMENT,
        "harness": [("connectconformance", "internal/app/connectconformance")],
        "scenarios": [{"name": "c10"}],
        "budget": {"quick": {"seconds": 25, "workers": 16}, "thorough": {"seconds": 900, "workers": 16}},
        "level": "exploration",
        "rule": "each evaluation is one simulated execution (own synctest bubble) of runClient + 1-3 concurrent sender tasks + closer against a scripted client process; the scenario (requests, sender assignment, answer latencies and order, one stream/process fault and its position, kill delay) and every scheduling decision come from one seeded choice tape. Distinct = distinct hash over the step log (task, site) and the harness events (request received, answer written, fault fired, callback); non-trivial = at least one fault fired or at least one preemption (a runnable task was descheduled in favour of another).",
        "expect_probes": ["cut-at-byte", "duplicate-answer", "unknown-name", "oversize-prefix", "garbage-message", "premature-answer",
                          "exit-early", "exit-early-nonzero", "stop-reading-stdin", "never-answered", "killed-by-abort", "ignore-stdin-eof"],
        "real": RUNNER_REAL,
        "stubbed": RUNNER_STUBBED,
        "assumptions": [
            "a client process can always be terminated: the scripted client dies within 0-9 s (simulated) of its context being cancelled, as SIGTERM/forced pipe close guarantee for real processes",
            "instrumentation completeness is checked at run time (a task that blocks outside an annotated site invalidates the run); runs invalidated that way are discarded and counted",
            "liveness bound assembled from the package's constants: max answer latency + 2*clientResponseTimeout + 3 s + 2*gracefulShutdownPeriod + kill delay + 1 s",
        ],
    },
}


CHECKS["C04"]["scenarios"] = [{"name": "c04", "share": 0.85}, {"name": "c04-printer", "share": 0.15}]
CHECKS["C04"]["rule"] += (" Scenario c04-printer: 2-4 tasks print 1-3 lines each (plain and '<test name>: message' feedback lines, with and without their own newline) "
                          "through internal.NewPrinter (instrumented) into a sink whose every Write is a scheduling point; the sink must receive exactly the printed lines, whole.")

# checks contributed as separate files: tools/vconfig_extra_<ID>.py defines CHECK = {...}
import glob as _glob, os as _os
for _f in sorted(_glob.glob(_os.path.join(_os.path.dirname(_os.path.abspath(__file__)), "vconfig_extra_*.py"))):
    _ns = {"TRACER_BASE": TRACER_BASE, "TRACER_INSTRUMENT": TRACER_INSTRUMENT}
    exec(open(_f).read(), _ns)
    CHECKS[_os.path.basename(_f)[len("vconfig_extra_"):-3]] = _ns["CHECK"]

# second parts of checks whose configuration lives in an extra file
CHECKS["C20"]["extra_parts"] = ["C20T"]  # decompressors obtained by the tracer, concurrent traced operations (tracer test binary)
CHECKS["C17"]["extra_parts"] = ["C17E"]  # the raw body encoders under concurrent use (engine S, ./internal test binary)

# resource oracle (simwork): one simulated run of the tracer scenarios must not allocate more than this many MiB
# (the largest generated bodies are about 1 MiB; a length announced by the peer must never become an allocation size)
for _id in ("C14", "C15"):
    for _scn in CHECKS[_id]["scenarios"]:
        _p = _scn.setdefault("params", {})
        _p.setdefault("quick", {})["max_alloc_mb"] = 256
        _p.setdefault("thorough", {})["max_alloc_mb"] = 512
